//! C05 (end-to-end half) — a malformed UPDATE never installs a route; the
//! session resets only if it must.
//!
//! The corrupted UPDATEs of the packet-level monitor (`harness/src/bin/c05.rs`:
//! same template builder, same recorded RFC 7606 fault engine, same reference
//! classifier — copied below, they are harness code) are pushed through the REAL
//! receive path of the daemon and the RIB is read back:
//!
//!  * socket mode — `accept_connection` + `PeerSession::run` for a configured
//!    neighbour of a test `Global`; this module is the remote speaker on a
//!    loopback TCP connection (OPEN, KEEPALIVE, UPDATE stream) and also reads
//!    what the daemon sends back (NOTIFICATION / close = session reset).
//!  * direct mode — a `PeerSession::new_for_test` session driven through the
//!    real FSM (`Input::Connected`, OPEN and KEEPALIVE as octets) and then fed
//!    octets through exactly the call sequence of `run_select`'s readable arm:
//!    `codec.try_parse` -> `validate_message(parsed, is_ebgp)` -> `is_as_loop`
//!    filter -> `rx_msg`.
//!
//! Per template: control phase (the valid UPDATE must install its prefixes and
//! remove the pre-installed ones it withdraws; this also yields the RIB's own
//! identity of every prefix), then three corrupted variants.  Each variant is one
//! batch: cleanup, pre-install of the prefixes the UPDATE withdraws, optionally
//! pre-install of the prefixes it announces ("already held from an earlier valid
//! UPDATE"), the corrupted UPDATE, a sentinel UPDATE with a unique MED.
//! Quiescence = the sentinel is visible in the Adj-RIB-In (or the session task
//! has ended).  The RIB is read with `TableManager::collect_paths(AdjIn(peer))`.
//!
//! Clauses (signature = C05/e2e/<clause>/<attr-code>/<fault-kind>):
//!   never-installs       a prefix of an UPDATE whose faults demand withdrawal is in the
//!                        RIB with attributes of that UPDATE
//!   treat-as-withdraw    such a prefix, locatable and held from an earlier UPDATE, is still there
//!   discard              route kept with the discardable-faulty attribute still stored
//!   withdrawals-survive  a prefix withdrawn by the same message is still in the RIB
//!   reset                session reset although framing, TLV chain, MP attributes and NLRI are intact
//!   ebgp-filter          stored path from an external peer carries LOCAL_PREF / ORIGINATOR_ID / CLUSTER_LIST
//!   panic                C05/panic/<file>:<line>:<class>  (session task or rx_msg panicked)
use super::super::*;
use super::common::*;
use bytes::BytesMut;
use std::collections::{BTreeMap, BTreeSet};
use tokio::io::AsyncWriteExt as _;

// ================================================================ copied from harness/src/bin/c05.rs
// (template builder, corruption engine, fault choice, reference classifier; the
//  only changes: the template also records the individual MP NLRI so that the
//  e2e driver can pre-install / clean them up)

// ---------------------------------------------------------------- configuration

#[derive(Clone, Copy, PartialEq, Eq, Debug)]
enum Role {
    Ebgp,
    Ibgp,
    Confed,
    /// e2e only: route-server client — an EXTERNAL neighbour (remote AS != local AS, `route_server_client`)
    RsClient,
    /// e2e only: route-reflector client — an internal neighbour (`route_reflector_client`)
    RrClient,
}

impl Role {
    /// same AS as the local speaker
    fn internal(self) -> bool {
        matches!(self, Role::Ibgp | Role::RrClient)
    }
    /// external and not a confederation member: what the statement calls "an external peer"
    fn external(self) -> bool {
        matches!(self, Role::Ebgp | Role::RsClient)
    }
    fn label(self) -> &'static str {
        match self {
            Role::Ebgp => "ebgp",
            Role::Ibgp => "ibgp",
            Role::Confed => "confed-ebgp",
            Role::RsClient => "rs-client",
            Role::RrClient => "rr-client",
        }
    }
}

#[derive(Clone, Copy, Debug)]
struct Cfg {
    role: Role,
    two_byte: bool,
    addpath: bool,
}

impl Cfg {
    fn is_ebgp(&self) -> bool {
        // the reference notion (statement: "an external peer"): a non-confederation external
        // neighbour, plain eBGP or route-server client.  NOT a copy of what run_select computes.
        self.role.external()
    }
    fn name(&self) -> String {
        format!(
            "{:?}/{}{}",
            self.role,
            if self.two_byte { "as2" } else { "as4" },
            if self.addpath { "/addpath" } else { "" }
        )
    }
}

#[derive(Clone, Copy, PartialEq, Eq, Debug)]
enum Fam {
    V4Mp,
    V4Mc,
    V6,
    Vpn4,
    Vpn6,
    Lab4,
    Lab6,
    Evpn,
    Rtc,
}

const FAMS: [Fam; 9] = [
    Fam::V4Mp,
    Fam::V4Mc,
    Fam::V6,
    Fam::Vpn4,
    Fam::Vpn6,
    Fam::Lab4,
    Fam::Lab6,
    Fam::Evpn,
    Fam::Rtc,
];

impl Fam {
    fn afi_safi(self) -> (u16, u8) {
        match self {
            Fam::V4Mp => (1, 1),
            Fam::V4Mc => (1, 2),
            Fam::V6 => (2, 1),
            Fam::Vpn4 => (1, 128),
            Fam::Vpn6 => (2, 128),
            Fam::Lab4 => (1, 4),
            Fam::Lab6 => (2, 4),
            Fam::Evpn => (25, 70),
            Fam::Rtc => (1, 132),
        }
    }
    fn family(self) -> Family {
        let (a, s) = self.afi_safi();
        Family::new(a, s)
    }
}

fn all_families() -> Vec<Family> {
    let mut v: Vec<Family> = FAMS.iter().map(|f| f.family()).collect();
    v.push(Family::IPV4);
    v
}
// ---------------------------------------------------------------- templates

const ORIGIN: u8 = 1;
const AS_PATH: u8 = 2;
const NEXT_HOP: u8 = 3;
const MED: u8 = 4;
const LOCAL_PREF: u8 = 5;
const ATOMIC_AGGREGATE: u8 = 6;
const AGGREGATOR: u8 = 7;
const COMMUNITY: u8 = 8;
const ORIGINATOR_ID: u8 = 9;
const CLUSTER_LIST: u8 = 10;
const MP_REACH: u8 = 14;
const MP_UNREACH: u8 = 15;
const EXT_COMMUNITY: u8 = 16;
const AS4_PATH: u8 = 17;
const AS4_AGGREGATOR: u8 = 18;
const AIGP: u8 = 26;
const LARGE_COMMUNITY: u8 = 32;

const F_OPT: u8 = 0x80;
const F_TRANS: u8 = 0x40;
const F_PARTIAL: u8 = 0x20;
const F_EXT: u8 = 0x10;

/// Flags the RFCs specify for the attribute types this workload knows (RFC 4271
/// §5, 4456, 4760, 4360, 6793, 7311, 8092).  Unknown codes: None.
fn spec_flags(code: u8) -> Option<u8> {
    Some(match code {
        ORIGIN | AS_PATH | NEXT_HOP | LOCAL_PREF | ATOMIC_AGGREGATE => F_TRANS,
        MED | ORIGINATOR_ID | CLUSTER_LIST | MP_REACH | MP_UNREACH | AIGP => F_OPT,
        AGGREGATOR | COMMUNITY | EXT_COMMUNITY | AS4_PATH | AS4_AGGREGATOR | LARGE_COMMUNITY => {
            F_OPT | F_TRANS
        }
        _ => return None,
    })
}

#[derive(Clone, Debug)]
struct TAttr {
    code: u8,
    flags: u8,
    val: Vec<u8>,
}

#[derive(Clone, Debug)]
struct Tmpl {
    cfg: Cfg,
    scenario: &'static str,
    withdrawn: Vec<Vec<u8>>,
    nlri: Vec<Vec<u8>>,
    /// human-readable legacy prefixes, for the independent identity check
    nlri_txt: Vec<String>,
    attrs: Vec<TAttr>,
    mp_fam: Option<Fam>,
    n_mp_reach: usize,
    n_mp_unreach: usize,
    /// e2e: each announced MP NLRI (with path id when ADD-PATH), as in MP_REACH
    mp_a_nlri: Vec<Vec<u8>>,
    /// e2e: each withdrawn MP NLRI in a form that can be *announced* (labeled
    /// families: a real bottom-of-stack label instead of the compatibility field)
    mp_w_nlri: Vec<Vec<u8>>,
}

struct PfxGen {
    ctr: u8,
}

impl PfxGen {
    fn v4(&mut self, rng: &mut Rng) -> (u8, [u8; 4]) {
        self.ctr = self.ctr.wrapping_add(1);
        let len = rng.range(16, 32) as u8;
        let mut a = [
            10 + (rng.below(3) as u8) * 90,
            self.ctr,
            rng.next_u64() as u8,
            rng.next_u64() as u8,
        ];
        mask_bits(&mut a, len);
        (len, a)
    }
    fn v6(&mut self, rng: &mut Rng) -> (u8, [u8; 16]) {
        self.ctr = self.ctr.wrapping_add(1);
        let len = rng.range(48, 128) as u8;
        let mut a = [0u8; 16];
        a[0] = 0x20;
        a[1] = 0x01;
        a[2] = 0x0d;
        a[3] = 0xb8;
        a[5] = self.ctr;
        for b in a.iter_mut().skip(6) {
            *b = rng.next_u64() as u8;
        }
        mask_bits(&mut a, len);
        (len, a)
    }
}

fn mask_bits(a: &mut [u8], len: u8) {
    let full = (len / 8) as usize;
    let rem = len % 8;
    for (i, b) in a.iter_mut().enumerate() {
        if i < full {
            continue;
        }
        if i == full && rem != 0 {
            *b &= 0xffu8 << (8 - rem);
        } else {
            *b = 0;
        }
    }
}

fn put_pathid(out: &mut Vec<u8>, cfg: &Cfg, rng: &mut Rng) {
    if cfg.addpath {
        out.extend_from_slice(&(rng.range(1, 9) as u32).to_be_bytes());
    }
}

fn enc_plain(len: u8, addr: &[u8]) -> Vec<u8> {
    let mut o = vec![len];
    o.extend_from_slice(&addr[..(len as usize).div_ceil(8)]);
    o
}

fn label(rng: &mut Rng) -> [u8; 3] {
    let l = rng.range(16, 0xfffff) as u32;
    let raw = (l << 4) | 1; // bottom of stack
    [(raw >> 16) as u8, (raw >> 8) as u8, raw as u8]
}

fn rd(rng: &mut Rng) -> [u8; 8] {
    let mut o = [0u8; 8];
    let t = rng.below(3) as u8;
    o[1] = t;
    for b in o.iter_mut().skip(2) {
        *b = rng.next_u64() as u8;
    }
    o
}

/// one NLRI of family `f` on the wire (without path id)
fn mp_nlri(f: Fam, reach: bool, pg: &mut PfxGen, rng: &mut Rng) -> Vec<u8> {
    match f {
        Fam::V4Mp | Fam::V4Mc => {
            let (l, a) = pg.v4(rng);
            enc_plain(l, &a)
        }
        Fam::V6 => {
            let (l, a) = pg.v6(rng);
            enc_plain(l, &a)
        }
        Fam::Vpn4 | Fam::Vpn6 => {
            let (l, a): (u8, Vec<u8>) = if f == Fam::Vpn4 {
                let (l, a) = pg.v4(rng);
                (l, a.to_vec())
            } else {
                let (l, a) = pg.v6(rng);
                (l.min(120), a.to_vec())
            };
            let mut o = vec![24 + 64 + l];
            o.extend_from_slice(&label(rng));
            o.extend_from_slice(&rd(rng));
            o.extend_from_slice(&a[..(l as usize).div_ceil(8)]);
            o
        }
        Fam::Lab4 | Fam::Lab6 => {
            let (l, a): (u8, Vec<u8>) = if f == Fam::Lab4 {
                let (l, a) = pg.v4(rng);
                (l, a.to_vec())
            } else {
                let (l, a) = pg.v6(rng);
                (l, a.to_vec())
            };
            let mut o = vec![24 + l];
            if reach {
                o.extend_from_slice(&label(rng));
            } else {
                o.extend_from_slice(&[0x80, 0x00, 0x00]);
            }
            o.extend_from_slice(&a[..(l as usize).div_ceil(8)]);
            o
        }
        Fam::Evpn => {
            pg.ctr = pg.ctr.wrapping_add(1);
            let mut d = Vec::new();
            let t = rng.range(1, 3) as u8;
            d.extend_from_slice(&rd(rng));
            match t {
                1 => {
                    d.extend_from_slice(&rng.bytes(10));
                    d.extend_from_slice(&[0, 0, 0, pg.ctr]);
                    d.extend_from_slice(&rng.bytes(3));
                }
                2 => {
                    d.extend_from_slice(&rng.bytes(10));
                    d.extend_from_slice(&[0, 0, 0, pg.ctr]);
                    d.push(48);
                    d.extend_from_slice(&rng.bytes(6));
                    if rng.bool() {
                        d.push(0);
                    } else {
                        d.push(32);
                        d.extend_from_slice(&[192, 0, 2, pg.ctr]);
                    }
                    d.extend_from_slice(&rng.bytes(3));
                }
                _ => {
                    d.extend_from_slice(&[0, 0, 0, pg.ctr]);
                    d.push(32);
                    d.extend_from_slice(&[198, 51, 100, pg.ctr]);
                }
            }
            let mut o = vec![t, d.len() as u8];
            o.extend_from_slice(&d);
            o
        }
        Fam::Rtc => {
            pg.ctr = pg.ctr.wrapping_add(1);
            let mut o = vec![96];
            o.extend_from_slice(&(64512u32 + pg.ctr as u32).to_be_bytes());
            o.extend_from_slice(&[0x00, 0x02, 0xfd, 0xe8, 0, 0, pg.ctr, rng.next_u64() as u8]);
            o
        }
    }
}

fn mp_nexthop(f: Fam, rng: &mut Rng) -> Vec<u8> {
    let v4 = |rng: &mut Rng| vec![192, 0, 2, rng.range(1, 254) as u8];
    let v6 = |rng: &mut Rng| {
        let mut a = vec![0x20, 0x01, 0x0d, 0xb8, 0, 0, 0, 0, 0, 0, 0, 0, 0, 0, 0, 0];
        a[15] = rng.range(1, 254) as u8;
        a
    };
    match f {
        Fam::V4Mp | Fam::V4Mc | Fam::Lab4 | Fam::Rtc => v4(rng),
        Fam::V6 | Fam::Lab6 => {
            let mut a = v6(rng);
            if rng.chance(1, 3) {
                let mut ll = vec![0xfe, 0x80, 0, 0, 0, 0, 0, 0, 0, 0, 0, 0, 0, 0, 0, 0];
                ll[15] = rng.range(1, 254) as u8;
                a.extend_from_slice(&ll);
            }
            a
        }
        Fam::Vpn4 => {
            let mut a = vec![0u8; 8];
            a.extend_from_slice(&v4(rng));
            a
        }
        Fam::Vpn6 => {
            let mut a = vec![0u8; 8];
            a.extend_from_slice(&v6(rng));
            a
        }
        Fam::Evpn => {
            if rng.bool() {
                v4(rng)
            } else {
                v6(rng)
            }
        }
    }
}

fn rbytes(rng: &mut Rng, unit: usize, max_units: u64) -> Vec<u8> {
    let n = rng.range(1, max_units) as usize;
    rng.bytes(unit * n)
}

fn rbytes0(rng: &mut Rng, max: u64) -> Vec<u8> {
    let n = rng.range(0, max) as usize;
    rng.bytes(n)
}

fn push_asn(out: &mut Vec<u8>, asn: u32, two_byte: bool) {
    if two_byte {
        out.extend_from_slice(&(asn as u16).to_be_bytes());
    } else {
        out.extend_from_slice(&asn.to_be_bytes());
    }
}

/// (AS_PATH value in session width, AS4_PATH value or None)
fn gen_as_path(cfg: &Cfg, rng: &mut Rng, want_as4: bool) -> (Vec<u8>, Option<Vec<u8>>) {
    let mut segs: Vec<(u8, Vec<u32>)> = Vec::new();
    match cfg.role {
        Role::Ibgp | Role::RrClient if rng.bool() => {}
        Role::Confed => {
            segs.push((
                3,
                (0..rng.range(1, 3))
                    .map(|_| 64600 + rng.below(50) as u32)
                    .collect(),
            ));
            if rng.bool() {
                segs.push((
                    2,
                    (0..rng.range(1, 3))
                        .map(|_| 100 + rng.below(60000) as u32)
                        .collect(),
                ));
            }
        }
        _ => {
            for _ in 0..rng.range(1, 3) {
                let t = if rng.chance(1, 5) { 1 } else { 2 };
                let n = rng.range(1, 4);
                segs.push((
                    t,
                    (0..n)
                        .map(|_| {
                            if rng.chance(1, 4) {
                                70000 + rng.below(100000) as u32
                            } else {
                                100 + rng.below(60000) as u32
                            }
                        })
                        .collect(),
                ));
            }
        }
    }
    let mut p = Vec::new();
    for (t, asns) in &segs {
        p.push(*t);
        p.push(asns.len() as u8);
        for a in asns {
            let a = if cfg.two_byte && *a > 65535 {
                23456
            } else {
                *a
            };
            push_asn(&mut p, a, cfg.two_byte);
        }
    }
    let as4 = if want_as4 {
        // the non-confed segments with the real AS numbers (RFC 6793 §4.2.2)
        let mut q = Vec::new();
        for (t, asns) in segs.iter().filter(|(t, _)| *t == 1 || *t == 2) {
            q.push(*t);
            q.push(asns.len() as u8);
            for a in asns {
                q.extend_from_slice(&a.to_be_bytes());
            }
        }
        if q.is_empty() {
            q = vec![2, 1, 0, 1, 0x11, 0x70];
        }
        Some(q)
    } else {
        None
    };
    (p, as4)
}

fn gen_attrs(cfg: &Cfg, rng: &mut Rng, announce_legacy: bool, announce_any: bool) -> Vec<TAttr> {
    let mut v: Vec<TAttr> = Vec::new();
    let full = announce_any || rng.bool();
    if !full {
        return v; // withdraw-only UPDATE without attributes
    }
    let opt = |rng: &mut Rng| rng.chance(35, 100);
    let ptl = |rng: &mut Rng| if rng.chance(1, 6) { F_PARTIAL } else { 0 };
    v.push(TAttr {
        code: ORIGIN,
        flags: F_TRANS,
        val: vec![rng.below(3) as u8],
    });
    let want_as4 = if cfg.two_byte {
        rng.chance(40, 100)
    } else {
        rng.chance(15, 100)
    };
    let (asp, as4p) = gen_as_path(cfg, rng, want_as4);
    v.push(TAttr {
        code: AS_PATH,
        flags: F_TRANS,
        val: asp,
    });
    if announce_legacy {
        v.push(TAttr {
            code: NEXT_HOP,
            flags: F_TRANS,
            val: vec![192, 0, 2, rng.range(1, 254) as u8],
        });
    }
    if opt(rng) {
        v.push(TAttr {
            code: MED,
            flags: F_OPT,
            val: rng.next_u32().to_be_bytes().to_vec(),
        });
    }
    let ibgp_only = match cfg.role {
        Role::Ebgp => 25,
        // the e2e-only roles lean on the iBGP-only attributes
        Role::RsClient | Role::RrClient => 50,
        _ => 40,
    };
    if (!cfg.role.external() && rng.chance(9, 10))
        || (cfg.role.external() && rng.chance(ibgp_only, 100))
    {
        v.push(TAttr {
            code: LOCAL_PREF,
            flags: F_TRANS,
            val: (rng.below(1000) as u32).to_be_bytes().to_vec(),
        });
    }
    if opt(rng) {
        v.push(TAttr {
            code: ATOMIC_AGGREGATE,
            flags: F_TRANS,
            val: vec![],
        });
    }
    let mut agg4: Option<Vec<u8>> = None;
    if opt(rng) {
        let asn = if rng.chance(1, 3) {
            70000 + rng.below(1000) as u32
        } else {
            100 + rng.below(60000) as u32
        };
        let mut b = Vec::new();
        push_asn(
            &mut b,
            if cfg.two_byte && asn > 65535 {
                23456
            } else {
                asn
            },
            cfg.two_byte,
        );
        let ip = [203, 0, 113, rng.range(1, 254) as u8];
        b.extend_from_slice(&ip);
        v.push(TAttr {
            code: AGGREGATOR,
            flags: F_OPT | F_TRANS | ptl(rng),
            val: b,
        });
        let mut a4 = asn.to_be_bytes().to_vec();
        a4.extend_from_slice(&ip);
        agg4 = Some(a4);
    }
    if opt(rng) {
        v.push(TAttr {
            code: COMMUNITY,
            flags: F_OPT | F_TRANS | ptl(rng),
            val: rbytes(rng, 4, 3),
        });
    }
    if rng.chance(ibgp_only, 100) {
        v.push(TAttr {
            code: ORIGINATOR_ID,
            flags: F_OPT,
            val: vec![10, 0, 0, rng.range(1, 254) as u8],
        });
    }
    if rng.chance(ibgp_only, 100) {
        v.push(TAttr {
            code: CLUSTER_LIST,
            flags: F_OPT,
            val: rbytes(rng, 4, 3),
        });
    }
    if opt(rng) {
        v.push(TAttr {
            code: EXT_COMMUNITY,
            flags: F_OPT | F_TRANS | ptl(rng),
            val: rbytes(rng, 8, 3),
        });
    }
    if let Some(p) = as4p {
        v.push(TAttr {
            code: AS4_PATH,
            flags: F_OPT | F_TRANS | ptl(rng),
            val: p,
        });
    }
    if want_as4 && let Some(a4) = agg4 {
        v.push(TAttr {
            code: AS4_AGGREGATOR,
            flags: F_OPT | F_TRANS | ptl(rng),
            val: a4,
        });
    }
    if opt(rng) {
        v.push(TAttr {
            code: LARGE_COMMUNITY,
            flags: F_OPT | F_TRANS | ptl(rng),
            val: rbytes(rng, 12, 2),
        });
    }
    if opt(rng) {
        let mut b = vec![1, 0, 11];
        b.extend_from_slice(&rng.next_u64().to_be_bytes());
        v.push(TAttr {
            code: AIGP,
            flags: F_OPT,
            val: b,
        });
    }
    if opt(rng) {
        v.push(TAttr {
            code: 200 + rng.below(8) as u8,
            flags: F_OPT | F_TRANS | ptl(rng),
            val: rbytes0(rng, 8),
        });
    }
    if opt(rng) {
        v.push(TAttr {
            code: 211 + rng.below(8) as u8,
            flags: F_OPT,
            val: rbytes0(rng, 8),
        });
    }
    v
}

fn gen_template(rng: &mut Rng) -> Tmpl {
    let cfg = Cfg {
        role: *rng.pick(&[
            Role::Ebgp,
            Role::Ebgp,
            Role::Ibgp,
            Role::Ibgp,
            Role::Confed,
            Role::Confed,
            Role::RsClient,
            Role::RsClient,
            Role::RrClient,
        ]),
        two_byte: rng.chance(2, 5),
        addpath: rng.chance(1, 4),
    };
    // weights: the announcing scenarios dominate
    let scenario = *rng.pick(&[
        "v4",
        "v4",
        "v4+wd",
        "v4+wd",
        "wd-only",
        "mp",
        "mp",
        "mp",
        "mp+unreach",
        "mp+unreach",
        "unreach-only",
        "mixed",
        "mixed",
    ]);
    let mut pg = PfxGen { ctr: 0 };
    let legacy_a = matches!(scenario, "v4" | "v4+wd" | "mixed");
    let legacy_w = matches!(scenario, "v4+wd" | "wd-only" | "mixed");
    let mp_a = matches!(scenario, "mp" | "mp+unreach" | "mixed");
    let mp_w = matches!(scenario, "mp+unreach" | "unreach-only" | "mixed");
    let mut nlri = Vec::new();
    let mut nlri_txt = Vec::new();
    let mut withdrawn = Vec::new();
    if legacy_a {
        for _ in 0..rng.range(1, 4) {
            let (l, a) = pg.v4(rng);
            let mut o = Vec::new();
            put_pathid(&mut o, &cfg, rng);
            o.extend_from_slice(&enc_plain(l, &a));
            nlri.push(o);
            nlri_txt.push(format!("{}.{}.{}.{}/{}", a[0], a[1], a[2], a[3], l));
        }
    }
    if legacy_w {
        for _ in 0..rng.range(1, 3) {
            let (l, a) = pg.v4(rng);
            let mut o = Vec::new();
            put_pathid(&mut o, &cfg, rng);
            o.extend_from_slice(&enc_plain(l, &a));
            withdrawn.push(o);
        }
    }
    let mut attrs = gen_attrs(&cfg, rng, legacy_a, legacy_a || mp_a);
    let mut mp_fam = None;
    let mut n_mp_reach = 0;
    let mut n_mp_unreach = 0;
    let mut mp_a_nlri: Vec<Vec<u8>> = Vec::new();
    let mut mp_w_nlri: Vec<Vec<u8>> = Vec::new();
    if mp_a || mp_w {
        let f = loop {
            let f = *rng.pick(&FAMS);
            // in the mixed scenario the MP family must differ from legacy IPv4 unicast
            if !(scenario == "mixed" && f == Fam::V4Mp) {
                break f;
            }
        };
        mp_fam = Some(f);
        let (afi, safi) = f.afi_safi();
        if mp_a {
            let mut b = afi.to_be_bytes().to_vec();
            b.push(safi);
            let nh = mp_nexthop(f, rng);
            b.push(nh.len() as u8);
            b.extend_from_slice(&nh);
            b.push(0);
            n_mp_reach = rng.range(1, 3) as usize;
            for _ in 0..n_mp_reach {
                let mut one = Vec::new();
                put_pathid(&mut one, &cfg, rng);
                one.extend_from_slice(&mp_nlri(f, true, &mut pg, rng));
                b.extend_from_slice(&one);
                mp_a_nlri.push(one);
            }
            attrs.push(TAttr {
                code: MP_REACH,
                flags: F_OPT,
                val: b,
            });
        }
        if mp_w {
            let mut b = afi.to_be_bytes().to_vec();
            b.push(safi);
            n_mp_unreach = rng.range(1, 3) as usize;
            for _ in 0..n_mp_unreach {
                let mut one = Vec::new();
                put_pathid(&mut one, &cfg, rng);
                let off = one.len();
                one.extend_from_slice(&mp_nlri(f, false, &mut pg, rng));
                b.extend_from_slice(&one);
                if matches!(f, Fam::Lab4 | Fam::Lab6) {
                    let l = label(rng);
                    one[off + 1..off + 4].copy_from_slice(&l);
                }
                mp_w_nlri.push(one);
            }
            attrs.push(TAttr {
                code: MP_UNREACH,
                flags: F_OPT,
                val: b,
            });
        }
    }
    match rng.below(5) {
        0 | 1 => rng.shuffle(&mut attrs),
        2 => {
            // MP attributes first (what many implementations send)
            attrs.sort_by_key(|a| (!(a.code == MP_REACH || a.code == MP_UNREACH), a.code));
        }
        _ => attrs.sort_by_key(|a| a.code),
    }
    Tmpl {
        cfg,
        scenario,
        withdrawn,
        nlri,
        nlri_txt,
        attrs,
        mp_fam,
        n_mp_reach,
        n_mp_unreach,
        mp_a_nlri,
        mp_w_nlri,
    }
}
// ---------------------------------------------------------------- corruption engine

#[derive(Clone, Debug, PartialEq)]
enum FK {
    /// xor of the optional / transitive bits
    Flags(u8),
    Partial,
    LowBits(u8),
    /// extended-length bit set and the length re-encoded in two octets (consistent)
    ExtLen,
    /// extended-length bit flipped without touching the length octets
    ExtLenRaw,
    /// value resized to an invalid size, length field consistent ("len", "len-zero", "len-aswidth")
    Resize(usize, &'static str),
    /// length field changed, value untouched
    LenField(i32),
    /// ORIGIN value out of range
    Value(u8),
    SegType(u8),
    SegOverrun,
    SegUnderrun,
    SegZero(bool),
    /// duplicate inserted `pos` items after the original
    Dup(u32, u64),
    Omit,
    /// unrecognised non-optional attribute: (flags, value length, position seed)
    UnknownWk(u8, u8, u32),
    /// total path attribute length changed by delta (or set absolutely when > 60000)
    AttrLen(i32),
    /// message cut by n octets (header length fixed up)
    MsgTrunc(u32),
    /// legacy NLRI made unparseable
    NlriBad,
    MpNhLen(u8),
    MpShort(usize),
    MpNlriBad,
    MpAfi,
    /// n >= 7 extra labels without bottom-of-stack bit in front of the first NLRI's label (VPN families)
    MpLabels(u8),
    /// the inner per-attribute fault applied to the *later* copy that a `Dup` fault of the same
    /// attribute code inserted (no effect when the list has no such `Dup`)
    OnDup(Box<FK>),
}

#[derive(Clone, Debug, PartialEq)]
struct Fault {
    /// attribute type code (0 for message-level faults)
    code: u8,
    k: FK,
}

impl Fault {
    fn kind(&self) -> &'static str {
        match &self.k {
            FK::Flags(_) => "flags",
            FK::Partial => "partial",
            FK::LowBits(_) => "lowbits",
            FK::ExtLen => "extlen",
            FK::ExtLenRaw => "extlen-raw",
            FK::Resize(_, n) => n,
            FK::LenField(_) => "lenfield",
            FK::Value(_) => "value",
            FK::SegType(_) => "seg-type",
            FK::SegOverrun => "seg-overrun",
            FK::SegUnderrun => "seg-underrun",
            FK::SegZero(_) => "seg-zero",
            FK::Dup(..) => {
                if self.code == MP_REACH || self.code == MP_UNREACH {
                    "dup-mp"
                } else {
                    "dup"
                }
            }
            FK::Omit => "omit",
            FK::UnknownWk(..) => "unknown-wk",
            FK::AttrLen(_) => "attrlen",
            FK::MsgTrunc(_) => "msgtrunc",
            FK::NlriBad => "nlri",
            FK::MpNhLen(_) => "mp-nhlen",
            FK::MpShort(_) => "mp-short",
            FK::MpNlriBad => "mp-nlri",
            FK::MpAfi => "mp-afi",
            FK::MpLabels(_) => "mp-labels",
            FK::OnDup(sub) => match **sub {
                FK::Flags(_) => "dup2-flags",
                FK::Resize(_, "len-zero") => "dup2-len-zero",
                FK::Resize(_, "len-aswidth") => "dup2-len-aswidth",
                FK::Resize(..) => "dup2-len",
                FK::Value(_) => "dup2-value",
                FK::SegType(_) | FK::SegOverrun | FK::SegUnderrun | FK::SegZero(_) => "dup2-seg",
                FK::LenField(_) => "dup2-lenfield",
                FK::ExtLenRaw => "dup2-extlen-raw",
                _ => "dup2-benign",
            },
        }
    }
    fn on_first_copy(&self) -> bool {
        !matches!(self.k, FK::OnDup(_) | FK::Dup(..))
    }
}

#[derive(Clone, Debug)]
struct Item {
    code: u8,
    flags: u8,
    val: Vec<u8>,
    ext: bool,
    len_override: Option<u32>,
    raw_ext_flip: bool,
    is_dup: bool,
}

fn filler(n: usize, seed: u8) -> Vec<u8> {
    (0..n)
        .map(|i| (i as u8).wrapping_mul(7).wrapping_add(seed) | 1)
        .collect()
}

/// a different but valid value of the same attribute (for duplicates)
fn alt_value(code: u8, val: &[u8], seed: u32) -> Vec<u8> {
    match code {
        ORIGIN => vec![(val.first().copied().unwrap_or(0) + 1) % 3],
        MED | LOCAL_PREF | ORIGINATOR_ID => (u32::from_be_bytes([val[0], val[1], val[2], val[3]])
            ^ (seed | 1))
            .to_be_bytes()
            .to_vec(),
        COMMUNITY | CLUSTER_LIST | EXT_COMMUNITY | LARGE_COMMUNITY => {
            val.iter().map(|b| b ^ (seed as u8 | 1)).collect()
        }
        _ => val.to_vec(),
    }
}

fn seg_width(code: u8, cfg: &Cfg) -> usize {
    if code == AS_PATH && cfg.two_byte {
        2
    } else {
        4
    }
}

/// offsets of the segment headers of an AS_PATH-like value
fn seg_offsets(val: &[u8], w: usize) -> Vec<usize> {
    let mut o = Vec::new();
    let mut p = 0;
    while p + 2 <= val.len() {
        o.push(p);
        p += 2 + val[p + 1] as usize * w;
    }
    o
}

/// apply one per-attribute fault to one copy of the attribute
fn mutate(it: &mut Item, code: u8, k: &FK, t: &Tmpl) {
    match k {
        FK::Flags(x) => it.flags ^= x & (F_OPT | F_TRANS),
        FK::Partial => it.flags |= F_PARTIAL,
        FK::LowBits(b) => it.flags |= b & 0x0f,
        FK::ExtLen => it.ext = true,
        FK::ExtLenRaw => it.raw_ext_flip = true,
        FK::Resize(n, _) => {
            if *n <= it.val.len() {
                it.val.truncate(*n);
            } else {
                let extra = filler(*n - it.val.len(), code);
                it.val.extend_from_slice(&extra);
            }
        }
        FK::LenField(d) => {
            let max = if it.ext { 65535 } else { 255 };
            let nl = (it.val.len() as i64 + *d as i64).clamp(0, max) as u32;
            it.len_override = Some(nl);
        }
        FK::Value(v) => {
            if !it.val.is_empty() {
                it.val[0] = *v;
            }
        }
        FK::SegType(ty) => {
            let w = seg_width(code, &t.cfg);
            let offs = seg_offsets(&it.val, w);
            if let Some(o) = offs.last() {
                it.val[*o] = *ty;
            }
        }
        FK::SegOverrun => {
            let w = seg_width(code, &t.cfg);
            let offs = seg_offsets(&it.val, w);
            if let Some(o) = offs.last() {
                it.val[*o + 1] = it.val[*o + 1].saturating_add(1);
            }
        }
        FK::SegUnderrun => it.val.push(2),
        FK::SegZero(front) => {
            if *front {
                it.val.splice(0..0, [2u8, 0u8]);
            } else {
                it.val.extend_from_slice(&[2, 0]);
            }
        }
        FK::MpNhLen(n) => {
            if it.val.len() > 3 {
                it.val[3] = *n;
            }
        }
        FK::MpShort(n) => it.val.truncate(*n),
        FK::MpNlriBad => {
            let start = if code == MP_REACH {
                4 + it.val.get(3).copied().unwrap_or(0) as usize + 1
            } else {
                3
            };
            let start = start + if t.cfg.addpath { 4 } else { 0 };
            if start < it.val.len() {
                it.val[start] = 0xff;
            }
        }
        FK::MpAfi => {
            if it.val.len() > 1 {
                it.val[0] = 0;
                it.val[1] = 0xff;
            }
        }
        FK::MpLabels(n) => {
            let start = if code == MP_REACH {
                4 + it.val.get(3).copied().unwrap_or(0) as usize + 1
            } else {
                3
            };
            let start = start + if t.cfg.addpath { 4 } else { 0 };
            if start < it.val.len() {
                it.val[start] = 0xff;
                let extra: Vec<u8> = (0..*n).flat_map(|i| [0u8, i, 0x10]).collect();
                it.val.splice(start + 1..start + 1, extra);
            }
        }
        _ => {}
    }
}

struct Built {
    bytes: Vec<u8>,
}

fn build(t: &Tmpl, faults: &[Fault]) -> Built {
    let mut items: Vec<Item> = t
        .attrs
        .iter()
        .map(|a| Item {
            code: a.code,
            flags: a.flags,
            val: a.val.clone(),
            ext: a.val.len() > 255,
            len_override: None,
            raw_ext_flip: false,
            is_dup: false,
        })
        .collect();
    // per-attribute mutations of the first copy, then structural ones, then the later copies
    for f in faults {
        if matches!(f.k, FK::OnDup(_)) {
            continue;
        }
        let Some(ix) = items.iter().position(|i| i.code == f.code) else {
            continue;
        };
        mutate(&mut items[ix], f.code, &f.k, t);
    }
    for f in faults {
        match &f.k {
            FK::Omit => {
                if let Some(ix) = items.iter().position(|i| i.code == f.code) {
                    items.remove(ix);
                }
            }
            FK::Dup(seed, pos) => {
                if let Some(ix) = items.iter().position(|i| i.code == f.code) {
                    // the copy is the *valid* template value (possibly with other content)
                    let orig = t.attrs.iter().find(|a| a.code == f.code).unwrap();
                    let copy = Item {
                        code: orig.code,
                        flags: orig.flags,
                        val: alt_value(orig.code, &orig.val, *seed),
                        ext: orig.val.len() > 255,
                        len_override: None,
                        raw_ext_flip: false,
                        is_dup: true,
                    };
                    let at = ix + 1 + (*pos as usize % (items.len() - ix));
                    items.insert(at, copy);
                }
            }
            FK::UnknownWk(flags, len, pos) => {
                let at = *pos as usize % (items.len() + 1);
                items.insert(
                    at,
                    Item {
                        code: f.code,
                        flags: *flags,
                        val: filler(*len as usize, 3),
                        ext: false,
                        len_override: None,
                        raw_ext_flip: false,
                        is_dup: false,
                    },
                );
            }
            _ => {}
        }
    }
    for f in faults {
        if let FK::OnDup(sub) = &f.k
            && let Some(ix) = items.iter().position(|i| i.code == f.code && i.is_dup)
        {
            mutate(&mut items[ix], f.code, sub, t);
        }
    }
    let mut block = Vec::new();
    for it in &items {
        let ext = it.ext || it.val.len() > 255;
        let mut fl = (it.flags & !F_EXT) | if ext { F_EXT } else { 0 };
        if it.raw_ext_flip {
            fl ^= F_EXT;
        }
        block.push(fl);
        block.push(it.code);
        let l = it.len_override.unwrap_or(it.val.len() as u32);
        if ext {
            block.extend_from_slice(&(l as u16).to_be_bytes());
        } else {
            block.push(l as u8);
        }
        block.extend_from_slice(&it.val);
    }
    let mut nlri: Vec<u8> = t.nlri.concat();
    let mut attr_len = block.len() as i64;
    let mut trunc = 0usize;
    for f in faults {
        match &f.k {
            FK::NlriBad => {
                let off = if t.cfg.addpath { 4 } else { 0 };
                if off < nlri.len() {
                    nlri[off] = 33 + (nlri[off] % 200);
                }
            }
            FK::AttrLen(d) => {
                attr_len = if *d > 60000 {
                    *d as i64
                } else {
                    (attr_len + *d as i64).clamp(0, 65535)
                };
            }
            FK::MsgTrunc(n) => trunc = *n as usize,
            _ => {}
        }
    }
    let wd: Vec<u8> = t.withdrawn.concat();
    let mut m = vec![0xffu8; 16];
    m.extend_from_slice(&[0, 0, 2]);
    m.extend_from_slice(&(wd.len() as u16).to_be_bytes());
    m.extend_from_slice(&wd);
    m.extend_from_slice(&(attr_len as u16).to_be_bytes());
    m.extend_from_slice(&block);
    m.extend_from_slice(&nlri);
    if trunc > 0 {
        let keep = m.len().saturating_sub(trunc).max(19);
        m.truncate(keep);
    }
    let l = m.len() as u16;
    m[16..18].copy_from_slice(&l.to_be_bytes());
    Built { bytes: m }
}

/// Independent look at the final bytes: are the two length fields inside the
/// message and does a plain TLV walk of the attribute block end exactly at its end?
#[derive(Clone, Copy, PartialEq, Eq, Debug)]
enum Walk {
    Ok,
    FramingBad,
    ChainBad,
}

fn walk(m: &[u8]) -> Walk {
    if m.len() < 23 {
        return Walk::FramingBad;
    }
    let wl = u16::from_be_bytes([m[19], m[20]]) as usize;
    if 23 + wl > m.len() {
        return Walk::FramingBad;
    }
    let al = u16::from_be_bytes([m[21 + wl], m[22 + wl]]) as usize;
    let start = 23 + wl;
    if start + al > m.len() {
        return Walk::FramingBad;
    }
    let end = start + al;
    let mut p = start;
    while p < end {
        if p + 3 > end {
            return Walk::ChainBad;
        }
        let fl = m[p];
        let (l, h) = if fl & F_EXT != 0 {
            if p + 4 > end {
                return Walk::ChainBad;
            }
            (u16::from_be_bytes([m[p + 2], m[p + 3]]) as usize, 4)
        } else {
            (m[p + 2] as usize, 3)
        };
        if p + h + l > end {
            return Walk::ChainBad;
        }
        p += h + l;
    }
    Walk::Ok
}

// ---------------------------------------------------------------- fault choice

fn present(t: &Tmpl, code: u8) -> bool {
    t.attrs.iter().any(|a| a.code == code)
}

fn val_of(t: &Tmpl, code: u8) -> &[u8] {
    &t.attrs.iter().find(|a| a.code == code).unwrap().val
}

fn announces(t: &Tmpl) -> bool {
    !t.nlri.is_empty() || t.n_mp_reach > 0
}

/// invalid sizes for a resize fault of attribute `code` (value length, kind)
fn bad_sizes(t: &Tmpl, code: u8) -> Vec<(usize, &'static str)> {
    let cur = val_of(t, code).len();
    let mut v: Vec<(usize, &'static str)> = match code {
        ORIGIN => vec![(0, "len"), (2, "len"), (4, "len")],
        NEXT_HOP => vec![
            (0, "len"),
            (3, "len"),
            (5, "len"),
            (8, "len"),
            (12, "len"),
            (16, "len"),
            (32, "len"),
        ],
        MED | LOCAL_PREF | ORIGINATOR_ID => vec![(0, "len"), (3, "len"), (5, "len"), (8, "len")],
        ATOMIC_AGGREGATE => vec![(1, "len"), (4, "len")],
        AGGREGATOR => {
            let other = if t.cfg.two_byte { 8 } else { 6 };
            vec![
                (0, "len"),
                (5, "len"),
                (7, "len"),
                (9, "len"),
                (other, "len-aswidth"),
                (other, "len-aswidth"),
            ]
        }
        COMMUNITY | CLUSTER_LIST => vec![
            (0, "len-zero"),
            (cur + 1, "len"),
            (cur + 2, "len"),
            (cur - 1, "len"),
        ],
        EXT_COMMUNITY => vec![
            (0, "len-zero"),
            (cur + 4, "len"),
            (cur - 1, "len"),
            (cur + 1, "len"),
        ],
        LARGE_COMMUNITY => vec![
            (0, "len-zero"),
            (cur + 4, "len"),
            (cur + 8, "len"),
            (cur - 1, "len"),
        ],
        AS4_PATH => vec![(0, "len"), (2, "len"), (4, "len"), (cur + 1, "len")],
        AS4_AGGREGATOR => vec![(0, "len"), (6, "len"), (7, "len"), (9, "len")],
        _ => vec![],
    };
    v.retain(|(n, _)| *n != cur);
    v
}

fn choose_faults(t: &Tmpl, rng: &mut Rng, only: Option<&str>) -> Vec<Fault> {
    let nf = match rng.below(100) {
        0..=2 => 0,
        3..=57 => 1,
        58..=84 => 2,
        85..=94 => 3,
        _ => 4,
    };
    let mut out: Vec<Fault> = Vec::new();
    let mut used: BTreeSet<u8> = BTreeSet::new();
    let mut msg_level: BTreeSet<&'static str> = BTreeSet::new();
    let known: Vec<u8> = t
        .attrs
        .iter()
        .map(|a| a.code)
        .filter(|c| spec_flags(*c).is_some())
        .collect();
    let all: Vec<u8> = t.attrs.iter().map(|a| a.code).collect();
    let kinds: [(&str, u32); 25] = [
        ("dup+first", 7),
        ("dup+later", 4),
        ("dup+both", 3),
        ("flags", 16),
        ("partial", 2),
        ("lowbits", 2),
        ("extlen", 3),
        ("extlen-raw", 2),
        ("len", 16),
        ("lenfield", 6),
        ("value", 4),
        ("seg", 8),
        ("dup", 7),
        ("omit", 8),
        ("unknown-wk", 6),
        ("attrlen", 4),
        ("msgtrunc", 2),
        ("nlri", 2),
        ("mp", 5),
        ("flags-mand", 3),
        ("len-mand", 3),
        ("len-zero", 3),
        ("len-aswidth", 2),
        ("seg-zero", 2),
        ("nh-as-v6", 2),
    ];
    let total: u32 = kinds.iter().map(|k| k.1).sum();
    let mut tries = 0;
    while out.len() < nf && tries < 40 {
        tries += 1;
        let mut r = rng.below(total as u64) as u32;
        let mut kind = kinds[0].0;
        for (k, w) in kinds.iter() {
            if r < *w {
                kind = k;
                break;
            }
            r -= w;
        }
        if let Some(o) = only
            && !kind.starts_with(o)
        {
            continue;
        }
        let mut extra: Vec<Fault> = Vec::new();
        let free = |cands: &[u8], used: &BTreeSet<u8>| -> Vec<u8> {
            cands
                .iter()
                .copied()
                .filter(|c| !used.contains(c))
                .collect()
        };
        let f: Option<Fault> = match kind {
            "flags" => {
                let c = free(&known, &used);
                (!c.is_empty()).then(|| Fault {
                    code: *rng.pick(&c),
                    k: FK::Flags(*rng.pick(&[F_OPT, F_TRANS, F_OPT | F_TRANS])),
                })
            }
            "flags-mand" => {
                let c = free(
                    &[ORIGIN, AS_PATH, NEXT_HOP]
                        .into_iter()
                        .filter(|c| present(t, *c))
                        .collect::<Vec<_>>(),
                    &used,
                );
                (!c.is_empty()).then(|| Fault {
                    code: *rng.pick(&c),
                    k: FK::Flags(*rng.pick(&[F_OPT, F_TRANS, F_OPT | F_TRANS])),
                })
            }
            "partial" => {
                let c: Vec<u8> = free(&all, &used)
                    .into_iter()
                    .filter(|c| {
                        let fl = t.attrs.iter().find(|a| a.code == *c).unwrap().flags;
                        fl & (F_OPT | F_TRANS) != (F_OPT | F_TRANS)
                    })
                    .collect();
                (!c.is_empty()).then(|| Fault {
                    code: *rng.pick(&c),
                    k: FK::Partial,
                })
            }
            "lowbits" => {
                let c = free(&all, &used);
                (!c.is_empty()).then(|| Fault {
                    code: *rng.pick(&c),
                    k: FK::LowBits(rng.range(1, 15) as u8),
                })
            }
            "extlen" => {
                let c = free(&all, &used);
                (!c.is_empty()).then(|| Fault {
                    code: *rng.pick(&c),
                    k: FK::ExtLen,
                })
            }
            "extlen-raw" => {
                let c = free(&all, &used);
                (!c.is_empty()).then(|| Fault {
                    code: *rng.pick(&c),
                    k: FK::ExtLenRaw,
                })
            }
            "len" | "len-mand" | "len-zero" | "len-aswidth" | "nh-as-v6" => {
                let mut c: Vec<u8> = free(&known, &used)
                    .into_iter()
                    .filter(|c| !bad_sizes(t, *c).is_empty())
                    .collect();
                if kind == "len-mand" {
                    c.retain(|c| matches!(*c, ORIGIN | NEXT_HOP));
                }
                if kind == "nh-as-v6" {
                    c.retain(|c| *c == NEXT_HOP);
                }
                if kind == "len-aswidth" {
                    c.retain(|c| *c == AGGREGATOR);
                }
                if kind == "len-zero" {
                    c.retain(|c| {
                        matches!(
                            *c,
                            COMMUNITY | CLUSTER_LIST | EXT_COMMUNITY | LARGE_COMMUNITY
                        )
                    });
                }
                if c.is_empty() {
                    None
                } else {
                    let code = *rng.pick(&c);
                    let mut sizes = bad_sizes(t, code);
                    if kind == "len-zero" {
                        sizes.retain(|s| s.1 == "len-zero");
                    }
                    if kind == "len-aswidth" {
                        sizes.retain(|s| s.1 == "len-aswidth");
                    }
                    if kind == "nh-as-v6" {
                        sizes.retain(|s| s.0 == 16 || s.0 == 32);
                    }
                    if sizes.is_empty() {
                        None
                    } else {
                        let (n, name) = *rng.pick(&sizes);
                        Some(Fault {
                            code,
                            k: FK::Resize(n, name),
                        })
                    }
                }
            }
            "lenfield" => {
                let c = free(&all, &used);
                (!c.is_empty()).then(|| {
                    let d = *rng.pick(&[-3, -2, -1, 1, 2, 3, 7, 40, 200]);
                    Fault {
                        code: *rng.pick(&c),
                        k: FK::LenField(d),
                    }
                })
            }
            "value" => (present(t, ORIGIN) && !used.contains(&ORIGIN)).then(|| Fault {
                code: ORIGIN,
                k: FK::Value(rng.range(3, 255) as u8),
            }),
            "seg" | "seg-zero" => {
                let c = free(
                    &[AS_PATH, AS4_PATH]
                        .into_iter()
                        .filter(|c| present(t, *c))
                        .collect::<Vec<_>>(),
                    &used,
                );
                if c.is_empty() {
                    None
                } else {
                    let code = *rng.pick(&c);
                    let empty = val_of(t, code).is_empty();
                    let k = if kind == "seg-zero" {
                        FK::SegZero(rng.bool())
                    } else {
                        match rng.below(4) {
                            0 if !empty => FK::SegType(*rng.pick(&[0u8, 5, 6, 0x42, 0xff])),
                            1 if !empty => FK::SegOverrun,
                            2 => FK::SegZero(rng.bool()),
                            _ => FK::SegUnderrun,
                        }
                    };
                    Some(Fault { code, k })
                }
            }
            "dup" => {
                let c = free(&all, &used);
                (!c.is_empty()).then(|| Fault {
                    code: *rng.pick(&c),
                    k: FK::Dup(rng.next_u32(), rng.below(16)),
                })
            }
            "dup+first" | "dup+later" | "dup+both" => {
                // a duplicate together with a fault on the first copy, on the later copy, or on both
                let c: Vec<u8> = free(&all, &used)
                    .into_iter()
                    .filter(|c| *c != MP_REACH && *c != MP_UNREACH)
                    .collect();
                if c.is_empty() {
                    None
                } else {
                    let code = *rng.pick(&c);
                    if kind != "dup+later"
                        && let Some(k) = attr_fault(t, code, rng)
                    {
                        extra.push(Fault { code, k });
                    }
                    if kind != "dup+first"
                        && let Some(k) = attr_fault(t, code, rng)
                    {
                        extra.push(Fault {
                            code,
                            k: FK::OnDup(Box::new(k)),
                        });
                    }
                    Some(Fault {
                        code,
                        k: FK::Dup(rng.next_u32(), rng.below(16)),
                    })
                }
            }
            "omit" => {
                let c = free(
                    &[ORIGIN, AS_PATH, NEXT_HOP]
                        .into_iter()
                        .filter(|c| present(t, *c))
                        .collect::<Vec<_>>(),
                    &used,
                );
                (announces(t) && !c.is_empty()).then(|| Fault {
                    code: *rng.pick(&c),
                    k: FK::Omit,
                })
            }
            "unknown-wk" => {
                // a type code that is neither assigned in the template nor known
                let code = 100 + rng.below(60) as u8;
                (!used.contains(&code)).then(|| Fault {
                    code,
                    k: FK::UnknownWk(
                        *rng.pick(&[F_TRANS, 0u8, F_TRANS | F_PARTIAL]),
                        rng.below(6) as u8,
                        rng.next_u32(),
                    ),
                })
            }
            "attrlen" => (!msg_level.contains("attrlen")).then(|| {
                let d = *rng.pick(&[-9, -4, -3, -2, -1, 1, 2, 3, 5, 17, 300, 65000, 65535]);
                Fault {
                    code: 0,
                    k: FK::AttrLen(d),
                }
            }),
            "msgtrunc" => (!msg_level.contains("msgtrunc")).then(|| Fault {
                code: 0,
                k: FK::MsgTrunc(rng.range(1, 12) as u32),
            }),
            "nlri" => (!t.nlri.is_empty() && !msg_level.contains("nlri")).then(|| Fault {
                code: 0,
                k: FK::NlriBad,
            }),
            "mp" => {
                let c = free(
                    &[MP_REACH, MP_UNREACH]
                        .into_iter()
                        .filter(|c| present(t, *c))
                        .collect::<Vec<_>>(),
                    &used,
                );
                if c.is_empty() {
                    None
                } else {
                    let code = *rng.pick(&c);
                    // VPN NLRI: 8 or more labels plus the RD cannot fit the one-octet bit length -> malformed.
                    // (Labeled-unicast NLRI with several labels can be well-formed, so they are left alone.)
                    let vpn = matches!(t.mp_fam, Some(Fam::Vpn4 | Fam::Vpn6));
                    let k = match rng.below(5) {
                        4 if vpn => FK::MpLabels(rng.range(7, 12) as u8),
                        0 if code == MP_REACH => FK::MpNhLen(*rng.pick(&[0u8, 3, 5, 17, 255])),
                        1 => FK::MpShort(rng.below(if code == MP_REACH { 5 } else { 3 }) as usize),
                        2 => FK::MpAfi,
                        _ => FK::MpNlriBad,
                    };
                    Some(Fault { code, k })
                }
            }
            _ => None,
        };
        if let Some(f) = f {
            if f.code != 0 {
                used.insert(f.code);
            } else {
                msg_level.insert(f.kind());
            }
            out.push(f);
            out.append(&mut extra);
        }
    }
    out
}

/// one per-attribute fault applicable to attribute `code` of the template (used for the
/// duplicate combinations, where first and later copy are faulted independently)
fn attr_fault(t: &Tmpl, code: u8, rng: &mut Rng) -> Option<FK> {
    let known = spec_flags(code).is_some();
    let mut cands: Vec<(u32, u8)> = vec![(1, 4), (1, 5), (1, 6)];
    if known {
        cands.push((6, 0));
    }
    if known && !bad_sizes(t, code).is_empty() {
        cands.push((6, 1));
    }
    if code == ORIGIN {
        cands.push((3, 2));
    }
    if code == AS_PATH || code == AS4_PATH {
        cands.push((4, 3));
    }
    let total: u32 = cands.iter().map(|c| c.0).sum();
    let mut r = rng.below(total as u64) as u32;
    let mut pick = cands[0].1;
    for (w, k) in &cands {
        if r < *w {
            pick = *k;
            break;
        }
        r -= w;
    }
    Some(match pick {
        0 => FK::Flags(*rng.pick(&[F_OPT, F_TRANS, F_OPT | F_TRANS])),
        1 => {
            let sizes = bad_sizes(t, code);
            let (n, name) = *rng.pick(&sizes);
            FK::Resize(n, name)
        }
        2 => FK::Value(rng.range(3, 255) as u8),
        3 => {
            let empty = val_of(t, code).is_empty();
            match rng.below(4) {
                0 if !empty => FK::SegType(*rng.pick(&[0u8, 5, 0x42, 0xff])),
                1 if !empty => FK::SegOverrun,
                2 => FK::SegZero(rng.bool()),
                _ => FK::SegUnderrun,
            }
        }
        4 => FK::LowBits(rng.range(1, 15) as u8),
        5 => FK::ExtLen,
        _ => FK::LenField(*rng.pick(&[-2, -1, 1, 2, 5])),
    })
}

// ---------------------------------------------------------------- classification (the reference RFC 7606 classes)

#[derive(Clone, Copy, PartialEq, Eq, Debug)]
enum Class {
    /// not a fault the statement speaks about (reserved flag bits, consistent extended length): any non-reset outcome
    Benign,
    /// route may be kept, but then without this attribute — or withdrawn
    Discardable,
    /// announced prefixes must be treated as withdrawn
    MustWithdraw,
    /// duplicate of a non-MP attribute: kept with the first occurrence, or withdrawn
    Dup,
    /// fault on a later copy of a duplicated attribute: RFC 7606 §3.g discards every occurrence but
    /// the first, so the fault is void -- the first copy alone decides (kept with the first, or withdrawn)
    LaterCopy,
}

struct Record {
    classes: Vec<Class>,
    /// the engine touched length fields / the total attribute length / cut the message
    framing_touched: bool,
    mp_reach_touched: bool,
    mp_unreach_touched: bool,
    nlri_touched: bool,
    unjudged: Vec<&'static str>,
}

fn type_discardable(code: u8, cfg: &Cfg) -> bool {
    // "an optional non-transitive attribute, AS4_PATH or AS4_AGGREGATOR" (by attribute type);
    // LOCAL_PREF from an external peer is discarded per RFC 7606 §7.5
    matches!(
        code,
        MED | ORIGINATOR_ID
            | CLUSTER_LIST
            | AIGP
            | MP_REACH
            | MP_UNREACH
            | AS4_PATH
            | AS4_AGGREGATOR
    ) || (code == LOCAL_PREF && cfg.is_ebgp())
}

fn classify(t: &Tmpl, faults: &[Fault]) -> Record {
    let mut r = Record {
        classes: Vec::new(),
        framing_touched: false,
        mp_reach_touched: false,
        mp_unreach_touched: false,
        nlri_touched: false,
        unjudged: Vec::new(),
    };
    for f in faults {
        let mandatory =
            matches!(f.code, ORIGIN | AS_PATH) || (f.code == NEXT_HOP && !t.nlri.is_empty());
        let touch_mp = |r: &mut Record| {
            if f.code == MP_REACH {
                r.mp_reach_touched = true;
            }
            if f.code == MP_UNREACH {
                r.mp_unreach_touched = true;
            }
        };
        let c = match &f.k {
            FK::LowBits(_) | FK::ExtLen => Class::Benign,
            FK::Partial => {
                // RFC 4271 says the bit MUST be 0 here, RFC 7606 §3.c only names the
                // Optional and Transitive bits: not judged
                r.unjudged.push("partial-bit");
                Class::Benign
            }
            FK::Flags(x) => {
                touch_mp(&mut r);
                let wire = spec_flags(f.code).unwrap_or(0) ^ x;
                if mandatory {
                    Class::MustWithdraw
                } else if type_discardable(f.code, &t.cfg) {
                    Class::Discardable
                } else if wire & (F_OPT | F_TRANS) == F_OPT {
                    // known optional-transitive / well-known discretionary attribute whose wire
                    // flags now say "optional non-transitive": whether the statement's discard
                    // option applies is a matter of reading; both outcomes accepted
                    r.unjudged.push("flags-wire-says-opt-nontrans");
                    Class::Discardable
                } else {
                    Class::MustWithdraw
                }
            }
            FK::Resize(_, _) => {
                if mandatory {
                    Class::MustWithdraw
                } else if type_discardable(f.code, &t.cfg)
                    || matches!(f.code, ATOMIC_AGGREGATE | AGGREGATOR)
                {
                    // RFC 7606 §7.6/§7.7: attribute discard for ATOMIC_AGGREGATE / AGGREGATOR length errors
                    Class::Discardable
                } else {
                    Class::MustWithdraw
                }
            }
            FK::Value(_) => Class::MustWithdraw,
            FK::SegType(_) | FK::SegOverrun | FK::SegUnderrun | FK::SegZero(_) => {
                if f.code == AS4_PATH {
                    Class::Discardable
                } else {
                    Class::MustWithdraw
                }
            }
            FK::Dup(..) => {
                if f.code == MP_REACH || f.code == MP_UNREACH {
                    // RFC 7606 §3.g: session reset
                    r.mp_reach_touched = true;
                    r.mp_unreach_touched = true;
                    Class::Discardable
                } else {
                    Class::Dup
                }
            }
            FK::OnDup(sub) => {
                let has_dup = faults
                    .iter()
                    .any(|g| g.code == f.code && matches!(g.k, FK::Dup(..)));
                if !has_dup {
                    Class::Benign // no later copy in this list: the fault has no effect
                } else {
                    if matches!(**sub, FK::LenField(_) | FK::ExtLenRaw) {
                        r.framing_touched = true;
                    }
                    Class::LaterCopy
                }
            }
            FK::Omit => Class::MustWithdraw,
            FK::UnknownWk(..) => Class::MustWithdraw,
            FK::LenField(_) | FK::ExtLenRaw => {
                r.framing_touched = true;
                touch_mp(&mut r);
                Class::Benign // judged through the independent TLV walk
            }
            FK::AttrLen(_) | FK::MsgTrunc(_) => {
                r.framing_touched = true;
                Class::Benign
            }
            FK::NlriBad => {
                r.nlri_touched = true;
                Class::Benign
            }
            FK::MpNhLen(_) | FK::MpShort(_) | FK::MpNlriBad | FK::MpAfi | FK::MpLabels(_) => {
                touch_mp(&mut r);
                Class::Discardable
            }
        };
        r.classes.push(c);
    }
    r
}

fn upconvert_path(v: &[u8]) -> Vec<u8> {
    let mut out = Vec::new();
    let mut p = 0;
    while p + 2 <= v.len() {
        let n = v[p + 1] as usize;
        out.push(v[p]);
        out.push(v[p + 1]);
        for i in 0..n {
            let s = p + 2 + 2 * i;
            if s + 2 > v.len() {
                return out;
            }
            out.extend_from_slice(&[0, 0, v[s], v[s + 1]]);
        }
        p += 2 + 2 * n;
    }
    out
}
/// the withdrawn-routes field is untouched by every fault: it is locatable whenever
/// its length field still fits the (possibly cut) message
fn walk_withdrawn_ok(m: &[u8], t: &Tmpl) -> bool {
    let wl: usize = t.withdrawn.iter().map(|w| w.len()).sum();
    m.len() >= 23 + wl
}

fn signature(clause: &str, code: Option<u8>, faults: &[Fault]) -> String {
    if clause.starts_with("panic/") {
        return format!("C05/{}", clause);
    }
    // unknown-wk: the (random) type code is not a discriminating fact; length-field faults
    // break the TLV chain whatever attribute they sit on
    let mut fs: Vec<(u8, &'static str)> = faults
        .iter()
        .map(|f| {
            let c = match f.k {
                FK::UnknownWk(..) => 255,
                FK::LenField(_) | FK::ExtLenRaw => 0,
                _ if f.code >= 200 => 200,
                _ => f.code,
            };
            (c, f.kind())
        })
        .collect();
    fs.sort();
    fs.dedup();
    let codes = if let Some(c) = code {
        c.to_string()
    } else if fs.is_empty() {
        "0".into()
    } else {
        // a duplicate and the faults on its copies share one attribute code: print it once
        let mut cs: Vec<u8> = Vec::new();
        for f in &fs {
            if !cs.contains(&f.0) {
                cs.push(f.0);
            }
        }
        cs.iter()
            .map(|c| c.to_string())
            .collect::<Vec<_>>()
            .join("+")
    };
    let kinds = if fs.is_empty() {
        "none".into()
    } else {
        fs.iter().map(|f| f.1).collect::<Vec<_>>().join("+")
    };
    format!("C05/{}/{}/{}", clause, codes, kinds)
}

// ================================================================ e2e driver (new code)

const LOCAL_AS: u32 = 65001;
const EBGP_PEER_AS: u32 = 65002;
const RS_CLIENT_AS: u32 = 65003;
const CONFED_ID: u32 = 65010;
const CONFED_LOCAL_MEMBER: u32 = 64700;
const CONFED_PEER_MEMBER: u32 = 64701;
const LOCAL_RID: Ipv4Addr = Ipv4Addr::new(1, 0, 0, 1);
const PEER_RID: Ipv4Addr = Ipv4Addr::new(9, 9, 9, 9);
/// LARGE_COMMUNITY value that marks routes installed by the harness's own valid
/// "earlier" UPDATEs (never produced by the template generator)
const PRE_MARK: [u8; 12] = [
    0x00, 0x00, 0xfd, 0xe9, 0x50, 0x52, 0x45, 0x21, 0xc0, 0x5e, 0x2e, 0x00,
];
const SENTINEL_PFX: [u8; 4] = [24, 198, 18, 0];
const SENTINEL_PATH_ID: u32 = 7;
const WATCHDOG_S: u64 = 30;
const HOLD_S: u64 = 3600;

fn peer_as(cfg: &Cfg) -> u32 {
    match cfg.role {
        Role::Ebgp => EBGP_PEER_AS,
        Role::RsClient => RS_CLIENT_AS,
        Role::Ibgp | Role::RrClient => LOCAL_AS,
        Role::Confed => CONFED_PEER_MEMBER,
    }
}

fn local_as(cfg: &Cfg) -> u32 {
    match cfg.role {
        Role::Confed => CONFED_LOCAL_MEMBER,
        _ => LOCAL_AS,
    }
}

fn want_role(cfg: &Cfg) -> PeerRole {
    match cfg.role {
        Role::Ebgp => PeerRole::Ebgp,
        Role::Ibgp => PeerRole::Ibgp,
        Role::Confed => PeerRole::ConfedEbgp,
        Role::RsClient => PeerRole::RsClient,
        Role::RrClient => PeerRole::IbgpRrClient,
    }
}

fn cfg_key(cfg: &Cfg) -> (u8, bool, bool) {
    (cfg.role as u8, cfg.two_byte, cfg.addpath)
}

// ---------------------------------------------------------------- valid messages of the harness itself

fn put_attr(out: &mut Vec<u8>, flags: u8, code: u8, val: &[u8]) {
    if val.len() > 255 {
        out.push(flags | F_EXT);
        out.push(code);
        out.extend_from_slice(&(val.len() as u16).to_be_bytes());
    } else {
        out.push(flags);
        out.push(code);
        out.push(val.len() as u8);
    }
    out.extend_from_slice(val);
}

fn frame_update(withdrawn: &[u8], attrs: &[u8], nlri: &[u8]) -> Vec<u8> {
    let mut m = vec![0xffu8; 16];
    m.extend_from_slice(&[0, 0, 2]);
    m.extend_from_slice(&(withdrawn.len() as u16).to_be_bytes());
    m.extend_from_slice(withdrawn);
    m.extend_from_slice(&(attrs.len() as u16).to_be_bytes());
    m.extend_from_slice(attrs);
    m.extend_from_slice(nlri);
    let l = m.len() as u16;
    m[16..18].copy_from_slice(&l.to_be_bytes());
    m
}

/// ORIGIN, AS_PATH (what a well-behaved neighbour of this kind sends), LOCAL_PREF on internal sessions
fn base_attrs(cfg: &Cfg) -> Vec<u8> {
    let mut a = Vec::new();
    put_attr(&mut a, F_TRANS, ORIGIN, &[0]);
    let mut p = Vec::new();
    match cfg.role {
        Role::Ebgp | Role::RsClient => {
            p.extend_from_slice(&[2, 1]);
            push_asn(&mut p, peer_as(cfg), cfg.two_byte);
        }
        Role::Ibgp | Role::RrClient => {}
        Role::Confed => {
            p.extend_from_slice(&[3, 1]);
            push_asn(&mut p, CONFED_PEER_MEMBER, cfg.two_byte);
        }
    }
    put_attr(&mut a, F_TRANS, AS_PATH, &p);
    if !cfg.role.external() {
        put_attr(&mut a, F_TRANS, LOCAL_PREF, &100u32.to_be_bytes());
    }
    a
}

fn fixed_mp_nexthop(f: Fam) -> Vec<u8> {
    let v4 = vec![192u8, 0, 2, 1];
    let v6 = vec![0x20u8, 0x01, 0x0d, 0xb8, 0, 0, 0, 0, 0, 0, 0, 0, 0, 0, 0, 1];
    match f {
        Fam::V4Mp | Fam::V4Mc | Fam::Lab4 | Fam::Rtc | Fam::Evpn => v4,
        Fam::V6 | Fam::Lab6 => v6,
        Fam::Vpn4 => {
            let mut a = vec![0u8; 8];
            a.extend_from_slice(&v4);
            a
        }
        Fam::Vpn6 => {
            let mut a = vec![0u8; 8];
            a.extend_from_slice(&v6);
            a
        }
    }
}

/// valid "earlier" UPDATEs that install the given prefixes, marked with PRE_MARK
fn pre_msgs(t: &Tmpl, legacy: &[&Vec<u8>], mp: &[&Vec<u8>]) -> Vec<Vec<u8>> {
    let mut out = Vec::new();
    if !legacy.is_empty() {
        let mut a = base_attrs(&t.cfg);
        put_attr(&mut a, F_TRANS, NEXT_HOP, &[192, 0, 2, 77]);
        put_attr(&mut a, F_OPT | F_TRANS, LARGE_COMMUNITY, &PRE_MARK);
        let n: Vec<u8> = legacy.iter().flat_map(|v| v.iter().copied()).collect();
        out.push(frame_update(&[], &a, &n));
    }
    if !mp.is_empty()
        && let Some(f) = t.mp_fam
    {
        let mut a = base_attrs(&t.cfg);
        put_attr(&mut a, F_OPT | F_TRANS, LARGE_COMMUNITY, &PRE_MARK);
        let (afi, safi) = f.afi_safi();
        let mut b = afi.to_be_bytes().to_vec();
        b.push(safi);
        let nh = fixed_mp_nexthop(f);
        b.push(nh.len() as u8);
        b.extend_from_slice(&nh);
        b.push(0);
        for v in mp {
            b.extend_from_slice(v);
        }
        put_attr(&mut a, F_OPT, MP_REACH, &b);
        out.push(frame_update(&[], &a, &[]));
    }
    out
}

/// one valid UPDATE that withdraws everything the template touches
fn cleanup_msg(t: &Tmpl) -> Vec<u8> {
    let mut wd: Vec<u8> = Vec::new();
    for v in t.nlri.iter().chain(t.withdrawn.iter()) {
        wd.extend_from_slice(v);
    }
    let mut a = Vec::new();
    if let Some(f) = t.mp_fam
        && (!t.mp_a_nlri.is_empty() || !t.mp_w_nlri.is_empty())
    {
        let (afi, safi) = f.afi_safi();
        let mut b = afi.to_be_bytes().to_vec();
        b.push(safi);
        for v in t.mp_a_nlri.iter().chain(t.mp_w_nlri.iter()) {
            b.extend_from_slice(v);
        }
        put_attr(&mut a, F_OPT, MP_UNREACH, &b);
    }
    frame_update(&wd, &a, &[])
}

fn sentinel_msg(cfg: &Cfg, tag: u32) -> Vec<u8> {
    let mut a = base_attrs(cfg);
    put_attr(&mut a, F_TRANS, NEXT_HOP, &[192, 0, 2, 99]);
    put_attr(&mut a, F_OPT, MED, &tag.to_be_bytes());
    let mut n = Vec::new();
    if cfg.addpath {
        n.extend_from_slice(&SENTINEL_PATH_ID.to_be_bytes());
    }
    n.extend_from_slice(&SENTINEL_PFX);
    frame_update(&[], &a, &n)
}

fn e2e_families() -> Vec<Family> {
    // all_families() names IPv4 unicast twice (as MP family and as the legacy one)
    let mut v: Vec<Family> = Vec::new();
    for f in all_families() {
        if !v.contains(&f) {
            v.push(f);
        }
    }
    v
}

fn neighbour_caps(cfg: &Cfg) -> Vec<packet::Capability> {
    let fams = e2e_families();
    let mut v: Vec<packet::Capability> = fams
        .iter()
        .map(|f| packet::Capability::MultiProtocol(*f))
        .collect();
    if cfg.addpath {
        v.push(packet::Capability::AddPath(
            fams.iter().map(|f| (*f, 2u8)).collect(),
        ));
    }
    if !cfg.two_byte {
        v.push(packet::Capability::FourOctetAsNumber(peer_as(cfg)));
    }
    v
}

/// OPEN + KEEPALIVE of the remote speaker.  Hold time one hour on both sides: no timer fires
/// during a run (hold time 0 is avoided: a negotiated 0 makes the daemon arm a 0 s hold timer, C08's finding)
fn open_bytes(cfg: &Cfg) -> Result<Vec<u8>, String> {
    open_bytes_with(cfg, None)
}

/// OPEN, then (optionally) an UPDATE that arrives before the session is established, then KEEPALIVE
fn open_bytes_with(cfg: &Cfg, early: Option<&[u8]>) -> Result<Vec<u8>, String> {
    let open = bgp::Message::Open(bgp::Open {
        as_number: peer_as(cfg),
        holdtime: HoldTime::new(HOLD_S as u16).unwrap_or(HoldTime::DISABLED),
        router_id: u32::from(PEER_RID),
        capability: neighbour_caps(cfg),
    });
    let mut codec = bgp::PeerCodec::new();
    let mut tx = BytesMut::with_capacity(512);
    codec
        .encode_to(&open, &mut tx)
        .map_err(|_| "OPEN does not encode".to_string())?;
    if let Some(u) = early {
        tx.extend_from_slice(u);
    }
    codec
        .encode_to(&bgp::Message::Keepalive, &mut tx)
        .map_err(|_| "KEEPALIVE does not encode".to_string())?;
    Ok(tx.to_vec())
}

fn neighbour_params(cfg: &Cfg, remote_addr: IpAddr) -> PeerParams {
    let mut families: FnvHashMap<Family, u8> = FnvHashMap::default();
    for f in e2e_families() {
        families.insert(f, if cfg.addpath { 1 } else { 0 });
    }
    PeerParams {
        remote_addr,
        remote_port: 179,
        expected_remote_asn: peer_as(cfg),
        local_asn: 0,
        passive: true,
        rs_client: cfg.role == Role::RsClient,
        route_reflector: RouteReflectorConfig {
            route_reflector_client: cfg.role == Role::RrClient,
            ..RouteReflectorConfig::default()
        },
        delete_on_disconnected: false,
        admin_down: false,
        state: SessionState::Idle,
        holdtime: HOLD_S,
        connect_retry_time: PeerParams::DEFAULT_CONNECT_RETRY_TIME,
        multihop_ttl: None,
        ttl_security: None,
        password: None,
        families,
        send_max: FnvHashMap::default(),
        prefix_limits: FnvHashMap::default(),
        graceful_restart: None,
        llgr: None,
        bfd_config: None,
        neighbor_interface: None,
        bind_interface: None,
        export_policy: None,
    }
}

fn make_global(cfg: &Cfg) -> Global {
    let (tx, _rx) = mpsc::unbounded_channel();
    let (bfd_tx, _bfd_rx) = mpsc::unbounded_channel();
    let mut g = Global::new(tx, bfd_tx);
    g.asn = local_as(cfg);
    g.router_id = LOCAL_RID;
    if cfg.role == Role::Confed {
        let mut members = FnvHashSet::default();
        members.insert(CONFED_LOCAL_MEMBER);
        members.insert(CONFED_PEER_MEMBER);
        g.confederation = Some(ConfederationConfig {
            id: CONFED_ID,
            members,
        });
    }
    g
}

// ---------------------------------------------------------------- RIB read-back

/// identity of a route: family, path id, NLRI with labels left out (as in the packet-level monitor)
fn rib_key(f: Family, n: &packet::Nlri, path_id: u32) -> String {
    let s = match n {
        packet::Nlri::LabeledV4(n) => format!("L4 {}", n.prefix),
        packet::Nlri::LabeledV6(n) => format!("L6 {}", n.prefix),
        packet::Nlri::VpnV4(n) => format!("VPN4 {:?} {}", n.rd, n.prefix),
        packet::Nlri::VpnV6(n) => format!("VPN6 {:?} {}", n.rd, n.prefix),
        other => format!("{:?}", other),
    };
    format!("{}/{}#{} {}", f.afi(), f.safi(), path_id, s)
}

#[derive(Clone)]
struct Ent {
    key: String,
    fam: Family,
    pre: bool,
    attrs: Arc<Vec<packet::Attribute>>,
}

impl Ent {
    fn codes(&self) -> Vec<u8> {
        self.attrs.iter().map(|a| a.code()).collect()
    }
}

fn sentinel_nlri() -> packet::Nlri {
    packet::Nlri::V4(bgp::Ipv4Net {
        addr: Ipv4Addr::new(198, 18, 0, 0),
        mask: 24,
    })
}

/// MED of the sentinel route currently stored for `peer`
fn sentinel_tag(tables: &TableHandle, peer: IpAddr) -> Option<u32> {
    let filter = table::PrefixFilter {
        prefix: sentinel_nlri(),
        lookup_type: table::LookupType::Exact,
    };
    let d = tables.collect_paths(
        table::TableQuery::AdjIn(peer),
        Family::IPV4,
        vec![filter],
        true,
    );
    d.iter().flat_map(|d| d.paths.iter()).find_map(|p| {
        p.attr
            .iter()
            .find(|a| a.code() == MED)
            .and_then(|a| a.value())
    })
}

/// everything stored for `peer` (all families), sentinel left out
fn snapshot(tables: &TableHandle, peer: IpAddr) -> Vec<Ent> {
    let mut fams = e2e_families();
    for f in tables.all_families() {
        if !fams.contains(&f) {
            fams.push(f);
        }
    }
    let sent = sentinel_nlri();
    let mut out = Vec::new();
    for f in fams {
        for d in tables.collect_paths(table::TableQuery::AdjIn(peer), f, vec![], true) {
            if f == Family::IPV4 && d.net == sent {
                continue;
            }
            for p in d.paths.iter() {
                let pre = p.attr.iter().any(|a| {
                    a.code() == LARGE_COMMUNITY
                        && a.binary().map(|b| b.as_slice()) == Some(&PRE_MARK[..])
                });
                out.push(Ent {
                    key: rib_key(f, &d.net, p.remote_path_id),
                    fam: f,
                    pre,
                    attrs: p.attr.clone(),
                });
            }
        }
    }
    out
}

fn describe_rib(ents: &[Ent]) -> String {
    let mut v: Vec<String> = ents
        .iter()
        .map(|e| {
            format!(
                "{} {} attrs={:?}",
                e.key,
                if e.pre {
                    "(earlier UPDATE)"
                } else {
                    "(this UPDATE)"
                },
                e.codes()
            )
        })
        .collect();
    v.sort();
    format!("[{}]", v.join("; "))
}

// ---------------------------------------------------------------- connections

#[derive(Debug)]
enum HErr {
    Watchdog(String),
    Setup(String),
}

#[derive(Clone, Debug, PartialEq)]
enum Outcome {
    Alive,
    /// the daemon ended the session: NOTIFICATION (code, subcode) if one was read
    Reset(Option<(u8, u8)>),
}

struct SockConn {
    cfg: Cfg,
    global: GlobalHandle,
    tables: TableHandle,
    listener: tokio::net::TcpListener,
    client: Option<TcpStream>,
    task: Option<tokio::task::JoinHandle<()>>,
    active_tx: mpsc::UnboundedSender<TcpStream>,
    _active_rx: mpsc::UnboundedReceiver<TcpStream>,
    rx: Vec<u8>,
    peer: IpAddr,
}

impl SockConn {
    async fn new(cfg: Cfg) -> Result<SockConn, HErr> {
        let peer = IpAddr::V4(Ipv4Addr::new(127, 0, 0, 1));
        let mut g = make_global(&cfg);
        g.add_peer(neighbour_params(&cfg, peer), None)
            .map_err(|e| HErr::Setup(format!("add_peer: {}", e)))?;
        let global: GlobalHandle = Arc::new(tokio::sync::RwLock::new(g));
        let tables: TableHandle = Arc::new(TableManager::new(1));
        let listener = crate::verif_hooks::bind_retry("127.0.0.1:0".parse().unwrap())
            .await
            .map_err(|e| HErr::Setup(format!("bind: {}", e)))?;
        let (active_tx, _active_rx) = mpsc::unbounded_channel::<TcpStream>();
        Ok(SockConn {
            cfg,
            global,
            tables,
            listener,
            client: None,
            task: None,
            active_tx,
            _active_rx,
            rx: Vec::new(),
            peer,
        })
    }

    fn alive(&self) -> bool {
        self.client.is_some()
    }

    async fn establish(&mut self) -> Result<(), HErr> {
        match self.establish_with(None).await? {
            Outcome::Alive => Ok(()),
            Outcome::Reset(n) => Err(HErr::Setup(format!(
                "session did not establish (NOTIFICATION {:?})",
                n
            ))),
        }
    }

    async fn establish_with(&mut self, early: Option<&[u8]>) -> Result<Outcome, HErr> {
        let addr = self
            .listener
            .local_addr()
            .map_err(|e| HErr::Setup(e.to_string()))?;
        let client = crate::verif_hooks::connect_retry(addr)
            .await
            .map_err(|e| HErr::Setup(format!("connect: {}", e)))?;
        let (server, _) = self
            .listener
            .accept()
            .await
            .map_err(|e| HErr::Setup(format!("accept: {}", e)))?;
        crate::verif_hooks::no_time_wait(&server);
        let _ = client.set_nodelay(true);
        let _ = server.set_nodelay(true);
        let session = accept_connection(
            &self.global,
            &self.tables,
            server,
            crate::fsm::Role::Passive,
        )
        .await
        .ok_or_else(|| HErr::Setup("accept_connection refused the connection".into()))?;
        if session.export_ctx.role != want_role(&self.cfg) {
            return Err(HErr::Setup(format!(
                "session role {:?}, wanted {:?}",
                session.export_ctx.role,
                want_role(&self.cfg)
            )));
        }
        let g2 = Arc::clone(&self.global);
        let atx = self.active_tx.clone();
        self.task = Some(tokio::spawn(async move { session.run(g2, atx).await }));
        self.client = Some(client);
        self.rx.clear();
        let mut first = open_bytes_with(&self.cfg, early).map_err(HErr::Setup)?;
        first.extend_from_slice(&sentinel_msg(&self.cfg, 0xffff_fff0));
        self.exchange(&first, 0xffff_fff0).await
    }

    /// wait for the session task; a panic of the task is re-raised here (the caller runs under guard())
    async fn reap(&mut self) -> Result<(), HErr> {
        self.client = None;
        if let Some(t) = self.task.take() {
            match tokio::time::timeout(Duration::from_secs(WATCHDOG_S), t).await {
                Ok(Ok(())) => {}
                Ok(Err(je)) => {
                    if je.is_panic() {
                        std::panic::resume_unwind(je.into_panic());
                    }
                }
                Err(_) => {
                    return Err(HErr::Watchdog(
                        "session task did not end after the connection was closed".into(),
                    ));
                }
            }
        }
        Ok(())
    }

    async fn close(&mut self) -> Result<(), HErr> {
        if let Some(mut c) = self.client.take() {
            let _ = c.shutdown().await;
        }
        self.reap().await
    }

    /// send `batch` (ends with the sentinel carrying `tag`) and wait, by state, until
    /// the sentinel is in the Adj-RIB-In or the daemon has ended the session
    async fn exchange(&mut self, batch: &[u8], tag: u32) -> Result<Outcome, HErr> {
        let mut write_failed = false;
        if let Some(c) = self.client.as_mut() {
            if c.write_all(batch).await.is_err() {
                write_failed = true;
            }
        } else {
            return Err(HErr::Setup("exchange on a closed connection".into()));
        }
        let start = std::time::Instant::now();
        let mut notif: Option<(u8, u8)> = None;
        let mut eof = write_failed;
        let mut i = 0u32;
        loop {
            if let Some(c) = self.client.as_mut() {
                let mut buf = [0u8; 4096];
                loop {
                    match c.try_read(&mut buf) {
                        Ok(0) => {
                            eof = true;
                            break;
                        }
                        Ok(n) => self.rx.extend_from_slice(&buf[..n]),
                        Err(ref e) if e.kind() == std::io::ErrorKind::WouldBlock => break,
                        Err(_) => {
                            eof = true;
                            break;
                        }
                    }
                }
            }
            while self.rx.len() >= 19 {
                let l = u16::from_be_bytes([self.rx[16], self.rx[17]]) as usize;
                if l < 19 {
                    self.rx.clear();
                    break;
                }
                if self.rx.len() < l {
                    break;
                }
                if self.rx[18] == 3 && l >= 21 {
                    notif = Some((self.rx[19], self.rx[20]));
                }
                self.rx.drain(..l);
            }
            let finished = self.task.as_ref().map(|t| t.is_finished()).unwrap_or(true);
            if notif.is_some() || eof || finished {
                self.reap().await?;
                return Ok(Outcome::Reset(notif));
            }
            if sentinel_tag(&self.tables, self.peer) == Some(tag) {
                return Ok(Outcome::Alive);
            }
            if start.elapsed().as_secs() >= WATCHDOG_S {
                return Err(HErr::Watchdog(
                    "sentinel route not visible and session not ended".into(),
                ));
            }
            i += 1;
            if i < 200 {
                tokio::task::yield_now().await;
            } else {
                tokio::time::sleep(Duration::from_micros(200)).await;
            }
        }
    }
}

struct DirectConn {
    cfg: Cfg,
    global: GlobalHandle,
    tables: TableHandle,
    sess: Option<PeerSession>,
    rxbuf: BytesMut,
    peer: IpAddr,
    lsa: SocketAddr,
    rsa: SocketAddr,
}

impl DirectConn {
    fn new(cfg: Cfg) -> DirectConn {
        let peer = IpAddr::V4(Ipv4Addr::new(127, 0, 0, 1));
        DirectConn {
            cfg,
            global: Arc::new(tokio::sync::RwLock::new(make_global(&cfg))),
            tables: Arc::new(TableManager::new(1)),
            sess: None,
            rxbuf: BytesMut::with_capacity(1 << 16),
            peer,
            lsa: SocketAddr::new(IpAddr::V4(Ipv4Addr::new(127, 0, 0, 1)), 179),
            rsa: SocketAddr::new(peer, 40000),
        }
    }

    fn alive(&self) -> bool {
        self.sess.is_some()
    }

    /// the session object accept_connection would hand to `run` for this neighbour,
    /// taken through the real FSM: Connected, then OPEN and KEEPALIVE as octets
    async fn establish(&mut self) -> Result<(), HErr> {
        match self.establish_with(None).await? {
            Outcome::Alive => Ok(()),
            Outcome::Reset(n) => Err(HErr::Setup(format!(
                "direct session did not establish (NOTIFICATION {:?})",
                n
            ))),
        }
    }

    async fn establish_with(&mut self, early: Option<&[u8]>) -> Result<Outcome, HErr> {
        let cfg = self.cfg;
        self.tables = Arc::new(TableManager::new(1));
        self.rxbuf.clear();
        let mut fams: FnvHashMap<Family, u8> = FnvHashMap::default();
        for f in e2e_families() {
            fams.insert(f, if cfg.addpath { 1 } else { 0 });
        }
        let local_cap = PeerParams::build_local_cap(self.peer, local_as(&cfg), &fams, None, None);
        let fsm = crate::fsm::PeerFsm::new(
            u32::from(LOCAL_RID),
            local_as(&cfg),
            local_cap.clone(),
            HOLD_S,
            peer_as(&cfg),
            FnvHashMap::default(),
        );
        let arb = Arc::new(std::sync::Mutex::new(ConnArbiter::new(fsm)));
        let context = Arc::new(std::sync::Mutex::new(PeerContext {
            conn_arbiter: arb.clone(),
            active_connect_cancel_tx: None,
            active_connect_join_handle: None,
            gr_state: crate::gr::GrState::new(),
            gr_restart_timer: None,
            llgr_family_timers: FnvHashMap::default(),
            rtc_state: crate::rtc::RtcState::new(),
            rtc_eor_timer: None,
        }));
        let mut s = PeerSession::new_for_test(self.peer, context.clone(), self.tables.clone());
        // new_for_test installs an FSM without capabilities; put the configured one back
        context.lock().unwrap().conn_arbiter = arb.clone();
        s.conn_arbiter = arb;
        s.role = crate::fsm::Role::Passive;
        s.export_ctx = PeerExportContext {
            role: want_role(&cfg),
            local_asn: local_as(&cfg),
            local_addr: self.lsa.ip(),
            link_addr: None,
            confederation_id: if cfg.role == Role::Confed {
                CONFED_ID
            } else {
                0
            },
        };
        s.cluster_id = if cfg.role.internal() {
            Some(LOCAL_RID)
        } else {
            None
        };
        s.local_router_id = LOCAL_RID;
        s.local_cap = local_cap;
        s.codec = s.export_ctx.build_codec();
        let outputs = s
            .conn_arbiter
            .lock()
            .unwrap()
            .process(s.role, crate::fsm::Input::Connected(false));
        let (_, effects) = s.apply_outputs(outputs, self.lsa, self.rsa).await;
        s.process_effects(effects, &self.global).await;
        self.sess = Some(s);
        let mut first = open_bytes_with(&cfg, early).map_err(HErr::Setup)?;
        first.extend_from_slice(&sentinel_msg(&cfg, 0xffff_fff0));
        self.exchange(&first, 0xffff_fff0).await
    }

    /// The loop of run_select's readable arm (daemon/src/event/mod.rs, `Ok(_) => loop { ... }`),
    /// same calls in the same order with the real functions.
    async fn feed(&mut self, bytes: &[u8]) -> Outcome {
        let Some(s) = self.sess.as_mut() else {
            return Outcome::Reset(None);
        };
        self.rxbuf.extend_from_slice(bytes);
        loop {
            match s.codec.try_parse(&mut self.rxbuf) {
                Ok(msg) => match msg {
                    Some(parsed) => {
                        (*s.counter_rx).sync_rx(&parsed);
                        // run_select derives this flag from the session role; direct mode cannot
                        // exercise that expression, so it passes what the statement means by
                        // "external peer" (plain eBGP or route-server client) — the socket mode
                        // judges what run_select itself passes
                        let is_ebgp = self.cfg.is_ebgp();
                        match bgp::validate_message(parsed, is_ebgp) {
                            Err(notif) => {
                                return Outcome::Reset(Some((
                                    notif.notification_code(),
                                    notif.notification_subcode(),
                                )));
                            }
                            Ok(iter) => {
                                for msg in iter {
                                    if let bgp::Message::Update(bgp::Update::Reach { attr, .. }) =
                                        &msg
                                        && is_as_loop(
                                            attr,
                                            s.export_ctx.local_asn,
                                            s.export_ctx.confederation_id,
                                        )
                                    {
                                        continue;
                                    }
                                    let step =
                                        s.rx_msg(&self.global, self.lsa, self.rsa, msg).await;
                                    if let Step::Terminate { notification, .. } = step {
                                        let n = match notification {
                                            Some(bgp::Message::Notification(n)) => Some((
                                                n.notification_code(),
                                                n.notification_subcode(),
                                            )),
                                            _ => None,
                                        };
                                        return Outcome::Reset(n);
                                    }
                                }
                            }
                        }
                    }
                    None => break,
                },
                Err(e) => {
                    return Outcome::Reset(Some((e.notification_code(), e.notification_subcode())));
                }
            }
        }
        // the peer-event arm of run_select: change events addressed to this session
        loop {
            let ev = match s.peer_event_rx.as_mut() {
                Some(rx) => rx.as_mut().try_recv().ok(),
                None => None,
            };
            match ev {
                Some(ToPeerEvent::NlriChange(update)) => s.handle_prefix_update(update),
                Some(_) => {}
                None => break,
            }
        }
        for (f, p) in s.pending.iter_mut() {
            let _ = p.drain_messages(*f);
        }
        s.ctrl_msgs.clear();
        Outcome::Alive
    }

    async fn exchange(&mut self, batch: &[u8], tag: u32) -> Result<Outcome, HErr> {
        match self.feed(batch).await {
            Outcome::Alive => {
                if !self.rxbuf.is_empty() {
                    // a frame that the daemon regards as incomplete: in a live session it
                    // would wait for more octets; the harness frames every message itself
                    return Err(HErr::Watchdog(
                        "direct: octets left in the receive buffer (frame regarded as incomplete)"
                            .into(),
                    ));
                }
                if sentinel_tag(&self.tables, self.peer) != Some(tag) {
                    return Err(HErr::Watchdog(
                        "direct: sentinel route not visible after the batch was processed".into(),
                    ));
                }
                Ok(Outcome::Alive)
            }
            r => {
                self.sess = None;
                Ok(r)
            }
        }
    }
}

enum Conn {
    Sock(Box<SockConn>),
    Direct(Box<DirectConn>),
}

impl Conn {
    fn alive(&self) -> bool {
        match self {
            Conn::Sock(c) => c.alive(),
            Conn::Direct(c) => c.alive(),
        }
    }
    async fn establish(&mut self) -> Result<(), HErr> {
        match self {
            Conn::Sock(c) => c.establish().await,
            Conn::Direct(c) => c.establish().await,
        }
    }
    async fn establish_with(&mut self, early: Option<&[u8]>) -> Result<Outcome, HErr> {
        match self {
            Conn::Sock(c) => c.establish_with(early).await,
            Conn::Direct(c) => c.establish_with(early).await,
        }
    }
    async fn exchange(&mut self, batch: &[u8], tag: u32) -> Result<Outcome, HErr> {
        match self {
            Conn::Sock(c) => c.exchange(batch, tag).await,
            Conn::Direct(c) => c.exchange(batch, tag).await,
        }
    }
    async fn close(&mut self) -> Result<(), HErr> {
        match self {
            Conn::Sock(c) => c.close().await,
            Conn::Direct(c) => {
                c.sess = None;
                Ok(())
            }
        }
    }
    fn rib(&self) -> Vec<Ent> {
        match self {
            Conn::Sock(c) => snapshot(&c.tables, c.peer),
            Conn::Direct(c) => snapshot(&c.tables, c.peer),
        }
    }
}

// ---------------------------------------------------------------- oracle

/// the RIB's own identity of what the valid template announces / withdraws
#[derive(Clone, Default)]
struct Keys {
    legacy_a: Vec<String>,
    mp_a: Vec<String>,
    legacy_w: Vec<String>,
    mp_w: Vec<String>,
    /// the valid template's own withdrawals took effect (control)
    legacy_w_ctl: bool,
    mp_w_ctl: bool,
    /// the harness's valid "withdraw everything" UPDATE emptied the Adj-RIB-In (control)
    cleanup_ok: bool,
    /// Adj-RIB-In after the valid template (control)
    valid_rib: Vec<Ent>,
    valid_hex: Vec<String>,
}

#[derive(Clone, Debug)]
struct Finding {
    clause: String,
    code: Option<u8>,
    text: String,
}

#[derive(Default)]
struct Eval {
    findings: Vec<Finding>,
    notes: Vec<String>,
    observed: String,
    walk_bad: Option<&'static str>,
    unexpected: bool,
    batch_hex: Vec<String>,
}

fn judge(
    t: &Tmpl,
    keys: &Keys,
    faults: &[Fault],
    bytes: &[u8],
    pre_a: bool,
    out: &Outcome,
    rib: &[Ent],
) -> Eval {
    let mut ev = Eval::default();
    let rec = classify(t, faults);
    let w = walk(bytes);
    ev.walk_bad = match w {
        Walk::Ok => None,
        Walk::ChainBad => Some("tlv-chain"),
        Walk::FramingBad => Some("framing"),
    };
    ev.observed = format!(
        "{}; Adj-RIB-In = {}",
        match out {
            Outcome::Alive => "session up".to_string(),
            Outcome::Reset(Some((c, s))) => format!("session reset, NOTIFICATION {}/{}", c, s),
            Outcome::Reset(None) => "session closed by the daemon without NOTIFICATION".to_string(),
        },
        describe_rib(rib)
    );
    for u in &rec.unjudged {
        ev.notes.push(format!("unjudged:{}", u));
    }
    // which duplicate combinations this case carries (evidence counters)
    for (f, _) in faults
        .iter()
        .zip(rec.classes.iter())
        .filter(|(_, c)| **c == Class::Dup)
    {
        let first = faults
            .iter()
            .zip(rec.classes.iter())
            .find(|(g, _)| g.code == f.code && g.on_first_copy())
            .map(|(_, c)| *c);
        let later = faults
            .iter()
            .zip(rec.classes.iter())
            .any(|(g, c)| g.code == f.code && *c == Class::LaterCopy);
        ev.notes.push(
            match (first, later) {
                (Some(Class::MustWithdraw), false) => "combo:dup+first-mustwithdraw",
                (Some(Class::Discardable), false) => "combo:dup+first-discardable",
                (Some(Class::MustWithdraw), true) => "combo:dup+both:first-mustwithdraw",
                (Some(Class::Discardable), true) => "combo:dup+both:first-discardable",
                (Some(_), true) => "combo:dup+both:first-benign",
                (Some(_), false) => "combo:dup+first-benign",
                (None, true) => "combo:dup+later",
                (None, false) => "combo:dup-only",
            }
            .into(),
        );
    }
    if !rec.framing_touched && w != Walk::Ok {
        ev.notes.push("harness:walk-disagrees".into());
        return ev;
    }
    let by_key: BTreeMap<&str, &Ent> = rib.iter().map(|e| (e.key.as_str(), e)).collect();
    let known: BTreeSet<&str> = keys
        .legacy_a
        .iter()
        .chain(keys.mp_a.iter())
        .chain(keys.legacy_w.iter())
        .chain(keys.mp_w.iter())
        .map(|s| s.as_str())
        .collect();
    if rib.iter().any(|e| !known.contains(e.key.as_str())) {
        ev.unexpected = true;
        ev.notes
            .push("unjudged:route-under-a-key-the-template-does-not-have".into());
    }
    let reset_allowed =
        rec.framing_touched || rec.mp_reach_touched || rec.mp_unreach_touched || rec.nlri_touched;
    let chain_detectably_bad = w != Walk::Ok;
    let must_withdraw = rec.classes.contains(&Class::MustWithdraw) || chain_detectably_bad;
    let resynced = rec.framing_touched && !chain_detectably_bad;

    if let Outcome::Reset(n) = out {
        if reset_allowed {
            ev.notes.push("outcome:reset-allowed".into());
        } else {
            ev.findings.push(Finding {
                clause: "reset".into(),
                code: None,
                text: format!("session reset (NOTIFICATION {:?}) although the attribute TLV chain, the MP attributes and all NLRI are intact and locatable", n),
            });
        }
        ev.notes.push(if n.is_some() {
            "outcome:reset:notification".into()
        } else {
            "outcome:reset:closed".into()
        });
        // whatever is left of this peer must not stem from the faulty UPDATE
        if !resynced {
            for p in keys.legacy_a.iter().chain(keys.mp_a.iter()) {
                if let Some(e) = by_key.get(p.as_str())
                    && !e.pre
                    && (must_withdraw
                        || faults.iter().zip(rec.classes.iter()).any(|(f, c)| {
                            *c == Class::Discardable && e.attrs.iter().any(|a| a.code() == f.code)
                        }))
                {
                    ev.findings.push(Finding { clause: "never-installs".into(), code: None, text: format!("prefix {} is left in the RIB with attributes of the faulty UPDATE after the session was reset", p) });
                }
            }
        }
        if !rib.is_empty() {
            ev.notes.push("unjudged:routes-left-after-reset".into());
        }
        return ev;
    }
    if !reset_allowed {
        ev.notes
            .push("clause:reset:no-reset-needed-and-none".into());
    }
    if resynced {
        ev.notes.push("unjudged:length-change-resynced".into());
    }
    let legacy_located = !rec.framing_touched && !rec.nlri_touched;
    let mp_located = !rec.framing_touched && !rec.mp_reach_touched;

    if must_withdraw && !resynced {
        for (set, located, what) in [
            (&keys.legacy_a, legacy_located, "legacy"),
            (&keys.mp_a, mp_located, "MP_REACH"),
        ] {
            for p in set.iter() {
                match by_key.get(p.as_str()) {
                    Some(e) if !e.pre => ev.findings.push(Finding {
                        clause: "never-installs".into(),
                        code: None,
                        text: format!("{} prefix {} is in the RIB with the attributes of an UPDATE that carries a fault demanding treat-as-withdraw (stored attribute codes {:?})", what, p, e.codes()),
                    }),
                    Some(_) if located => ev.findings.push(Finding {
                        clause: "treat-as-withdraw".into(),
                        code: None,
                        text: format!("{} prefix {} was held from an earlier valid UPDATE, is locatable in the faulty UPDATE, and is still in the RIB (not treated as withdrawn)", what, p),
                    }),
                    Some(_) => ev.notes.push("unjudged:held-route-kept-nlri-not-locatable".into()),
                    None => {
                        if pre_a && located {
                            ev.notes.push("clause:treat-as-withdraw:held-route-gone".into());
                        }
                    }
                }
            }
        }
        if !keys.legacy_a.is_empty() || !keys.mp_a.is_empty() {
            ev.notes.push("clause:never-installs:checked".into());
        }
    } else if !resynced {
        if rec.mp_reach_touched {
            for p in keys.mp_a.iter() {
                if let Some(e) = by_key.get(p.as_str())
                    && !e.pre
                {
                    ev.findings.push(Finding { clause: "never-installs".into(), code: None, text: format!("MP prefix {} is in the RIB with the attributes of this UPDATE although MP_REACH_NLRI itself is faulty", p) });
                }
            }
            ev.notes.push("clause:never-installs:mp-checked".into());
        }
        let mut kept = 0;
        let mut withdrawn = 0;
        let mut neither = 0;
        for p in keys.legacy_a.iter().chain(keys.mp_a.iter()) {
            let e = match by_key.get(p.as_str()) {
                Some(e) if !e.pre => e,
                Some(_) => {
                    neither += 1;
                    continue;
                }
                None => {
                    withdrawn += 1;
                    continue;
                }
            };
            kept += 1;
            let attrs = &e.attrs;
            for (f, c) in faults.iter().zip(rec.classes.iter()) {
                match c {
                    Class::Discardable => {
                        if f.code == LOCAL_PREF && t.cfg.role.internal() {
                            // rx_update gives an iBGP route without LOCAL_PREF the default 100: only a
                            // stored value that is the received one (and not 100) shows the faulty attribute was believed
                            let tv = val_of(t, LOCAL_PREF);
                            let tv = if tv.len() >= 4 {
                                Some(u32::from_be_bytes([tv[0], tv[1], tv[2], tv[3]]))
                            } else {
                                None
                            };
                            let sv = attrs
                                .iter()
                                .find(|a| a.code() == LOCAL_PREF)
                                .and_then(|a| a.value());
                            // a later valid copy (duplicate) carries another value: believing that one is as wrong
                            let dv = faults.iter().find_map(|g| match &g.k {
                                FK::Dup(seed, _) if g.code == LOCAL_PREF && tv.is_some() => {
                                    let v = alt_value(LOCAL_PREF, val_of(t, LOCAL_PREF), *seed);
                                    Some(u32::from_be_bytes([v[0], v[1], v[2], v[3]]))
                                }
                                _ => None,
                            });
                            if sv.is_some() && dv.is_some() && sv == dv && dv != Some(100) {
                                ev.findings.push(Finding { clause: "discard".into(), code: None, text: format!("prefix {} stored with the LOCAL_PREF of a later duplicate although the first copy is faulty ({})", p, f.kind()) });
                            } else if sv.is_some() && sv == tv && tv != Some(100) {
                                ev.findings.push(Finding { clause: "discard".into(), code: None, text: format!("prefix {} stored with the received LOCAL_PREF although that attribute is faulty ({})", p, f.kind()) });
                            } else {
                                ev.notes
                                    .push("unjudged:ibgp-local-pref-default-injected".into());
                            }
                        } else if attrs.iter().any(|a| a.code() == f.code) {
                            ev.findings.push(Finding { clause: "discard".into(), code: None, text: format!("prefix {} stored although attribute {} is faulty ({}) and still attached", p, f.code, f.kind()) });
                        }
                        if t.cfg.two_byte
                            && f.code == AS4_PATH
                            && present(t, AS_PATH)
                            && !faults.iter().any(|g| g.code == AS_PATH)
                        {
                            let want = upconvert_path(val_of(t, AS_PATH));
                            if let Some(a) = attrs.iter().find(|a| a.code() == AS_PATH)
                                && a.binary() != Some(&want)
                            {
                                ev.findings.push(Finding { clause: "discard".into(), code: None, text: format!("prefix {} stored with an AS_PATH that is not the received one although AS4_PATH is faulty", p) });
                            }
                        }
                        if t.cfg.two_byte
                            && f.code == AS4_AGGREGATOR
                            && present(t, AGGREGATOR)
                            && !faults.iter().any(|g| g.code == AGGREGATOR)
                        {
                            let v = val_of(t, AGGREGATOR);
                            let mut want = vec![0, 0, v[0], v[1]];
                            want.extend_from_slice(&v[2..]);
                            if let Some(a) = attrs.iter().find(|a| a.code() == AGGREGATOR)
                                && a.binary() != Some(&want)
                            {
                                ev.findings.push(Finding { clause: "discard".into(), code: None, text: format!("prefix {} stored with an AGGREGATOR that is not the received one although AS4_AGGREGATOR is faulty", p) });
                            }
                        }
                    }
                    Class::Dup => {
                        // first copy itself faulty and discardable: the attribute must be gone
                        // altogether (judged by the Discardable arm), a later copy is never believed
                        let first_discardable =
                            faults.iter().zip(rec.classes.iter()).any(|(g, gc)| {
                                g.code == f.code && g.on_first_copy() && *gc == Class::Discardable
                            });
                        if first_discardable {
                            if !attrs.iter().any(|a| a.code() == f.code) {
                                ev.notes
                                    .push("clause:dup-first-discardable:kept-without-attr".into());
                            }
                            continue;
                        }
                        if faults
                            .iter()
                            .zip(rec.classes.iter())
                            .any(|(g, gc)| g.code == f.code && *gc == Class::LaterCopy)
                        {
                            ev.notes.push("clause:dup-later-faulty:kept".into());
                        }
                        let n = attrs.iter().filter(|a| a.code() == f.code).count();
                        if n > 1 {
                            ev.findings.push(Finding {
                                clause: "discard".into(),
                                code: None,
                                text: format!(
                                    "prefix {} stored with {} copies of attribute {}",
                                    p, n, f.code
                                ),
                            });
                        } else if let Some(a) = attrs.iter().find(|a| a.code() == f.code) {
                            let first = val_of(t, f.code);
                            let same = match f.code {
                                ORIGIN => a.value() == Some(first[0] as u32),
                                MED | LOCAL_PREF | ORIGINATOR_ID => {
                                    a.value()
                                        == Some(u32::from_be_bytes([
                                            first[0], first[1], first[2], first[3],
                                        ]))
                                }
                                COMMUNITY | CLUSTER_LIST | EXT_COMMUNITY | LARGE_COMMUNITY => {
                                    a.binary().map(|b| b.as_slice()) == Some(first)
                                }
                                _ => true,
                            };
                            if !same {
                                ev.findings.push(Finding { clause: "discard".into(), code: None, text: format!("prefix {} stored with the value of a later duplicate of attribute {}", p, f.code) });
                            }
                        }
                    }
                    _ => {}
                }
            }
        }
        if rec
            .classes
            .iter()
            .any(|c| matches!(c, Class::Discardable | Class::Dup))
        {
            if kept > 0 {
                ev.notes.push("clause:discard:kept".into());
            }
            if withdrawn > 0 {
                ev.notes.push("clause:discard:withdrawn".into());
            }
        }
        if neither > 0 {
            ev.notes
                .push("unjudged:announced-prefix-neither-kept-nor-withdrawn".into());
        }
    }

    // withdrawals-survive (every withdrawn prefix was pre-installed in the same batch)
    if (!rec.framing_touched || walk_withdrawn_ok(bytes, t)) && !keys.legacy_w.is_empty() {
        if keys.legacy_w_ctl {
            for p in keys.legacy_w.iter() {
                if by_key.contains_key(p.as_str()) {
                    ev.findings.push(Finding {
                        clause: "withdrawals-survive".into(),
                        code: None,
                        text: format!(
                            "route {} withdrawn by the same message is still in the RIB",
                            p
                        ),
                    });
                }
            }
            ev.notes.push("clause:withdrawals:legacy-checked".into());
        } else {
            ev.notes.push("unjudged:withdrawal-control-failed".into());
        }
    }
    if !rec.framing_touched && !rec.mp_unreach_touched && !keys.mp_w.is_empty() {
        if keys.mp_w_ctl {
            for p in keys.mp_w.iter() {
                if by_key.contains_key(p.as_str()) {
                    ev.findings.push(Finding {
                        clause: "withdrawals-survive".into(),
                        code: None,
                        text: format!(
                            "MP_UNREACH route {} of the same message is still in the RIB",
                            p
                        ),
                    });
                }
            }
            ev.notes.push("clause:withdrawals:mp-checked".into());
        } else {
            ev.notes.push("unjudged:withdrawal-control-failed".into());
        }
    }

    // iBGP-only attributes: dropped when learned from an external peer (plain eBGP: clause
    // ebgp-filter; route-server client: ibgp-only-attr-believed); other roles are counted
    let (notes, findings) = ibgp_only_observe(t, faults, rib);
    ev.notes.extend(notes);
    ev.findings.extend(findings);
    let any_new = rib.iter().any(|e| !e.pre);
    ev.notes.push(
        if any_new && must_withdraw {
            "outcome:stored-despite-fault"
        } else if any_new {
            "outcome:stored"
        } else {
            "outcome:nothing-stored"
        }
        .into(),
    );
    ev
}

/// What became of LOCAL_PREF / ORIGINATOR_ID / CLUSTER_LIST of the (valid or corrupted)
/// UPDATE in the paths stored from it.  External non-confederation neighbour (plain eBGP,
/// route-server client): a stored copy = the attribute was believed -> finding.  Internal
/// neighbours (iBGP, RR client) and confederation members: the statement does not speak
/// about them, the outcome is only counted (RFC 5065: LOCAL_PREF is legitimate inside a
/// confederation; RFC 4456 / 7606 7.9-7.10 say "external neighbor" without placing
/// confederation members on either side).
fn ibgp_only_observe(t: &Tmpl, faults: &[Fault], rib: &[Ent]) -> (Vec<String>, Vec<Finding>) {
    let mut notes = Vec::new();
    let mut findings = Vec::new();
    let role = t.cfg.role;
    let stored: Vec<&Ent> = rib.iter().filter(|e| !e.pre).collect();
    let had = [LOCAL_PREF, ORIGINATOR_ID, CLUSTER_LIST]
        .iter()
        .any(|c| present(t, *c));
    if role == Role::Ebgp && had && !stored.is_empty() {
        notes.push("clause:ebgp-filter:stored-with-ibgp-attrs-in-input".into());
    }
    for c in [LOCAL_PREF, ORIGINATOR_ID, CLUSTER_LIST] {
        if role.external() {
            for e in stored.iter() {
                if e.attrs.iter().any(|a| a.code() == c) {
                    findings.push(Finding {
                        clause: if role == Role::Ebgp { "ebgp-filter".into() } else { "ibgp-only-attr-believed".into() },
                        code: Some(c),
                        text: format!(
                            "attribute {} is stored with the path for {} learned from an external peer ({})",
                            c,
                            e.key,
                            role.label()
                        ),
                    });
                }
            }
        }
        // per-role bookkeeping: the attribute was sent intact and a path of this UPDATE is stored
        if !present(t, c) || faults.iter().any(|f| f.code == c) || stored.is_empty() {
            continue;
        }
        let kept = stored.iter().all(|e| e.attrs.iter().any(|a| a.code() == c));
        let gone = stored
            .iter()
            .all(|e| !e.attrs.iter().any(|a| a.code() == c));
        notes.push(format!("ibgp-only:{}:{}:observed", role.label(), c));
        notes.push(format!(
            "ibgp-only:{}:{}:{}",
            role.label(),
            c,
            if kept {
                "stored"
            } else if gone {
                "dropped"
            } else {
                "mixed"
            }
        ));
    }
    (notes, findings)
}

// ---------------------------------------------------------------- workload

struct St {
    rep: Report,
    mode: &'static str,
    tag: u32,
    /// raw (un-minimised) signature -> minimised one, to avoid re-running known findings
    sig_cache: BTreeMap<String, String>,
    minimised: u32,
    /// hex of the batch in flight (witness of a panic)
    in_flight: Vec<String>,
    in_flight_session: String,
    templates_left: u64,
}

impl St {
    fn next_tag(&mut self) -> u32 {
        self.tag = self.tag.wrapping_add(1) & 0x7fff_ffff;
        self.tag
    }
}

struct Pool {
    conns: BTreeMap<(u8, bool, bool), Conn>,
    /// cleanup messages owed to a session before its next case
    dirty: BTreeMap<(u8, bool, bool), Vec<Vec<u8>>>,
}

async fn ensure<'a>(pool: &'a mut Pool, st: &mut St, cfg: &Cfg) -> Result<&'a mut Conn, HErr> {
    let k = cfg_key(cfg);
    if !pool.conns.contains_key(&k) {
        let c = if st.mode == "socket" {
            Conn::Sock(Box::new(SockConn::new(*cfg).await?))
        } else {
            Conn::Direct(Box::new(DirectConn::new(*cfg)))
        };
        pool.conns.insert(k, c);
    }
    let c = pool.conns.get_mut(&k).unwrap();
    if !c.alive() {
        pool.dirty.remove(&k);
        c.establish().await?;
        st.rep
            .count(&format!("e2e:sessions:established:{}", st.mode));
    }
    Ok(c)
}

/// send one batch on the session of `t.cfg` and read the RIB back at quiescence
async fn run_batch(
    pool: &mut Pool,
    st: &mut St,
    t: &Tmpl,
    mut msgs: Vec<Vec<u8>>,
) -> Result<(Outcome, Vec<Ent>, Vec<String>), HErr> {
    let k = cfg_key(&t.cfg);
    // a session may have been lost by the previous case: make sure one is up first
    ensure(pool, st, &t.cfg).await?;
    let mut all: Vec<Vec<u8>> = pool.dirty.remove(&k).unwrap_or_default();
    all.append(&mut msgs);
    let tag = st.next_tag();
    all.push(sentinel_msg(&t.cfg, tag));
    let hexes: Vec<String> = all.iter().map(|m| hex(m)).collect();
    st.in_flight = hexes.clone();
    st.in_flight_session = t.cfg.name();
    let flat: Vec<u8> = all.concat();
    let conn = pool.conns.get_mut(&k).unwrap();
    let out = conn.exchange(&flat, tag).await?;
    let rib = conn.rib();
    st.in_flight.clear();
    if out != Outcome::Alive {
        st.rep.count(&format!("e2e:sessions:reset:{}", st.mode));
    }
    Ok((out, rib, hexes))
}

async fn restart(pool: &mut Pool, k: (u8, bool, bool)) -> Result<(), HErr> {
    if let Some(c) = pool.conns.get_mut(&k) {
        c.close().await?;
    }
    pool.dirty.remove(&k);
    Ok(())
}

/// control phase; one retry on a brand-new session when the first attempt found
/// the session not clean (routes an earlier case left behind)
async fn control(pool: &mut Pool, st: &mut St, t: &Tmpl) -> Result<Result<Keys, String>, HErr> {
    match control_once(pool, st, t).await? {
        Ok(k) => Ok(Ok(k)),
        Err(_) => {
            st.rep.count("e2e:control:retried-on-new-session");
            restart(pool, cfg_key(&t.cfg)).await?;
            control_once(pool, st, t).await
        }
    }
}

/// control phase: the valid template on a clean session
async fn control_once(
    pool: &mut Pool,
    st: &mut St,
    t: &Tmpl,
) -> Result<Result<Keys, String>, HErr> {
    let k = cfg_key(&t.cfg);
    let lw: Vec<&Vec<u8>> = t.withdrawn.iter().collect();
    let mw: Vec<&Vec<u8>> = t.mp_w_nlri.iter().collect();
    let mut first = vec![cleanup_msg(t)];
    first.extend(pre_msgs(t, &lw, &mw));
    let (o1, rib1, _) = run_batch(pool, st, t, first).await?;
    if o1 != Outcome::Alive {
        return Ok(Err(format!(
            "the harness's own valid pre-install UPDATEs reset the session: {:?}",
            o1
        )));
    }
    let mut keys = Keys::default();
    let legacy_w_is_v4 = !t.withdrawn.is_empty();
    for e in rib1.iter() {
        if !e.pre {
            return Ok(Err(format!(
                "route {} without the pre-install mark on a cleaned session",
                e.key
            )));
        }
        if e.fam == Family::IPV4 && legacy_w_is_v4 && t.mp_fam != Some(Fam::V4Mp) {
            keys.legacy_w.push(e.key.clone());
        } else {
            keys.mp_w.push(e.key.clone());
        }
    }
    if keys.legacy_w.len() != t.withdrawn.len() || keys.mp_w.len() != t.n_mp_unreach {
        return Ok(Err(format!(
            "pre-install of the withdrawn prefixes stored {}+{} routes, built {}+{}: {}",
            keys.legacy_w.len(),
            keys.mp_w.len(),
            t.withdrawn.len(),
            t.n_mp_unreach,
            describe_rib(&rib1)
        )));
    }
    let valid = build(t, &[]).bytes;
    if walk(&valid) != Walk::Ok {
        return Ok(Err("template does not walk".into()));
    }
    let (o2, rib2, hex2) = run_batch(pool, st, t, vec![valid]).await?;
    if o2 != Outcome::Alive {
        return Ok(Err(format!("valid template reset the session: {:?}", o2)));
    }
    let legacy_is_v4 = !t.nlri.is_empty();
    for e in rib2.iter().filter(|e| !e.pre) {
        if e.fam == Family::IPV4 && legacy_is_v4 {
            keys.legacy_a.push(e.key.clone());
        } else {
            keys.mp_a.push(e.key.clone());
        }
    }
    if keys.legacy_a.len() != t.nlri.len() || keys.mp_a.len() != t.n_mp_reach {
        return Ok(Err(format!(
            "valid template stored {}+{} routes, built {}+{}: {}",
            keys.legacy_a.len(),
            keys.mp_a.len(),
            t.nlri.len(),
            t.n_mp_reach,
            describe_rib(&rib2)
        )));
    }
    keys.legacy_w_ctl = !keys
        .legacy_w
        .iter()
        .any(|p| rib2.iter().any(|e| &e.key == p));
    keys.mp_w_ctl = !keys.mp_w.iter().any(|p| rib2.iter().any(|e| &e.key == p));
    let (o3, rib3, _) = run_batch(pool, st, t, vec![cleanup_msg(t)]).await?;
    if o3 != Outcome::Alive {
        return Ok(Err(format!(
            "the harness's own valid cleanup UPDATE reset the session: {:?}",
            o3
        )));
    }
    keys.cleanup_ok = rib3.is_empty();
    keys.valid_rib = rib2;
    keys.valid_hex = hex2;
    let _ = k;
    Ok(Ok(keys))
}

/// one corrupted variant
async fn run_case(
    pool: &mut Pool,
    st: &mut St,
    t: &Tmpl,
    keys: &Keys,
    faults: &[Fault],
    pre_a: bool,
) -> Result<Eval, HErr> {
    // a valid withdrawal did not take effect in the control phase: the cleanup message cannot be
    // relied on for this template, every case gets a session (and RIB) of its own
    let unreliable_cleanup = !keys.cleanup_ok;
    let k = cfg_key(&t.cfg);
    let mut legacy: Vec<&Vec<u8>> = t.withdrawn.iter().collect();
    let mut mp: Vec<&Vec<u8>> = t.mp_w_nlri.iter().collect();
    if pre_a {
        legacy.extend(t.nlri.iter());
        mp.extend(t.mp_a_nlri.iter());
    }
    let bytes = build(t, faults).bytes;
    let mut msgs = vec![cleanup_msg(t)];
    msgs.extend(pre_msgs(t, &legacy, &mp));
    msgs.push(bytes.clone());
    let (out, rib, hexes) = run_batch(pool, st, t, msgs).await?;
    let mut ev = judge(t, keys, faults, &bytes, pre_a, &out, &rib);
    ev.batch_hex = hexes;
    if out == Outcome::Alive {
        if ev.unexpected || unreliable_cleanup {
            // routes the cleanup message does not remove: start over with a new session
            st.rep.count(if ev.unexpected {
                "e2e:sessions:restarted-after-unexpected-route"
            } else {
                "e2e:sessions:restarted-cleanup-unreliable"
            });
            restart(pool, k).await?;
        } else {
            pool.dirty.entry(k).or_default().push(cleanup_msg(t));
        }
    }
    Ok(ev)
}

/// route-server client: `C05/e2e/ibgp-only-attr-believed/<attr>/<role>` (no fault list: the attribute
/// is believed with or without other faults); plain eBGP keeps the packet-level vocabulary
fn ibgp_only_signature(f: &Finding, t: &Tmpl, faults: &[Fault]) -> String {
    if f.clause == "ibgp-only-attr-believed" {
        format!(
            "C05/e2e/ibgp-only-attr-believed/{}/{}",
            f.code.unwrap_or(0),
            t.cfg.role.label()
        )
    } else {
        e2e_signature(&f.clause, f.code, faults)
    }
}

fn e2e_signature(clause: &str, code: Option<u8>, faults: &[Fault]) -> String {
    let s = signature(clause, code, faults);
    if clause.starts_with("panic/") {
        s
    } else {
        s.replacen("C05/", "C05/e2e/", 1)
    }
}

fn case_json(st: &St, t: &Tmpl, faults: &[Fault], pre_a: bool, ev: &Eval, expected: &str) -> Json {
    Json::obj(vec![
        ("mode", Json::s(st.mode)),
        ("session", Json::s(t.cfg.name())),
        ("is_ebgp", Json::Bool(t.cfg.is_ebgp())),
        ("two_byte_as", Json::Bool(t.cfg.two_byte)),
        ("addpath_rx", Json::Bool(t.cfg.addpath)),
        ("scenario", Json::s(t.scenario)),
        ("mp_family", Json::s(format!("{:?}", t.mp_fam))),
        (
            "announced_prefixes_held_from_earlier_update",
            Json::Bool(pre_a),
        ),
        ("valid_update_hex", Json::s(hex(&build(t, &[]).bytes))),
        (
            "faults",
            Json::strs(
                faults
                    .iter()
                    .map(|f| format!("attr {} {} {:?}", f.code, f.kind(), f.k)),
            ),
        ),
        ("update_hex", Json::s(hex(&build(t, faults).bytes))),
        (
            "batch_hex_in_order",
            Json::strs(ev.batch_hex.iter().cloned()),
        ),
        ("observed", Json::s(ev.observed.clone())),
        ("expected", Json::s(expected)),
    ])
}

async fn minimize(
    pool: &mut Pool,
    st: &mut St,
    t: &Tmpl,
    keys: &Keys,
    faults: &[Fault],
    pre_a: bool,
    clause: &str,
) -> Result<(Vec<Fault>, Option<Eval>), HErr> {
    let mut cur = faults.to_vec();
    let mut last: Option<Eval> = None;
    let mut i = 0;
    while i < cur.len() {
        let mut tr = cur.clone();
        tr.remove(i);
        let ev = run_case(pool, st, t, keys, &tr, pre_a).await?;
        if ev.findings.iter().any(|f| f.clause == clause) {
            cur = tr;
            last = Some(ev);
            i = 0;
        } else {
            i += 1;
        }
    }
    Ok((cur, last))
}

async fn template_round(
    pool: &mut Pool,
    st: &mut St,
    rng: &mut Rng,
    only: Option<&str>,
) -> Result<(), HErr> {
    let t = gen_template(rng);
    let keys = match control(pool, st, &t).await? {
        Ok(k) => k,
        Err(e) => {
            st.rep.count("harness:control-failed");
            st.rep.inconclusive(&format!(
                "control phase failed ({} {} {}): {}",
                st.mode,
                t.cfg.name(),
                t.scenario,
                e
            ));
            if st.rep.want_sample() {
                st.rep.sample(Json::obj(vec![
                    ("control_failed", Json::s(e)),
                    ("session", Json::s(t.cfg.name())),
                    ("valid_update_hex", Json::s(hex(&build(&t, &[]).bytes))),
                ]));
            }
            // do not trust the state of that session any further
            if let Some(c) = pool.conns.get_mut(&cfg_key(&t.cfg)) {
                c.close().await?;
            }
            return Ok(());
        }
    };
    st.rep.eval();
    st.rep.count(&format!("e2e:control:ok:{}", st.mode));
    if !keys.cleanup_ok {
        st.rep
            .count(&format!("e2e:control:cleanup-ineffective:{:?}", t.mp_fam));
        restart(pool, cfg_key(&t.cfg)).await?;
    }
    st.rep
        .count(&format!("e2e:control:session:{:?}", t.cfg.role));
    // the valid UPDATE is the case "no fault": iBGP-only attributes and withdrawals are judged too
    {
        let (notes, findings) = ibgp_only_observe(&t, &[], &keys.valid_rib);
        for n in notes {
            st.rep.count(&format!("e2e:{}", n));
        }
        let mut seen: BTreeSet<String> = BTreeSet::new();
        for f in findings {
            let sig = ibgp_only_signature(&f, &t, &[]);
            if !seen.insert(sig.clone()) {
                continue;
            }
            st.rep.count(&format!("e2e:finding:{}", f.clause));
            let w = Json::obj(vec![
                ("mode", Json::s(st.mode)),
                ("session", Json::s(t.cfg.name())),
                ("role", Json::s(t.cfg.role.label())),
                ("faults", Json::s("none (valid UPDATE)")),
                ("update_hex", Json::s(hex(&build(&t, &[]).bytes))),
                (
                    "batch_hex_in_order",
                    Json::strs(keys.valid_hex.iter().cloned()),
                ),
                (
                    "observed",
                    Json::s(format!("Adj-RIB-In = {}", describe_rib(&keys.valid_rib))),
                ),
                (
                    "expected",
                    Json::s(
                        "LOCAL_PREF / ORIGINATOR_ID / CLUSTER_LIST from an external peer are not stored with the path",
                    ),
                ),
            ]);
            st.rep.violation(
                &sig,
                &format!("{} [{} {}; faults: none]", f.text, st.mode, t.cfg.name()),
                w,
            );
        }
    }
    for (ok, set, what) in [
        (keys.legacy_w_ctl, &keys.legacy_w, "withdrawn route"),
        (keys.mp_w_ctl, &keys.mp_w, "MP_UNREACH route"),
    ] {
        if !set.is_empty() {
            st.rep.count("e2e:control:withdrawals-checked");
        }
        if !ok {
            // labeled-unicast: one root cause (RIB keyed by the NLRI including its labels), one signature
            let sig = if what == "withdrawn route" {
                "C05/e2e/withdrawals-survive/0/none".to_string()
            } else if matches!(t.mp_fam, Some(Fam::Lab4 | Fam::Lab6)) {
                "C05/e2e/withdrawals-survive/15/none:labeled-unicast".to_string()
            } else {
                "C05/e2e/withdrawals-survive/15/none".to_string()
            };
            let w = Json::obj(vec![
                ("mode", Json::s(st.mode)),
                ("session", Json::s(t.cfg.name())),
                ("mp_family", Json::s(format!("{:?}", t.mp_fam))),
                ("valid_update_hex", Json::s(hex(&build(&t, &[]).bytes))),
                (
                    "pre_install_hex",
                    Json::strs(
                        pre_msgs(
                            &t,
                            &t.withdrawn.iter().collect::<Vec<_>>(),
                            &t.mp_w_nlri.iter().collect::<Vec<_>>(),
                        )
                        .iter()
                        .map(|m| hex(m)),
                    ),
                ),
                ("still_in_rib", Json::strs(set.iter().cloned())),
            ]);
            st.rep.violation(&sig, &format!("a valid UPDATE (no fault at all) withdraws a {} that an earlier UPDATE of the same session installed, and the route is still in the Adj-RIB-In [{} {}]", what, st.mode, t.cfg.name()), w);
        }
    }
    for _ in 0..3 {
        if !st.rep.in_budget() {
            break;
        }
        let faults = choose_faults(&t, rng, only);
        let pre_a = rng.bool();
        let ev = run_case(pool, st, &t, &keys, &faults, pre_a).await?;
        let rep = &mut st.rep;
        rep.eval();
        rep.count(&format!("e2e:cases:{}", st.mode));
        rep.count(&format!("e2e:scenario:{}", t.scenario));
        rep.count(&format!("e2e:session:{:?}", t.cfg.role));
        rep.count(if t.cfg.two_byte {
            "e2e:session:as2"
        } else {
            "e2e:session:as4"
        });
        if t.cfg.addpath {
            rep.count("e2e:session:addpath");
        }
        if let Some(f) = t.mp_fam {
            rep.count(&format!("e2e:family:{:?}", f));
        }
        if pre_a {
            rep.count("e2e:announced-prefixes-held-before");
        }
        rep.count(&format!("e2e:faults:{}", faults.len().min(4)));
        let rec = classify(&t, &faults);
        for f in faults.iter() {
            rep.count(&format!("e2e:fault:{}", f.kind()));
        }
        for nte in &ev.notes {
            rep.count(&format!("e2e:{}", nte));
            if nte.starts_with("harness:") {
                rep.inconclusive(&format!("harness self-check failed: {}", nte));
            }
        }
        let nontrivial = announces(&t)
            && rec.classes.iter().zip(faults.iter()).any(|(c, f)| {
                *c != Class::Benign || !matches!(f.k, FK::LowBits(_) | FK::ExtLen | FK::Partial)
            });
        if nontrivial {
            let mut kb = build(&t, &faults).bytes;
            kb.push(t.cfg.role as u8);
            kb.push(t.cfg.two_byte as u8);
            kb.push(t.cfg.addpath as u8);
            kb.push(pre_a as u8);
            kb.extend_from_slice(st.mode.as_bytes());
            rep.nontrivial(fnv64(&kb));
            rep.count("e2e:nontrivial");
        }
        let mut seen: BTreeSet<String> = BTreeSet::new();
        for f in ev.findings.clone() {
            if f.clause == "ibgp-only-attr-believed" {
                let sig = ibgp_only_signature(&f, &t, &faults);
                if !seen.insert(sig.clone()) {
                    continue;
                }
                st.rep.count(&format!("e2e:finding:{}", f.clause));
                if st.rep.has_violation(&sig) {
                    st.rep.violation(&sig, "", Json::Null);
                    continue;
                }
                let what = format!(
                    "{} [{} {}; faults: {}]",
                    f.text,
                    st.mode,
                    t.cfg.name(),
                    if faults.is_empty() {
                        "none".to_string()
                    } else {
                        faults
                            .iter()
                            .map(|f| format!("attr {} {}", f.code, f.kind()))
                            .collect::<Vec<_>>()
                            .join(", ")
                    }
                );
                let wj = case_json(st, &t, &faults, pre_a, &ev, &f.text);
                st.rep.violation(&sig, &what, wj);
                continue;
            }
            if !seen.insert(f.clause.clone()) {
                continue;
            }
            st.rep.count(&format!("e2e:finding:{}", f.clause));
            let raw = match (ev.walk_bad, f.clause.as_str()) {
                (Some(k), "never-installs") => format!("C05/e2e/never-installs/0/{}", k),
                _ => e2e_signature(&f.clause, f.code, &faults),
            };
            if let Some(s) = st.sig_cache.get(&raw).cloned() {
                st.rep.violation(&s, "", Json::Null);
                continue;
            }
            // delta-minimise the fault list (bounded: re-running cases costs sessions)
            let (min, evm) = if st.minimised < 200 && !faults.is_empty() {
                st.minimised += 1;
                minimize(pool, st, &t, &keys, &faults, pre_a, &f.clause).await?
            } else {
                (faults.clone(), None)
            };
            let evm_ref = evm.as_ref().unwrap_or(&ev);
            let fm = evm_ref
                .findings
                .iter()
                .find(|g| g.clause == f.clause)
                .cloned()
                .unwrap_or(f.clone());
            let sig = match (evm_ref.walk_bad, f.clause.as_str()) {
                (Some(k), "never-installs") => format!("C05/e2e/never-installs/0/{}", k),
                _ => e2e_signature(&f.clause, fm.code, &min),
            };
            st.sig_cache.insert(raw, sig.clone());
            let what = format!(
                "{} [{} {}; faults: {}]",
                fm.text,
                st.mode,
                t.cfg.name(),
                if min.is_empty() {
                    "none".to_string()
                } else {
                    min.iter()
                        .map(|f| format!("attr {} {}", f.code, f.kind()))
                        .collect::<Vec<_>>()
                        .join(", ")
                }
            );
            let wj = case_json(st, &t, &min, pre_a, evm_ref, &fm.text);
            st.rep.violation(&sig, &what, wj);
        }
        if st.rep.want_sample() && nontrivial && st.rep.evaluations % 97 == 5 {
            let j = case_json(st, &t, &faults, pre_a, &ev, "no clause violated");
            st.rep.sample(j);
        }
    }
    Ok(())
}

/// An UPDATE (valid or corrupted) that arrives after OPEN but before the KEEPALIVE that
/// establishes the session must not install anything (RFC 4271: FSM error).  The UPDATE is
/// followed by KEEPALIVE + sentinel, so a daemon that swallowed it is seen by state, too.
async fn early_update(st: &mut St, rng: &mut Rng) -> Result<(), HErr> {
    let t = gen_template(rng);
    if !announces(&t) {
        return Ok(());
    }
    let faults = if rng.bool() {
        Vec::new()
    } else {
        choose_faults(&t, rng, None)
    };
    let bytes = build(&t, &faults).bytes;
    if walk(&bytes) == Walk::FramingBad {
        return Ok(());
    }
    let mut conn = if st.mode == "socket" {
        Conn::Sock(Box::new(SockConn::new(t.cfg).await?))
    } else {
        Conn::Direct(Box::new(DirectConn::new(t.cfg)))
    };
    st.in_flight = vec![format!("(after OPEN, before KEEPALIVE) {}", hex(&bytes))];
    st.in_flight_session = t.cfg.name();
    let out = conn.establish_with(Some(&bytes)).await?;
    let rib = conn.rib();
    st.in_flight.clear();
    st.rep.eval();
    st.rep
        .count(&format!("e2e:early-update:checked:{}", st.mode));
    st.rep.count(if out == Outcome::Alive {
        "e2e:early-update:session-survived"
    } else {
        "e2e:early-update:session-reset"
    });
    if !rib.is_empty() {
        let w = Json::obj(vec![
            ("mode", Json::s(st.mode)),
            ("session", Json::s(t.cfg.name())),
            (
                "sequence",
                Json::s("OPEN, this UPDATE, KEEPALIVE, sentinel UPDATE"),
            ),
            ("update_hex", Json::s(hex(&bytes))),
            (
                "faults",
                Json::strs(
                    faults
                        .iter()
                        .map(|f| format!("attr {} {} {:?}", f.code, f.kind(), f.k)),
                ),
            ),
            (
                "observed",
                Json::s(format!("{:?}; Adj-RIB-In = {}", out, describe_rib(&rib))),
            ),
        ]);
        st.rep.violation(
            "C05/e2e/never-installs/0/update-before-established",
            &format!("an UPDATE received before the session was established left a route in the RIB [{} {}]", st.mode, t.cfg.name()),
            w,
        );
    }
    conn.close().await
}

/// runs templates until the count / budget is used up; returns early on a harness error
async fn epoch(st: &mut St, rng: &mut Rng, only: Option<&str>, stop_at: f64) {
    let mut pool = Pool {
        conns: BTreeMap::new(),
        dirty: BTreeMap::new(),
    };
    while st.templates_left > 0 && st.rep.elapsed() < stop_at {
        st.templates_left -= 1;
        let r = if st.templates_left % 16 == 3 && only.is_none() {
            early_update(st, rng).await
        } else {
            template_round(&mut pool, st, rng, only).await
        };
        match r {
            Ok(()) => {}
            Err(HErr::Watchdog(w)) => {
                st.rep.count("harness:watchdog");
                st.rep
                    .inconclusive(&format!("watchdog ({}): {}", st.mode, w));
                break;
            }
            Err(HErr::Setup(w)) => {
                st.rep.count("harness:setup");
                st.rep
                    .inconclusive(&format!("session setup failed ({}): {}", st.mode, w));
                break;
            }
        }
    }
    // end every session in an orderly way (a panic while closing is still a panic of the daemon)
    for (_, c) in pool.conns.iter_mut() {
        if let Err(HErr::Watchdog(w)) = c.close().await {
            st.rep
                .inconclusive(&format!("watchdog at shutdown ({}): {}", st.mode, w));
        }
    }
}

fn run_mode(st: &mut St, rng: &mut Rng, only: Option<&str>, stop_at: f64) {
    let mut panics = 0;
    while st.templates_left > 0 && st.rep.elapsed() < stop_at && panics < 20 {
        let rt = match tokio::runtime::Builder::new_current_thread()
            .enable_all()
            .build()
        {
            Ok(rt) => rt,
            Err(e) => {
                st.rep.inconclusive(&format!("no tokio runtime: {}", e));
                return;
            }
        };
        let r = guard(|| rt.block_on(epoch(st, rng, only, stop_at)));
        drop(rt);
        match r {
            Ok(()) => {
                if !st.rep.inconclusive.is_empty()
                    && st
                        .rep
                        .counters
                        .get("harness:watchdog")
                        .copied()
                        .unwrap_or(0)
                        + st.rep.counters.get("harness:setup").copied().unwrap_or(0)
                        >= 3
                {
                    return;
                }
            }
            Err(p) => {
                panics += 1;
                let sig = format!("C05/panic/{}:{}", p.location, panic_class(&p.message));
                let w = Json::obj(vec![
                    ("mode", Json::s(st.mode)),
                    ("session", Json::s(st.in_flight_session.clone())),
                    (
                        "batch_hex_in_order",
                        Json::strs(st.in_flight.iter().cloned()),
                    ),
                    ("panic", Json::s(format!("{}: {}", p.location, p.message))),
                ]);
                st.rep.violation(
                    &sig,
                    &format!(
                        "the daemon's receive path panicked at {}: {} [{} {}]",
                        p.location, p.message, st.mode, st.in_flight_session
                    ),
                    w,
                );
                st.rep.count("e2e:finding:panic");
            }
        }
    }
}

#[test]
fn run() {
    let params = Params::from_args_env();
    let rule = "e2e case = (drive mode [socket: accept_connection + PeerSession::run over loopback TCP / direct: try_parse -> validate_message -> is_as_loop -> rx_msg on a new_for_test session], session kind, valid UPDATE template, recorded RFC 7606 fault list, announced prefixes held before or not) -> RIB read back with collect_paths(AdjIn) at quiescence; non-trivial = at least one fault that is not a mere reserved-bit / consistent-extended-length variation and at least one announced prefix; distinct by hash of (mode, session kind, held-before, corrupted bytes)";
    let rep = Report::new("C05", &params);
    let mode = params.get("mode").unwrap_or("both").to_string();
    let only = params.get("only").map(|s| s.to_string());
    let mut st = St {
        rep,
        mode: "socket",
        tag: 0,
        sig_cache: BTreeMap::new(),
        minimised: 0,
        in_flight: Vec::new(),
        in_flight_session: String::new(),
        templates_left: 0,
    };
    st.rep.extra("rule_e2e", Json::s(rule));
    st.rep.max_samples = 4;
    let budget = params.budget_s;
    if let Some(h) = params.get("hex") {
        // replay helper: VERIF_HEX=<update>[,<update>...] VERIF_ROLE=ebgp|ibgp|confed [VERIF_AS2=1] [VERIF_ADDPATH=1] VERIF_MODE=socket|direct
        let cfg = Cfg {
            role: match params.get("role") {
                Some("ebgp") => Role::Ebgp,
                Some("confed") => Role::Confed,
                Some("rs-client") => Role::RsClient,
                Some("rr-client") => Role::RrClient,
                _ => Role::Ibgp,
            },
            two_byte: params.flag("as2"),
            addpath: params.flag("addpath"),
        };
        st.mode = if mode == "direct" { "direct" } else { "socket" };
        let msgs: Vec<Vec<u8>> = h.split(',').map(unhex).collect();
        let r = guard(|| {
            let rt = tokio::runtime::Builder::new_current_thread()
                .enable_all()
                .build()
                .unwrap();
            rt.block_on(async {
                let mut conn = if st.mode == "socket" {
                    Conn::Sock(Box::new(SockConn::new(cfg).await.unwrap()))
                } else {
                    Conn::Direct(Box::new(DirectConn::new(cfg)))
                };
                conn.establish().await.unwrap();
                for (i, m) in msgs.iter().enumerate() {
                    let mut b = m.clone();
                    b.extend_from_slice(&sentinel_msg(&cfg, 100 + i as u32));
                    let out = conn.exchange(&b, 100 + i as u32).await;
                    println!(
                        "{} {} after message {} [walk {:?}]: {:?}; Adj-RIB-In = {}",
                        st.mode,
                        cfg.name(),
                        i + 1,
                        walk(m),
                        out,
                        describe_rib(&conn.rib())
                    );
                    if !matches!(out, Ok(Outcome::Alive)) {
                        break;
                    }
                }
                let _ = conn.close().await;
            })
        });
        if let Err(p) = r {
            println!("panic at {}: {}", p.location, p.message);
        }
        return;
    }
    if mode == "socket" || mode == "both" {
        let mut rng = Rng::new(params.seed ^ 0xC05_E2E);
        st.mode = "socket";
        st.templates_left = params.get_u64("templates", params.n(1500, 6000));
        st.minimised = 0;
        let stop = if mode == "both" {
            budget * 0.5
        } else {
            budget * 0.92
        };
        run_mode(&mut st, &mut rng, only.as_deref(), stop);
    }
    if mode == "direct" || mode == "both" {
        let mut rng = Rng::new(params.seed ^ 0xC05_D1E);
        st.mode = "direct";
        st.templates_left = params.get_u64("templates", params.n(4000, 20000));
        st.minimised = 0;
        run_mode(&mut st, &mut rng, only.as_deref(), budget * 0.92);
    }
    if st.rep.evaluations < 200 && params.scale >= 1.0 {
        st.rep.inconclusive("fewer than 200 e2e evaluations");
    }
    let _ = st.rep.finish();
}
