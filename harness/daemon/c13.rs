//! C13 — the installed VRPs always equal what the RPKI cache has announced so
//! far.
//!
//! Workload: the daemon's own `RpkiClient::serve_inner` runs on one end of a
//! `tokio::io::duplex` pipe (current-thread runtime); the other end is a
//! conforming RTR cache model written from RFC 6810 / RFC 8210.  All PDUs the
//! cache sends are built byte by byte here (the repo's encoder is not used) and
//! the client's queries are parsed by a parser of our own.  Bytes are written
//! in random fragments, sessions are dropped at random points (also mid-PDU),
//! cancelled, re-established, and optionally two caches talk to two
//! `serve_inner` tasks that share one `TableManager`.  A second, small workload
//! (`part=cancel`) drives the real `RpkiClient::try_connect` over a loopback
//! TCP socket and ends the session the way DisableRpki/DeleteRpki do.
//!
//! Observation: `TableManager::collect_roa(IPV4|IPV6)` filtered by
//! `roa.source`, taken when the client task is parked on read with every byte
//! we wrote consumed (state-based quiescence; the watchdog only ever yields
//! `inconclusive`).
//!
//! Oracle: installed-for-this-cache == fold of the PDUs the cache model sent
//! (full set after a reset response, previous set ± deltas after each serial
//! response), the other cache's VRPs untouched, nothing left after the session
//! has ended, and the client has consumed every complete PDU it was given.
use super::super::*;
use super::common::*;
use crate::table_manager::TableManager;
use futures::FutureExt;
use rustybgp_packet::Family;
use std::cell::RefCell;
use std::collections::{BTreeMap, BTreeSet, VecDeque};
use std::pin::Pin;
use std::task::{Context, Poll};
use std::time::{Duration, Instant};
use tokio::io::{AsyncRead, AsyncReadExt, AsyncWrite, AsyncWriteExt, DuplexStream, ReadBuf};

// ------------------------------------------------------------------ VRPs

/// Semantic identity of a VRP: (prefix, max-length, AS).
#[derive(Clone, Copy, PartialEq, Eq, PartialOrd, Ord, Hash, Debug)]
struct Vrp {
    v6: bool,
    addr: [u8; 16],
    plen: u8,
    maxlen: u8,
    asn: u32,
}

impl Vrp {
    fn v4(a: [u8; 4], plen: u8, maxlen: u8, asn: u32) -> Vrp {
        let mut addr = [0u8; 16];
        addr[..4].copy_from_slice(&a);
        Vrp {
            v6: false,
            addr,
            plen,
            maxlen,
            asn,
        }
    }
    fn v6(addr: [u8; 16], plen: u8, maxlen: u8, asn: u32) -> Vrp {
        Vrp {
            v6: true,
            addr,
            plen,
            maxlen,
            asn,
        }
    }
    fn render(&self) -> String {
        if self.v6 {
            format!(
                "{}/{}-{} AS{}",
                std::net::Ipv6Addr::from(self.addr),
                self.plen,
                self.maxlen,
                self.asn
            )
        } else {
            format!(
                "{}.{}.{}.{}/{}-{} AS{}",
                self.addr[0],
                self.addr[1],
                self.addr[2],
                self.addr[3],
                self.plen,
                self.maxlen,
                self.asn
            )
        }
    }
    fn bytes(&self) -> Vec<u8> {
        let mut v = vec![self.v6 as u8];
        v.extend_from_slice(&self.addr);
        v.push(self.plen);
        v.push(self.maxlen);
        v.extend_from_slice(&self.asn.to_be_bytes());
        v
    }
}

fn clean(mut addr: [u8; 16], plen: u8) -> [u8; 16] {
    for (i, b) in addr.iter_mut().enumerate() {
        let bits = (plen as usize).saturating_sub(i * 8).min(8);
        *b &= !(0xffu16 >> bits) as u8;
    }
    addr
}

/// The pool of VRPs the caches draw from.  Both caches share it so that the
/// same (prefix, max-length, AS) is regularly held by both at once.
fn vrp_pool(rng: &mut Rng, n: usize) -> Vec<Vrp> {
    let mut fixed = vec![
        Vrp::v4([0, 0, 0, 0], 0, 0, 0),
        Vrp::v4([0, 0, 0, 0], 0, 32, 64512),
        Vrp::v4([10, 0, 0, 0], 8, 8, 65001),
        Vrp::v4([10, 0, 0, 0], 8, 24, 65001),
        Vrp::v4([10, 0, 0, 0], 8, 24, 65002),
        Vrp::v4([10, 1, 0, 0], 16, 24, 65001),
        Vrp::v4([192, 0, 2, 1], 32, 32, 4294967295),
        Vrp::v4([198, 51, 100, 0], 25, 25, 0),
        Vrp::v6([0; 16], 0, 0, 65001),
        Vrp::v6(
            clean([0x20, 1, 0xd, 0xb8, 0, 0, 0, 0, 0, 0, 0, 0, 0, 0, 0, 0], 32),
            32,
            48,
            65001,
        ),
        Vrp::v6(
            clean([0x20, 1, 0xd, 0xb8, 0, 0, 0, 0, 0, 0, 0, 0, 0, 0, 0, 0], 32),
            32,
            128,
            65002,
        ),
        Vrp::v6(
            [0x20, 1, 0xd, 0xb8, 0, 0, 0, 0, 0, 0, 0, 0, 0, 0, 0, 1],
            128,
            128,
            4200000000,
        ),
    ];
    rng.shuffle(&mut fixed);
    let mut out: Vec<Vrp> = fixed.into_iter().take(n.min(6)).collect();
    while out.len() < n {
        let v = if rng.chance(3, 5) {
            let plen = *rng.pick(&[8u8, 12, 16, 20, 23, 24, 25, 31, 32]);
            let mut a = [0u8; 16];
            a[0] = *rng.pick(&[10u8, 100, 172, 192, 203]);
            a[1] = rng.below(4) as u8;
            a[2] = rng.below(3) as u8 * 64;
            a[3] = rng.below(256) as u8;
            let a = clean(a, plen);
            let maxlen = rng.range(plen as u64, 32) as u8;
            Vrp {
                v6: false,
                addr: a,
                plen,
                maxlen,
                asn: 65000 + rng.below(4) as u32,
            }
        } else {
            let plen = *rng.pick(&[16u8, 29, 32, 40, 48, 56, 64, 127, 128]);
            let mut a = [0u8; 16];
            a[0] = 0x20;
            a[1] = 0x01;
            a[2] = 0x0d;
            a[3] = 0xb8;
            a[4] = rng.below(3) as u8;
            a[5] = rng.below(256) as u8;
            a[7] = rng.below(2) as u8;
            a[15] = rng.below(4) as u8;
            let a = clean(a, plen);
            let maxlen = rng.range(plen as u64, 128) as u8;
            Vrp {
                v6: true,
                addr: a,
                plen,
                maxlen,
                asn: 65000 + rng.below(4) as u32,
            }
        };
        if !out.contains(&v) {
            out.push(v);
        }
    }
    out
}

fn render_set(s: &BTreeSet<Vrp>) -> Json {
    Json::strs(s.iter().map(|v| v.render()))
}

fn installed(tables: &TableHandle, addr: &IpAddr) -> (BTreeSet<Vrp>, usize) {
    let mut set = BTreeSet::new();
    let mut dups = 0;
    for fam in [Family::IPV4, Family::IPV6] {
        for (net, roa) in tables.collect_roa(fam) {
            if *roa.source != *addr {
                continue;
            }
            let v = match net {
                packet::IpNet::V4(n) => {
                    Vrp::v4(n.addr.octets(), n.mask, roa.max_length, roa.as_number)
                }
                packet::IpNet::V6(n) => {
                    Vrp::v6(n.addr.octets(), n.mask, roa.max_length, roa.as_number)
                }
            };
            if !set.insert(v) {
                dups += 1;
            }
        }
    }
    (set, dups)
}

fn total_entries(tables: &TableHandle) -> usize {
    tables.collect_roa(Family::IPV4).len() + tables.collect_roa(Family::IPV6).len()
}

// ------------------------------------------------------------------ raw PDUs (RFC 6810 §5, RFC 8210 §5)

const T_SERIAL_NOTIFY: u8 = 0;
const T_SERIAL_QUERY: u8 = 1;
const T_RESET_QUERY: u8 = 2;
const T_CACHE_RESPONSE: u8 = 3;
const T_IPV4: u8 = 4;
const T_IPV6: u8 = 6;
const T_END_OF_DATA: u8 = 7;
const T_CACHE_RESET: u8 = 8;
const T_ROUTER_KEY: u8 = 9;
const T_ERROR_REPORT: u8 = 10;

#[derive(Clone)]
struct Pdu {
    kind: &'static str,
    /// whether `RpkiState::update` has a counter for this PDU type
    counted: bool,
    bytes: Vec<u8>,
    desc: String,
}

fn hdr(ver: u8, typ: u8, mid: u16, len: u32) -> Vec<u8> {
    let mut b = Vec::with_capacity(len as usize);
    b.push(ver);
    b.push(typ);
    b.extend_from_slice(&mid.to_be_bytes());
    b.extend_from_slice(&len.to_be_bytes());
    b
}

fn pdu_serial_notify(ver: u8, session: u16, serial: u32) -> Pdu {
    let mut b = hdr(ver, T_SERIAL_NOTIFY, session, 12);
    b.extend_from_slice(&serial.to_be_bytes());
    Pdu {
        kind: "serial-notify",
        counted: true,
        desc: format!("serial-notify v{} sid={} serial={}", ver, session, serial),
        bytes: b,
    }
}

fn pdu_cache_response(ver: u8, session: u16) -> Pdu {
    Pdu {
        kind: "cache-response",
        counted: true,
        desc: format!("cache-response v{} sid={}", ver, session),
        bytes: hdr(ver, T_CACHE_RESPONSE, session, 8),
    }
}

fn pdu_prefix(ver: u8, announce: bool, v: &Vrp) -> Pdu {
    let flags = announce as u8;
    let (kind, bytes) = if v.v6 {
        let mut b = hdr(ver, T_IPV6, 0, 32);
        b.extend_from_slice(&[flags, v.plen, v.maxlen, 0]);
        b.extend_from_slice(&v.addr);
        b.extend_from_slice(&v.asn.to_be_bytes());
        ("ipv6-prefix", b)
    } else {
        let mut b = hdr(ver, T_IPV4, 0, 20);
        b.extend_from_slice(&[flags, v.plen, v.maxlen, 0]);
        b.extend_from_slice(&v.addr[..4]);
        b.extend_from_slice(&v.asn.to_be_bytes());
        ("ipv4-prefix", b)
    };
    Pdu {
        kind,
        counted: true,
        desc: format!(
            "{} v{} {} {}",
            kind,
            ver,
            if announce { "announce" } else { "withdraw" },
            v.render()
        ),
        bytes,
    }
}

fn pdu_end_of_data(ver: u8, session: u16, serial: u32, intervals: (u32, u32, u32)) -> Pdu {
    if ver == 0 {
        let mut b = hdr(0, T_END_OF_DATA, session, 12);
        b.extend_from_slice(&serial.to_be_bytes());
        Pdu {
            kind: "end-of-data-v0",
            counted: true,
            desc: format!("end-of-data v0 sid={} serial={}", session, serial),
            bytes: b,
        }
    } else {
        let mut b = hdr(ver, T_END_OF_DATA, session, 24);
        b.extend_from_slice(&serial.to_be_bytes());
        b.extend_from_slice(&intervals.0.to_be_bytes());
        b.extend_from_slice(&intervals.1.to_be_bytes());
        b.extend_from_slice(&intervals.2.to_be_bytes());
        Pdu {
            kind: "end-of-data-v1",
            counted: true,
            desc: format!(
                "end-of-data v{} sid={} serial={} refresh={} retry={} expire={}",
                ver, session, serial, intervals.0, intervals.1, intervals.2
            ),
            bytes: b,
        }
    }
}

fn pdu_cache_reset(ver: u8) -> Pdu {
    Pdu {
        kind: "cache-reset",
        counted: true,
        desc: format!("cache-reset v{}", ver),
        bytes: hdr(ver, T_CACHE_RESET, 0, 8),
    }
}

#[derive(Clone, PartialEq, Eq, Debug)]
struct RKey {
    ski: [u8; 20],
    asn: u32,
    spki: Vec<u8>,
}

fn pdu_router_key(announce: bool, k: &RKey) -> Pdu {
    // RFC 8210 §5.10: version(1) type(9) flags zero length | SKI(20) | ASN | SPKI
    let len = 8 + 20 + 4 + k.spki.len();
    let mut b = Vec::with_capacity(len);
    b.push(1);
    b.push(T_ROUTER_KEY);
    b.push(announce as u8);
    b.push(0);
    b.extend_from_slice(&(len as u32).to_be_bytes());
    b.extend_from_slice(&k.ski);
    b.extend_from_slice(&k.asn.to_be_bytes());
    b.extend_from_slice(&k.spki);
    Pdu {
        kind: "router-key",
        counted: false,
        desc: format!(
            "router-key v1 {} AS{} spki={}B",
            if announce { "announce" } else { "withdraw" },
            k.asn,
            k.spki.len()
        ),
        bytes: b,
    }
}

fn pdu_error_report(ver: u8, code: u16, encapsulated: &[u8], text: &str) -> Pdu {
    // RFC 8210 §5.11: hdr(error code) | len(encapsulated) | PDU | len(text) | text
    let len = 8 + 4 + encapsulated.len() + 4 + text.len();
    let mut b = hdr(ver, T_ERROR_REPORT, code, len as u32);
    b.extend_from_slice(&(encapsulated.len() as u32).to_be_bytes());
    b.extend_from_slice(encapsulated);
    b.extend_from_slice(&(text.len() as u32).to_be_bytes());
    b.extend_from_slice(text.as_bytes());
    Pdu {
        kind: "error-report",
        counted: true,
        desc: format!(
            "error-report v{} code={} encap={}B text={:?}",
            ver,
            code,
            encapsulated.len(),
            text
        ),
        bytes: b,
    }
}

/// A PDU sent by the client, parsed independently of the repo's codec.
#[derive(Clone, Debug)]
struct ClientPdu {
    typ: u8,
    session: u16,
    serial: u32,
    raw: Vec<u8>,
}

fn parse_client(buf: &mut Vec<u8>) -> Result<Option<ClientPdu>, String> {
    if buf.len() < 8 {
        return Ok(None);
    }
    let typ = buf[1];
    let session = u16::from_be_bytes([buf[2], buf[3]]);
    let len = u32::from_be_bytes([buf[4], buf[5], buf[6], buf[7]]) as usize;
    if len < 8 || len > 65536 {
        return Err(format!("client PDU with length {}", len));
    }
    if buf.len() < len {
        return Ok(None);
    }
    let raw: Vec<u8> = buf.drain(..len).collect();
    let serial = if typ == T_SERIAL_QUERY && len == 12 {
        u32::from_be_bytes([raw[8], raw[9], raw[10], raw[11]])
    } else {
        0
    };
    Ok(Some(ClientPdu {
        typ,
        session,
        serial,
        raw,
    }))
}

// ------------------------------------------------------------------ conforming cache model

struct Cache {
    ver: u8,
    session_id: u16,
    serial: u32,
    set: BTreeSet<Vrp>,
    keys: Vec<RKey>,
    /// data as of every serial handed out in an End-of-Data under this session id
    hist: BTreeMap<u32, (BTreeSet<Vrp>, Vec<RKey>)>,
    pool: Vec<Vrp>,
    keypool: Vec<RKey>,
    use_keys: bool,
    churn: bool,
}

fn pick_serial(rng: &mut Rng) -> u32 {
    match rng.below(6) {
        0 => 0,
        1 => u32::MAX - rng.below(3) as u32,
        2 => 0x7fff_fffe + rng.below(4) as u32,
        _ => rng.next_u32(),
    }
}

fn pick_session(rng: &mut Rng) -> u16 {
    match rng.below(5) {
        0 => 0,
        1 => u16::MAX,
        _ => rng.next_u32() as u16,
    }
}

impl Cache {
    fn new(
        rng: &mut Rng,
        pool: Vec<Vrp>,
        ver: u8,
        use_keys: bool,
        churn: bool,
        init: usize,
    ) -> Cache {
        let keypool = (0..4)
            .map(|i| {
                let mut ski = [0u8; 20];
                for b in ski.iter_mut() {
                    *b = rng.next_u32() as u8;
                }
                // a DER SubjectPublicKeyInfo for ECDSA P-256 is 91 bytes
                let n = *rng.pick(&[91usize, 91, 120]);
                RKey {
                    ski,
                    asn: 65000 + i,
                    spki: rng.bytes(n),
                }
            })
            .collect();
        let mut c = Cache {
            ver,
            session_id: pick_session(rng),
            serial: pick_serial(rng),
            set: BTreeSet::new(),
            keys: Vec::new(),
            hist: BTreeMap::new(),
            pool,
            keypool,
            use_keys: use_keys && ver >= 1,
            churn,
        };
        let n = init.min(c.pool.len());
        let mut idx: Vec<usize> = (0..c.pool.len()).collect();
        rng.shuffle(&mut idx);
        for i in idx.into_iter().take(n) {
            c.set.insert(c.pool[i]);
        }
        if c.use_keys && rng.bool() {
            c.keys.push(c.keypool[0].clone());
        }
        c
    }

    /// The cache's own data changes (validated ROAs came and went).
    fn mutate(&mut self, rng: &mut Rng, toggles: usize) {
        for _ in 0..toggles {
            let v = *rng.pick(&self.pool);
            if !self.set.remove(&v) {
                self.set.insert(v);
            }
        }
        if self.use_keys && rng.chance(1, 3) {
            let k = rng.pick(&self.keypool).clone();
            if let Some(i) = self.keys.iter().position(|x| *x == k) {
                self.keys.remove(i);
            } else {
                self.keys.push(k);
            }
        }
        if toggles > 0 {
            self.serial = self.serial.wrapping_add(1);
        }
    }

    /// New session id: the cache restarted and lost its delta history.
    fn restart(&mut self, rng: &mut Rng) {
        let old = self.session_id;
        while self.session_id == old {
            self.session_id = pick_session(rng);
        }
        self.serial = pick_serial(rng);
        self.hist.clear();
    }

    fn intervals(&self, rng: &mut Rng) -> (u32, u32, u32) {
        // RFC 8210 §6 ranges
        (
            rng.range(1, 86400) as u32,
            rng.range(1, 7200) as u32,
            rng.range(600, 172800) as u32,
        )
    }

    fn insert_keys(&self, rng: &mut Rng, body: &mut Vec<Pdu>, keys: Vec<(bool, RKey)>) {
        for (ann, k) in keys {
            let at = rng.usize(body.len() + 1);
            body.insert(at, pdu_router_key(ann, &k));
        }
    }

    /// Answer to a Reset Query: Cache Response, everything we have, End of Data.
    fn full_response(&mut self, rng: &mut Rng) -> Vec<Pdu> {
        let mut body: Vec<Pdu> = self
            .set
            .iter()
            .map(|v| pdu_prefix(self.ver, true, v))
            .collect();
        rng.shuffle(&mut body);
        if self.use_keys {
            let keys = self.keys.iter().map(|k| (true, k.clone())).collect();
            self.insert_keys(rng, &mut body, keys);
        }
        let mut out = vec![pdu_cache_response(self.ver, self.session_id)];
        out.extend(body);
        let iv = self.intervals(rng);
        out.push(pdu_end_of_data(self.ver, self.session_id, self.serial, iv));
        self.hist
            .insert(self.serial, (self.set.clone(), self.keys.clone()));
        out
    }

    /// Answer to a Serial Query for `from`: None when no incremental update is
    /// available from there (the conforming answer is then Cache Reset).
    fn delta_response(&mut self, rng: &mut Rng, session: u16, from: u32) -> Option<Vec<Pdu>> {
        if session != self.session_id {
            return None;
        }
        let (old, oldkeys) = self.hist.get(&from)?.clone();
        let mut body: Vec<Pdu> = Vec::new();
        for v in old.difference(&self.set) {
            body.push(pdu_prefix(self.ver, false, v));
        }
        for v in self.set.difference(&old) {
            body.push(pdu_prefix(self.ver, true, v));
        }
        rng.shuffle(&mut body);
        if self.churn && rng.chance(1, 4) {
            // intermediate serials folded into one response: a record that
            // appeared and went again, or went and came back.  At every point
            // of the stream the router holds each record at most once.
            for _ in 0..rng.range(1, 2) {
                let v = *rng.pick(&self.pool);
                let in_old = old.contains(&v);
                let in_new = self.set.contains(&v);
                if in_old != in_new || body.iter().any(|p| p.desc.ends_with(&v.render())) {
                    continue;
                }
                let i = rng.usize(body.len() + 1);
                let j = rng.range(i as u64 + 1, body.len() as u64 + 1) as usize;
                // present in both: withdraw … announce; absent in both: announce … withdraw
                body.insert(i, pdu_prefix(self.ver, !in_old, &v));
                body.insert(j, pdu_prefix(self.ver, in_old, &v));
            }
        }
        if self.use_keys {
            let mut keys = Vec::new();
            for k in &oldkeys {
                if !self.keys.contains(k) {
                    keys.push((false, k.clone()));
                }
            }
            for k in &self.keys {
                if !oldkeys.contains(k) {
                    keys.push((true, k.clone()));
                }
            }
            self.insert_keys(rng, &mut body, keys);
        }
        let mut out = vec![pdu_cache_response(self.ver, self.session_id)];
        out.extend(body);
        let iv = self.intervals(rng);
        out.push(pdu_end_of_data(self.ver, self.session_id, self.serial, iv));
        self.hist
            .insert(self.serial, (self.set.clone(), self.keys.clone()));
        Some(out)
    }
}

/// Fold of a response, written from the PDU semantics only: announce adds the
/// record, withdraw removes it.  Err when the stream is not conforming
/// (duplicate announce / withdraw of an unknown record) — a harness error.
fn fold(base: &BTreeSet<Vrp>, pdus: &[Pdu]) -> Result<BTreeSet<Vrp>, String> {
    let mut s = base.clone();
    for p in pdus {
        let b = &p.bytes;
        let v = match b[1] {
            T_IPV4 => {
                let mut a = [0u8; 4];
                a.copy_from_slice(&b[12..16]);
                Vrp::v4(
                    a,
                    b[9],
                    b[10],
                    u32::from_be_bytes([b[16], b[17], b[18], b[19]]),
                )
            }
            T_IPV6 => {
                let mut a = [0u8; 16];
                a.copy_from_slice(&b[12..28]);
                Vrp::v6(
                    a,
                    b[9],
                    b[10],
                    u32::from_be_bytes([b[28], b[29], b[30], b[31]]),
                )
            }
            _ => continue,
        };
        if b[8] & 1 == 1 {
            if !s.insert(v) {
                return Err(format!("duplicate announce of {}", v.render()));
            }
        } else if !s.remove(&v) {
            return Err(format!("withdraw of unknown {}", v.render()));
        }
    }
    Ok(s)
}

// ------------------------------------------------------------------ instrumented pipe end

#[derive(Default)]
struct Probe {
    /// bytes the client has taken out of the pipe
    read_total: AtomicU64,
    /// the client's last poll_read returned Pending (it is waiting for input)
    parked: AtomicBool,
    eof: AtomicBool,
}

/// The client's end of the duplex pipe; delegates to the `DuplexStream` and
/// records what the client did with it.
struct ProbeIo {
    inner: DuplexStream,
    probe: Arc<Probe>,
}

impl AsyncRead for ProbeIo {
    fn poll_read(
        mut self: Pin<&mut Self>,
        cx: &mut Context<'_>,
        buf: &mut ReadBuf<'_>,
    ) -> Poll<std::io::Result<()>> {
        let before = buf.filled().len();
        let r = Pin::new(&mut self.inner).poll_read(cx, buf);
        match &r {
            Poll::Pending => self.probe.parked.store(true, Ordering::SeqCst),
            Poll::Ready(Ok(())) => {
                let n = buf.filled().len() - before;
                self.probe.parked.store(false, Ordering::SeqCst);
                if n == 0 {
                    self.probe.eof.store(true, Ordering::SeqCst);
                }
                self.probe.read_total.fetch_add(n as u64, Ordering::SeqCst);
            }
            Poll::Ready(Err(_)) => self.probe.parked.store(false, Ordering::SeqCst),
        }
        r
    }
}

impl AsyncWrite for ProbeIo {
    fn poll_write(
        mut self: Pin<&mut Self>,
        cx: &mut Context<'_>,
        buf: &[u8],
    ) -> Poll<std::io::Result<usize>> {
        Pin::new(&mut self.inner).poll_write(cx, buf)
    }
    fn poll_flush(mut self: Pin<&mut Self>, cx: &mut Context<'_>) -> Poll<std::io::Result<()>> {
        Pin::new(&mut self.inner).poll_flush(cx)
    }
    fn poll_shutdown(mut self: Pin<&mut Self>, cx: &mut Context<'_>) -> Poll<std::io::Result<()>> {
        Pin::new(&mut self.inner).poll_shutdown(cx)
    }
}

// ------------------------------------------------------------------ one cache <-> one serve_inner

#[derive(Clone, Copy, PartialEq, Eq, Debug)]
enum St {
    /// connected; the client's Reset Query is to be answered
    AwaitReset {
        after_cache_reset: bool,
    },
    Synced,
    /// Cache Reset was sent and the client did not come back with a Reset Query
    ResetPending,
    /// the cache answered "No Data Available" to the Reset Query
    Unsynced,
    /// the client stopped consuming input
    Dead,
    Closed,
}

#[derive(Clone, Copy, PartialEq, Eq)]
enum Q {
    Parked,
    Exited,
    Unsettled,
    Watchdog,
}

/// What the last step of a session did (for the isolation signature).
#[derive(Clone, Copy, PartialEq, Eq)]
enum Ev {
    None,
    Eod,
    End,
}

struct Sess {
    label: &'static str,
    addr: IpAddr,
    arc: Arc<IpAddr>,
    io: Option<DuplexStream>,
    probe: Arc<Probe>,
    written: u64,
    state: Arc<RpkiState>,
    cancel: CancellationToken,
    soft_reset: Arc<Notify>,
    handle: Option<tokio::task::JoinHandle<Result<(), Error>>>,
    cache: Cache,
    rng: Rng,
    st: St,
    /// fold of what this session's cache has completed so far
    expect: BTreeSet<Vrp>,
    /// complete PDUs written in this connection
    sent: Vec<(&'static str, bool)>,
    base_sum: i64,
    inbuf: Vec<u8>,
    queries: VecDeque<ClientPdu>,
    last_ev: Ev,
    diverged: bool,
    connections: u32,
    /// (session id, serial) of the last End of Data written in this connection
    last_eod: Option<(u16, u32)>,
}

struct Ctx<'a> {
    rep: &'a RefCell<Report>,
    log: &'a RefCell<Vec<String>>,
    tables: TableHandle,
    deadline: Instant,
    big: bool,
    judge_snapshot_withdraw: bool,
}

impl Ctx<'_> {
    fn count(&self, k: &str) {
        self.rep.borrow_mut().count(k);
    }
    fn log(&self, s: String) {
        self.log.borrow_mut().push(s);
    }
    fn witness(&self, extra: Vec<(&str, Json)>) -> Json {
        let mut kv = vec![("history", Json::strs(self.log.borrow().iter().cloned()))];
        kv.extend(extra);
        Json::obj(kv)
    }
}

fn counters_sum(s: &RpkiState) -> i64 {
    s.serial_notify.load(Ordering::Relaxed)
        + s.cache_response.load(Ordering::Relaxed)
        + s.received_ipv4.load(Ordering::Relaxed)
        + s.received_ipv6.load(Ordering::Relaxed)
        + s.end_of_data.load(Ordering::Relaxed)
        + s.cache_reset.load(Ordering::Relaxed)
        + s.error.load(Ordering::Relaxed)
}

fn counters_json(s: &RpkiState) -> Json {
    Json::obj(vec![
        (
            "serial_notify",
            Json::i(s.serial_notify.load(Ordering::Relaxed)),
        ),
        (
            "cache_response",
            Json::i(s.cache_response.load(Ordering::Relaxed)),
        ),
        (
            "received_ipv4",
            Json::i(s.received_ipv4.load(Ordering::Relaxed)),
        ),
        (
            "received_ipv6",
            Json::i(s.received_ipv6.load(Ordering::Relaxed)),
        ),
        (
            "end_of_data",
            Json::i(s.end_of_data.load(Ordering::Relaxed)),
        ),
        (
            "cache_reset",
            Json::i(s.cache_reset.load(Ordering::Relaxed)),
        ),
        ("error", Json::i(s.error.load(Ordering::Relaxed))),
        (
            "serial_query",
            Json::i(s.serial_query.load(Ordering::Relaxed)),
        ),
    ])
}

impl Sess {
    fn new(label: &'static str, addr: IpAddr, cache: Cache, rng: Rng) -> Sess {
        Sess {
            label,
            addr,
            arc: Arc::new(addr),
            io: None,
            probe: Arc::new(Probe::default()),
            written: 0,
            state: Arc::new(RpkiState::default()),
            cancel: CancellationToken::new(),
            soft_reset: Arc::new(Notify::new()),
            handle: None,
            cache,
            rng,
            st: St::Closed,
            expect: BTreeSet::new(),
            sent: Vec::new(),
            base_sum: 0,
            inbuf: Vec::new(),
            queries: VecDeque::new(),
            last_ev: Ev::None,
            diverged: false,
            connections: 0,
            last_eod: None,
        }
    }

    /// What `RpkiClient::serve` does for an accepted TCP connection: a fresh
    /// `Arc<IpAddr>` for the peer, a `Framed` with `RtrCodec::new()`, and
    /// `serve_inner`; `state`, `cancel`, `soft_reset` live across connections
    /// as they do in `try_connect`.
    fn connect(&mut self, cx: &Ctx) {
        let (client_io, server_io) = tokio::io::duplex(1 << 20);
        self.probe = Arc::new(Probe::default());
        self.arc = Arc::new(self.addr);
        let framed = Framed::new(
            ProbeIo {
                inner: client_io,
                probe: self.probe.clone(),
            },
            rpki::RtrCodec::new(),
        );
        let (arc, cancel, soft, state, tables) = (
            self.arc.clone(),
            self.cancel.clone(),
            self.soft_reset.clone(),
            self.state.clone(),
            cx.tables.clone(),
        );
        self.handle = Some(tokio::spawn(async move {
            RpkiClient::serve_inner(framed, arc, cancel, soft, state, tables).await
        }));
        self.io = Some(server_io);
        self.written = 0;
        self.sent.clear();
        self.inbuf.clear();
        self.queries.clear();
        self.base_sum = counters_sum(&self.state);
        self.st = St::AwaitReset {
            after_cache_reset: false,
        };
        self.expect.clear();
        self.diverged = false;
        self.last_eod = None;
        self.connections += 1;
        cx.count("connections");
        cx.log(format!(
            "{}: connect #{} (cache {} speaks RTR v{})",
            self.label, self.connections, self.addr, self.cache.ver
        ));
    }

    /// Non-blocking read of whatever the client has written to us.
    fn drain_client(&mut self, cx: &Ctx) {
        let Some(io) = self.io.as_mut() else { return };
        let mut buf = [0u8; 256];
        loop {
            match io.read(&mut buf).now_or_never() {
                Some(Ok(n)) if n > 0 => self.inbuf.extend_from_slice(&buf[..n]),
                _ => break,
            }
        }
        loop {
            match parse_client(&mut self.inbuf) {
                Ok(Some(p)) => {
                    let what = match p.typ {
                        T_RESET_QUERY => "reset-query".to_string(),
                        T_SERIAL_QUERY => {
                            format!("serial-query sid={} serial={}", p.session, p.serial)
                        }
                        t => format!("type {}", t),
                    };
                    cx.count(&format!("client-pdu:{}", what.split(' ').next().unwrap()));
                    cx.log(format!("{}< {} [{}]", self.label, what, hex(&p.raw)));
                    self.queries.push_back(p);
                }
                Ok(None) => break,
                Err(e) => {
                    cx.rep.borrow_mut().count("unjudged:client-pdu-unparsable");
                    cx.log(format!("{}< unparsable client bytes: {}", self.label, e));
                    self.inbuf.clear();
                    break;
                }
            }
        }
    }

    /// Quiescence by state: the client task is parked on read having taken
    /// every byte we wrote (so its decoder has seen all of them), or it has
    /// finished; and nothing moved for a few scheduler rounds.
    async fn settle(&mut self, cx: &Ctx<'_>) -> Q {
        let mut stable = 0;
        let mut last = (u64::MAX, 0i64, 0usize, false);
        for _ in 0..20_000 {
            tokio::task::yield_now().await;
            self.drain_client(cx);
            let finished = self
                .handle
                .as_ref()
                .map(|h| h.is_finished())
                .unwrap_or(true);
            let sig = (
                self.probe.read_total.load(Ordering::SeqCst),
                counters_sum(&self.state) + self.state.serial_query.load(Ordering::Relaxed),
                self.queries.len() + self.inbuf.len(),
                finished,
            );
            if sig == last {
                stable += 1;
            } else {
                stable = 0;
                last = sig;
            }
            if stable >= 3 {
                if finished {
                    return Q::Exited;
                }
                if self.probe.parked.load(Ordering::SeqCst) && sig.0 == self.written {
                    return Q::Parked;
                }
            }
            if Instant::now() > cx.deadline {
                return Q::Watchdog;
            }
        }
        Q::Unsettled
    }

    /// Write PDUs in random fragments.  `cut`: stop after that many bytes of
    /// the concatenation (connection loss mid-stream).  Returns false when the
    /// pipe is gone.
    async fn send(&mut self, cx: &Ctx<'_>, pdus: &[Pdu], cut: Option<usize>) -> bool {
        let mut all = Vec::new();
        let mut ends = Vec::new();
        for p in pdus {
            all.extend_from_slice(&p.bytes);
            ends.push(all.len());
        }
        let limit = cut.unwrap_or(all.len()).min(all.len());
        for (p, end) in pdus.iter().zip(&ends) {
            let start = end - p.bytes.len();
            if *end <= limit {
                cx.log(format!("{}> {} [{}]", self.label, p.desc, hex(&p.bytes)));
                cx.count(&format!("pdu-sent:{}", p.kind));
            } else if start < limit {
                cx.log(format!(
                    "{}> {} TRUNCATED after {} of {} bytes [{}]",
                    self.label,
                    p.desc,
                    limit - start,
                    p.bytes.len(),
                    hex(&p.bytes[..limit - start])
                ));
                cx.count("drop:mid-pdu");
            }
        }
        let mode = self.rng.below(4);
        let maxchunk = match mode {
            0 => usize::MAX,
            1 => 1,
            2 => 7,
            _ => 40,
        };
        cx.count(match mode {
            0 => "frag:whole",
            1 => "frag:bytewise",
            2 => "frag:1-7",
            _ => "frag:1-40",
        });
        let mut off = 0;
        let mut frags = 0u64;
        while off < limit {
            let n = if maxchunk == usize::MAX {
                limit - off
            } else {
                (1 + self.rng.usize(maxchunk)).min(limit - off)
            };
            let Some(io) = self.io.as_mut() else {
                return false;
            };
            match io.write_all(&all[off..off + n]).now_or_never() {
                Some(Ok(())) => {}
                Some(Err(_)) => return false,
                None => {
                    cx.rep
                        .borrow_mut()
                        .inconclusive("pipe towards the client filled up (1 MiB)");
                    return false;
                }
            }
            off += n;
            self.written += n as u64;
            frags += 1;
            // completed PDUs
            if mode == 0 || self.rng.chance(2, 3) {
                tokio::task::yield_now().await;
            }
            if Instant::now() > cx.deadline {
                return false;
            }
        }
        cx.rep.borrow_mut().count_n("fragments-written", frags);
        for (p, end) in pdus.iter().zip(&ends) {
            if *end <= limit {
                self.sent.push((p.kind, p.counted));
            }
        }
        true
    }

    /// Progress clause: the client is parked with all our bytes in its hands —
    /// every complete PDU must have been consumed.
    fn check_progress(&mut self, cx: &Ctx, q: Q) -> bool {
        let mut rep = cx.rep.borrow_mut();
        rep.eval();
        rep.count("progress-checks");
        let consumed = counters_sum(&self.state) - self.base_sum;
        let expected = self.sent.iter().filter(|p| p.1).count() as i64;
        if consumed == expected {
            if q == Q::Exited {
                // a router may close the session whenever it likes; the
                // session-end clause takes over
                rep.count("client-left-on-its-own-with-everything-consumed");
            }
            return true;
        }
        if consumed > expected {
            rep.inconclusive(
                "client counted more PDUs than the cache model sent (harness accounting)",
            );
            return false;
        }
        // first PDU after the last one the client accounted for
        let mut k = 0;
        let mut wedge = "?";
        let mut idx = 0;
        for (i, (kind, counted)) in self.sent.iter().enumerate() {
            if k == consumed {
                wedge = kind;
                idx = i;
                break;
            }
            if *counted {
                k += 1;
            }
        }
        let (sig, what) = if q == Q::Exited {
            (
                format!("C13/stall/quit-on-{}", wedge),
                format!(
                    "client ended the session on a well-formed {} PDU from a conforming cache",
                    wedge
                ),
            )
        } else {
            (
                format!("C13/stall/{}", wedge),
                format!(
                    "client is parked on read with a complete well-formed {} PDU (and everything after it) unconsumed in its buffer",
                    wedge
                ),
            )
        };
        drop(rep);
        let w = cx.witness(vec![
            ("session", Json::s(self.label)),
            (
                "pdus_sent_this_connection",
                Json::strs(self.sent.iter().map(|p| p.0.to_string())),
            ),
            ("first_unconsumed_index", Json::i(idx as i64)),
            ("pdus_client_accounted_for", Json::i(consumed)),
            ("pdus_with_a_counter_sent", Json::i(expected)),
            ("client_counters", counters_json(&self.state)),
            ("bytes_written", Json::i(self.written as i64)),
            (
                "bytes_client_read",
                Json::i(self.probe.read_total.load(Ordering::SeqCst) as i64),
            ),
        ]);
        cx.rep.borrow_mut().violation(&sig, &what, w);
        self.st = St::Dead;
        false
    }

    fn judge_fold(&mut self, cx: &Ctx, phase: &str, response: &[Pdu], prev: &BTreeSet<Vrp>) {
        let (got, dups) = installed(&cx.tables, &self.addr);
        let mut rep = cx.rep.borrow_mut();
        rep.eval();
        rep.count(&format!("eod-judged:{}", phase));
        if dups > 0 {
            rep.count("unjudged:duplicate-entries-installed");
        }
        let npfx = response
            .iter()
            .filter(|p| p.kind.ends_with("-prefix"))
            .count();
        if npfx > 0 || !prev.is_empty() {
            let mut h = phase.as_bytes().to_vec();
            for v in prev {
                h.extend(v.bytes());
            }
            for p in response {
                h.extend_from_slice(&p.bytes);
            }
            rep.nontrivial(fnv64(&h));
        }
        if response
            .iter()
            .any(|p| p.kind.ends_with("-prefix") && p.bytes[8] & 1 == 0)
        {
            rep.count("shape:response-with-withdraw");
        }
        if response.iter().any(|p| p.kind == "ipv6-prefix")
            && response.iter().any(|p| p.kind == "ipv4-prefix")
        {
            rep.count("shape:response-mixing-v4-v6");
        }
        if response.iter().any(|p| p.kind == "router-key") {
            rep.count("shape:response-with-router-key");
        }
        let extra: BTreeSet<Vrp> = got.difference(&self.expect).cloned().collect();
        let missing: BTreeSet<Vrp> = self.expect.difference(&got).cloned().collect();
        if rep.want_sample() && npfx > 2 && phase == "incremental" {
            let s = Json::obj(vec![
                ("phase", Json::s(phase)),
                ("history", Json::strs(cx.log.borrow().iter().cloned())),
                ("expected", render_set(&self.expect)),
                ("installed", render_set(&got)),
            ]);
            rep.sample(s);
        }
        drop(rep);
        if extra.is_empty() && missing.is_empty() {
            return;
        }
        self.diverged = true;
        for (kind, set) in [("extra", &extra), ("missing", &missing)] {
            if set.is_empty() {
                continue;
            }
            let sig = format!("C13/fold/{}/{}", phase, kind);
            let what = format!(
                "after the End of Data of a {} response the VRPs installed for the cache have {} entries w.r.t. the fold of its responses",
                phase, kind
            );
            let w = cx.witness(vec![
                ("session", Json::s(self.label)),
                ("expected_fold", render_set(&self.expect)),
                ("installed", render_set(&got)),
                ("extra", render_set(&extra)),
                ("missing", render_set(&missing)),
            ]);
            cx.rep.borrow_mut().violation(&sig, &what, w);
        }
    }

    /// Send a whole response and judge it.  Returns false if the session is
    /// no longer usable.
    async fn respond_and_judge(
        &mut self,
        cx: &Ctx<'_>,
        phase: &str,
        pdus: Vec<Pdu>,
        reset: bool,
    ) -> bool {
        let prev = if reset {
            BTreeSet::new()
        } else {
            self.expect.clone()
        };
        let folded = match fold(&prev, &pdus) {
            Ok(f) => f,
            Err(e) => {
                cx.rep.borrow_mut().inconclusive(&format!(
                    "cache model produced a non-conforming response: {}",
                    e
                ));
                return false;
            }
        };
        if folded != self.cache.set {
            cx.rep
                .borrow_mut()
                .inconclusive("cache model: fold of its responses differs from its data set");
            return false;
        }
        if !self.send(cx, &pdus, None).await {
            return false;
        }
        let q = self.settle(cx).await;
        match q {
            Q::Watchdog | Q::Unsettled => {
                cx.rep
                    .borrow_mut()
                    .inconclusive("quiescence not reached after a response (watchdog)");
                self.st = St::Dead;
                return false;
            }
            _ => {}
        }
        // the response has been written completely: from here on it is part of
        // the fold whatever the client did with it
        self.expect = folded;
        self.last_eod = Some((self.cache.session_id, self.cache.serial));
        self.last_ev = Ev::Eod;
        if !self.check_progress(cx, q) {
            return false;
        }
        self.judge_fold(cx, phase, &pdus, &prev);
        self.st = St::Synced;
        true
    }

    fn take_query(&mut self, typ: u8) -> Option<ClientPdu> {
        let i = self.queries.iter().position(|q| q.typ == typ)?;
        self.queries.remove(i)
    }

    /// The session ends (we close, or the operator cancels); afterwards no VRP
    /// of this cache may remain.
    async fn end(&mut self, cx: &Ctx<'_>, how: &'static str) {
        match how {
            "cancel" => {
                self.cancel.cancel();
                // what disable_rpki does for the next connection
                self.cancel = CancellationToken::new();
            }
            _ => {
                self.io = None;
            }
        }
        cx.log(format!("{}! session ends: {}", self.label, how));
        cx.count(&format!("session-end:{}", how));
        let had = installed(&cx.tables, &self.addr).0.len();
        let q = self.settle(cx).await;
        self.io = None;
        self.st = St::Closed;
        self.last_ev = Ev::End;
        if q != Q::Exited {
            if let Some(h) = self.handle.take() {
                h.abort();
                let _ = h.await;
            }
            cx.rep
                .borrow_mut()
                .inconclusive("client task did not finish after the session ended (watchdog)");
            return;
        }
        if let Some(h) = self.handle.take() {
            match h.await {
                Err(e) if e.is_panic() => std::panic::resume_unwind(e.into_panic()),
                _ => {}
            }
        }
        let (got, _) = installed(&cx.tables, &self.addr);
        let mut rep = cx.rep.borrow_mut();
        rep.eval();
        rep.count("session-end-judged");
        if had > 0 {
            rep.count("session-end-judged:with-vrps-installed");
            let mut h = b"end".to_vec();
            h.extend_from_slice(how.as_bytes());
            for v in &self.expect {
                h.extend(v.bytes());
            }
            rep.nontrivial(fnv64(&h));
        }
        drop(rep);
        self.expect.clear();
        if !got.is_empty() {
            let sig = format!("C13/session-end/vrps-remain/{}", how);
            let w = cx.witness(vec![
                ("session", Json::s(self.label)),
                ("still_installed", render_set(&got)),
            ]);
            cx.rep.borrow_mut().violation(
                &sig,
                "VRPs of a cache are still installed after its session has ended (serve_inner returned)",
                w,
            );
        }
    }

    /// One step of this cache's life.
    async fn step(&mut self, cx: &Ctx<'_>) {
        self.last_ev = Ev::None;
        if self
            .handle
            .as_ref()
            .map(|h| h.is_finished())
            .unwrap_or(false)
            && self.st != St::Closed
        {
            // the client left on its own
            let q = self.settle(cx).await;
            self.check_progress(cx, q);
            self.end(cx, "eof").await;
            return;
        }
        match self.st {
            St::Closed => {
                if self.rng.chance(1, 2) {
                    self.cache.restart(&mut self.rng);
                    cx.count("cache-restarted-between-connections");
                }
                let t = self.rng.usize(4);
                self.cache.mutate(&mut self.rng, t);
                self.connect(cx);
                cx.count("reconnects");
            }
            St::AwaitReset { after_cache_reset } => {
                self.step_await_reset(cx, after_cache_reset).await
            }
            St::Synced => self.step_synced(cx).await,
            St::ResetPending => {
                if self.rng.bool() {
                    self.round(cx, true).await;
                } else {
                    self.end(cx, "eof").await;
                }
            }
            St::Unsynced => {
                if self.rng.bool() {
                    // the cache has data now and says so
                    let n =
                        pdu_serial_notify(self.cache.ver, self.cache.session_id, self.cache.serial);
                    if self.send(cx, &[n], None).await {
                        let q = self.settle(cx).await;
                        if q == Q::Parked
                            && self.check_progress(cx, q)
                            && self.take_query(T_RESET_QUERY).is_some()
                        {
                            self.st = St::AwaitReset {
                                after_cache_reset: false,
                            };
                            return;
                        }
                    }
                    cx.count("unjudged:no-retry-after-no-data-available");
                }
                self.end(cx, "eof").await;
            }
            St::Dead => self.end(cx, "eof").await,
        }
    }

    async fn step_await_reset(&mut self, cx: &Ctx<'_>, after_cache_reset: bool) {
        let q = self.settle(cx).await;
        if q != Q::Parked {
            if q == Q::Exited {
                self.check_progress(cx, q);
            } else {
                cx.rep.borrow_mut().inconclusive(
                    "quiescence not reached while waiting for the Reset Query (watchdog)",
                );
            }
            self.end(cx, "eof").await;
            return;
        }
        let Some(rq) = self.take_query(T_RESET_QUERY) else {
            cx.count("unjudged:no-reset-query-seen");
            self.end(cx, "eof").await;
            return;
        };
        let mut phase = if after_cache_reset {
            "after-cache-reset"
        } else {
            "reset"
        };
        let k = self.rng.below(100);
        if k < 6 && !after_cache_reset {
            // RFC 8210 §5.11 / §12 code 2: no data yet; non-fatal
            let e = pdu_error_report(self.cache.ver, 2, &rq.raw, "No Data Available");
            if self.send(cx, &[e], None).await {
                let q = self.settle(cx).await;
                if matches!(q, Q::Parked | Q::Exited) && self.check_progress(cx, q) {
                    self.st = St::Unsynced;
                }
            }
            return;
        }
        if k < 14 {
            // a notify ahead of the response: the router must ignore it
            let n = pdu_serial_notify(self.cache.ver, self.cache.session_id, self.cache.serial);
            cx.count("shape:notify-before-first-response");
            if !self.send(cx, &[n], None).await {
                return;
            }
        }
        let mut pdus = self.cache.full_response(&mut self.rng);
        if cx.judge_snapshot_withdraw && self.rng.chance(1, 3) && pdus.len() > 2 {
            // opt-in, outside the default plan: a record announced and
            // withdrawn again inside the reset response
            let v = *self.rng.pick(&self.cache.pool);
            if !self.cache.set.contains(&v) {
                let i = self.rng.range(1, pdus.len() as u64 - 1) as usize;
                pdus.insert(i, pdu_prefix(self.cache.ver, true, &v));
                let j = self.rng.range(i as u64 + 1, pdus.len() as u64 - 1) as usize;
                pdus.insert(j, pdu_prefix(self.cache.ver, false, &v));
                cx.count("shape:withdraw-in-reset-response");
                phase = "reset-with-withdraw";
            }
        }
        if k >= 14 && k < 22 {
            let total: usize = pdus.iter().map(|p| p.bytes.len()).sum();
            let cut = self.rng.usize(total);
            cx.count("drop:during-reset-response");
            let _ = self.send(cx, &pdus, Some(cut)).await;
            self.end(cx, "eof").await;
            return;
        }
        self.respond_and_judge(cx, phase, pdus, true).await;
    }

    async fn step_synced(&mut self, cx: &Ctx<'_>) {
        let k = self.rng.below(100);
        if k < 62 {
            self.round(cx, false).await;
        } else if k < 70 {
            // notify that carries the serial the router already has
            let n = pdu_serial_notify(self.cache.ver, self.cache.session_id, self.cache.serial);
            cx.count("shape:notify-same-serial");
            if !self.send(cx, &[n], None).await {
                return;
            }
            let q = self.settle(cx).await;
            if !matches!(q, Q::Parked | Q::Exited) {
                cx.rep
                    .borrow_mut()
                    .inconclusive("quiescence not reached after a Serial Notify (watchdog)");
                self.st = St::Dead;
                return;
            }
            if !self.check_progress(cx, q) {
                return;
            }
            if let Some(sq) = self.take_query(T_SERIAL_QUERY) {
                self.answer_serial_query(cx, sq, 0).await;
            }
        } else if k < 76 {
            // fatal error report, then the cache closes (RFC 8210 §5.11)
            let code = *self.rng.pick(&[0u16, 1, 3, 4, 5, 6, 7, 8]);
            let encap: Vec<u8> = if self.rng.bool() {
                // the router's last Serial Query as the "erroneous PDU"
                let mut b = vec![1, T_SERIAL_QUERY];
                b.extend_from_slice(&self.cache.session_id.to_be_bytes());
                b.extend_from_slice(&12u32.to_be_bytes());
                b.extend_from_slice(&self.cache.serial.to_be_bytes());
                b
            } else {
                Vec::new()
            };
            let text = *self
                .rng
                .pick(&["", "internal error", "d\u{e9}sol\u{e9}: erreur fatale"]);
            let e = pdu_error_report(self.cache.ver, code, &encap, text);
            cx.count("shape:fatal-error-report");
            if self.send(cx, &[e], None).await {
                let q = self.settle(cx).await;
                // a router that drops the session on a fatal report is right
                if q == Q::Parked {
                    self.check_progress(cx, q);
                }
            }
            self.end(cx, "eof").await;
        } else if k < 90 {
            self.end(cx, "eof").await;
        } else {
            self.end(cx, "cancel").await;
        }
    }

    /// One refresh round: the cache's data changes, the router is made to ask
    /// (Serial Notify, or the operator's soft reset), the cache answers.
    async fn round(&mut self, cx: &Ctx<'_>, reset_pending: bool) {
        let by_notify = self.rng.chance(2, 3);
        let max = if cx.big { 8 } else { 3 };
        let toggles = if by_notify {
            self.rng.range(1, max)
        } else {
            self.rng.range(0, max)
        } as usize;
        self.cache.mutate(&mut self.rng, toggles);
        if self.cache.serial < 3 || self.cache.serial > u32::MAX - 3 {
            cx.count("shape:serial-near-wrap");
        }
        if by_notify {
            cx.count("trigger:serial-notify");
            let n = pdu_serial_notify(self.cache.ver, self.cache.session_id, self.cache.serial);
            if !self.send(cx, &[n], None).await {
                return;
            }
        } else {
            cx.count("trigger:soft-reset");
            cx.log(format!(
                "{}: operator soft reset (soft_reset.notify_one)",
                self.label
            ));
            self.soft_reset.notify_one();
        }
        let q = self.settle(cx).await;
        if !matches!(q, Q::Parked | Q::Exited) {
            cx.rep
                .borrow_mut()
                .inconclusive("quiescence not reached after a refresh trigger (watchdog)");
            self.st = St::Dead;
            return;
        }
        if !self.check_progress(cx, q) {
            return;
        }
        let Some(sq) = self.take_query(T_SERIAL_QUERY) else {
            // Serial Notify is a hint; not asking is not judged
            cx.count("unjudged:no-serial-query-after-trigger");
            return;
        };
        let k = if reset_pending {
            100
        } else {
            self.rng.below(100)
        };
        self.answer_serial_query(cx, sq, k).await;
    }

    async fn answer_serial_query(&mut self, cx: &Ctx<'_>, sq: ClientPdu, k: u64) {
        let asked_from_last = self.last_eod == Some((sq.session, sq.serial));
        if !asked_from_last {
            // the router asked with a session id / serial other than the one of
            // the last End of Data; the cache declines (Cache Reset)
            cx.count("unjudged:serial-query-not-matching-last-end-of-data");
        }
        let delta = if asked_from_last && (k < 78 || (82..90).contains(&k)) {
            self.cache
                .delta_response(&mut self.rng, sq.session, sq.serial)
        } else {
            None
        };
        match delta {
            Some(pdus) if k < 78 => {
                cx.count("response:delta");
                self.respond_and_judge(cx, "incremental", pdus, false).await;
            }
            Some(pdus) => {
                let total: usize = pdus.iter().map(|p| p.bytes.len()).sum();
                let cut = self.rng.usize(total);
                cx.count("drop:during-delta-response");
                let _ = self.send(cx, &pdus, Some(cut)).await;
                self.end(cx, "eof").await;
            }
            None if (90..96).contains(&k) => {
                // the cache lost its data for a while; non-fatal
                cx.count("response:no-data-available");
                let e = pdu_error_report(self.cache.ver, 2, &sq.raw, "No Data Available");
                if self.send(cx, &[e], None).await {
                    let q = self.settle(cx).await;
                    if matches!(q, Q::Parked | Q::Exited) {
                        self.check_progress(cx, q);
                    }
                }
            }
            None => {
                cx.count("response:cache-reset");
                if !self
                    .send(cx, &[pdu_cache_reset(self.cache.ver)], None)
                    .await
                {
                    return;
                }
                let q = self.settle(cx).await;
                if !matches!(q, Q::Parked | Q::Exited) {
                    cx.rep
                        .borrow_mut()
                        .inconclusive("quiescence not reached after a Cache Reset (watchdog)");
                    self.st = St::Dead;
                    return;
                }
                if !self.check_progress(cx, q) {
                    return;
                }
                if self.queries.iter().any(|q| q.typ == T_RESET_QUERY) {
                    cx.count("cache-reset-followed-by-reset-query");
                    self.st = St::AwaitReset {
                        after_cache_reset: true,
                    };
                } else {
                    // RFC 8210 §5.9 lets the router go elsewhere instead; the
                    // statement does not cover it
                    cx.count("unjudged:cache-reset-not-followed-by-reset-query");
                    self.st = St::ResetPending;
                }
            }
        }
    }
}

// ------------------------------------------------------------------ one stream = one TableManager, 1-2 caches

fn isolation_check(cx: &Ctx, others: &[(&'static str, IpAddr, BTreeSet<Vrp>)], actor: &Sess) {
    for (label, addr, before) in others {
        let (after, _) = installed(&cx.tables, addr);
        let mut rep = cx.rep.borrow_mut();
        rep.eval();
        rep.count("isolation-judged");
        if !before.is_empty() {
            rep.count("isolation-judged:other-has-vrps");
            if before
                .intersection(&actor.cache.pool.iter().cloned().collect())
                .next()
                .is_some()
            {
                rep.count("isolation-judged:overlapping-records");
            }
        }
        drop(rep);
        if after != *before {
            let ev = match actor.last_ev {
                Ev::Eod => "end-of-data",
                Ev::End => "session-end",
                Ev::None => "pdu",
            };
            let sig = format!("C13/isolation/changed-on-other-{}", ev);
            let w = cx.witness(vec![
                ("acting_session", Json::s(actor.label)),
                ("victim_session", Json::s(*label)),
                ("victim_before", render_set(before)),
                ("victim_after", render_set(&after)),
            ]);
            cx.rep.borrow_mut().violation(
                &sig,
                "VRPs installed for one cache changed while only the other cache's session was active",
                w,
            );
        }
    }
}

async fn run_stream(cx: &Ctx<'_>, rng: &mut Rng, idx: u64) {
    let two = idx >= 20 && rng.chance(2, 5);
    let pool_n = if cx.big {
        rng.range(6, 40)
    } else {
        rng.range(2, 6)
    } as usize;
    let pool = vrp_pool(rng, pool_n);
    let n = if two { 2 } else { 1 };
    let addrs = [
        IpAddr::from([192, 0, 2, 53]),
        "2001:db8::53".parse::<IpAddr>().unwrap(),
    ];
    let mut sess: Vec<Sess> = Vec::new();
    for i in 0..n {
        let ver = if rng.chance(1, 3) { 0 } else { 1 };
        let use_keys = rng.chance(1, 3);
        let churn = rng.chance(1, 2);
        let init = rng.range(0, pool.len() as u64) as usize;
        let cache = Cache::new(rng, pool.clone(), ver, use_keys, churn, init);
        let a = if two { addrs[i] } else { *rng.pick(&addrs) };
        let mut s = Sess::new(if i == 0 { "A" } else { "B" }, a, cache, rng.fork());
        s.connect(cx);
        sess.push(s);
    }
    {
        let mut rep = cx.rep.borrow_mut();
        rep.count("streams");
        rep.count(if two {
            "streams:two-caches"
        } else {
            "streams:one-cache"
        });
        for s in &sess {
            rep.count(&format!("cache-version:{}", s.cache.ver));
        }
    }
    let steps = if cx.big {
        rng.range(2, 12)
    } else {
        rng.range(2, 5)
    };
    for _ in 0..steps {
        if Instant::now() > cx.deadline {
            cx.rep.borrow_mut().inconclusive("stream watchdog fired");
            break;
        }
        if two && rng.chance(1, 3) {
            cx.count("steps:concurrent");
            let (a, b) = sess.split_at_mut(1);
            futures::join!(a[0].step(cx), b[0].step(cx));
        } else {
            cx.count("steps:solo");
            let i = rng.usize(n);
            let others: Vec<_> = sess
                .iter()
                .enumerate()
                .filter(|(j, _)| *j != i)
                .map(|(_, s)| (s.label, s.addr, installed(&cx.tables, &s.addr).0))
                .collect();
            sess[i].step(cx).await;
            isolation_check(cx, &others, &sess[i]);
        }
    }
    // every session ends; nothing may be left in the table
    for i in 0..n {
        if sess[i].st == St::Closed {
            continue;
        }
        let others: Vec<_> = sess
            .iter()
            .enumerate()
            .filter(|(j, _)| *j != i)
            .map(|(_, s)| (s.label, s.addr, installed(&cx.tables, &s.addr).0))
            .collect();
        let how = if rng.chance(1, 4) { "cancel" } else { "eof" };
        sess[i].end(cx, how).await;
        isolation_check(cx, &others, &sess[i]);
    }
    let left = total_entries(&cx.tables);
    if left > 0
        && !cx
            .rep
            .borrow()
            .violations
            .iter()
            .any(|v| v.signature.starts_with("C13/session-end/"))
    {
        cx.count("unjudged:entries-of-unknown-source-left");
    }
}

// ------------------------------------------------------------------ part=cancel: the real try_connect over loopback TCP

/// DisableRpki / DeleteRpki end a session by cancelling the token that
/// `try_connect` and `serve_inner` both wait on.  Whichever way the task
/// leaves, the cache's VRPs have to go.  Session end is observed by state: our
/// end of the TCP connection reads EOF (the client's socket was dropped).
async fn run_cancel_case(cx: &Ctx<'_>, rng: &mut Rng) {
    use tokio::net::TcpListener;
    let listener = match crate::verif_hooks::bind_retry("127.0.0.1:0".parse().unwrap()).await {
        Ok(l) => l,
        Err(_) => {
            cx.count("unjudged:loopback-unavailable");
            return;
        }
    };
    let sockaddr = listener.local_addr().unwrap();
    let addr = sockaddr.ip();
    let cancel = CancellationToken::new();
    let soft = Arc::new(Notify::new());
    let state = Arc::new(RpkiState::default());
    let pool = vrp_pool(rng, 4);
    let mut cache = Cache::new(rng, pool, 1, false, false, 3);
    if cache.set.is_empty() {
        let v = cache.pool[0];
        cache.set.insert(v);
    }
    RpkiClient::try_connect(
        sockaddr,
        cancel.clone(),
        soft,
        state.clone(),
        cx.tables.clone(),
    );
    let accept = tokio::time::timeout(Duration::from_secs(10), listener.accept()).await;
    let Ok(Ok((mut sock, _))) = accept else {
        cx.rep
            .borrow_mut()
            .inconclusive("try_connect did not reach the loopback listener (watchdog)");
        cancel.cancel();
        return;
    };
    crate::verif_hooks::no_time_wait(&sock);
    cx.log(format!("T: try_connect({}) accepted", sockaddr));
    let pdus = cache.full_response(rng);
    for p in &pdus {
        cx.log(format!("T> {} [{}]", p.desc, hex(&p.bytes)));
        if sock.write_all(&p.bytes).await.is_err() {
            cx.rep.borrow_mut().inconclusive("loopback write failed");
            cancel.cancel();
            return;
        }
    }
    // wait (by state) until the client has consumed the End of Data
    loop {
        if state.end_of_data.load(Ordering::Relaxed) >= 1 {
            break;
        }
        if Instant::now() > cx.deadline {
            cx.rep
                .borrow_mut()
                .inconclusive("client did not consume End of Data over loopback (watchdog)");
            cancel.cancel();
            return;
        }
        tokio::time::sleep(Duration::from_millis(1)).await;
    }
    let (before, _) = installed(&cx.tables, &addr);
    if before != cache.set {
        // judged by the duplex workload; here only the precondition matters
        cx.count("unjudged:tcp-case-initial-set-differs");
    }
    cx.log("T! operator disables the cache: cancel.cancel()".to_string());
    cancel.cancel();
    // session end by state: EOF on our side
    let mut buf = [0u8; 64];
    let mut inbuf = Vec::new();
    loop {
        match tokio::time::timeout(Duration::from_secs(10), sock.read(&mut buf)).await {
            Ok(Ok(0)) | Ok(Err(_)) => break,
            Ok(Ok(n)) => inbuf.extend_from_slice(&buf[..n]),
            Err(_) => {
                cx.rep
                    .borrow_mut()
                    .inconclusive("client socket not closed after cancel (watchdog)");
                return;
            }
        }
    }
    // let a task that is still unwinding its cleanup finish
    for _ in 0..8 {
        tokio::task::yield_now().await;
    }
    let (after, _) = installed(&cx.tables, &addr);
    let mut rep = cx.rep.borrow_mut();
    rep.eval();
    rep.count("cancel-case-judged");
    if !before.is_empty() {
        let mut h = b"tcp-cancel".to_vec();
        for v in &before {
            h.extend(v.bytes());
        }
        rep.nontrivial(fnv64(&h));
    }
    drop(rep);
    if !after.is_empty() {
        let w = cx.witness(vec![
            ("still_installed", render_set(&after)),
            ("installed_before_cancel", render_set(&before)),
        ]);
        cx.rep.borrow_mut().violation(
            "C13/session-end/vrps-remain/try-connect-cancelled",
            "a cache's VRPs stay installed after its session was ended through the cancellation token (DisableRpki / DeleteRpki path of try_connect)",
            w,
        );
    }
}

// ------------------------------------------------------------------ entry point

fn new_runtime() -> tokio::runtime::Runtime {
    tokio::runtime::Builder::new_current_thread()
        .enable_all()
        .build()
        .expect("tokio runtime")
}

#[test]
fn run() {
    let params = Params::from_args_env();
    let rep = RefCell::new(Report::new("C13", &params));
    let mut rng = Rng::new(params.seed ^ 0xC13);
    let part = params.get("part").unwrap_or("all").to_string();
    let streams = params.get_u64("streams", params.n(600, 6000));
    let cancel_cases = params.get_u64("cancel_cases", params.n(40, 400));
    let judge_snapshot_withdraw = params.flag("snapwd");
    let mut rt = new_runtime();

    // the cheap loopback part first so a tight budget cannot starve it
    if part == "all" || part == "cancel" {
        for _ in 0..cancel_cases {
            if !rep.borrow().in_budget() {
                break;
            }
            let log = RefCell::new(Vec::new());
            let mut srng = rng.fork();
            let r = guard(|| {
                let cx = Ctx {
                    rep: &rep,
                    log: &log,
                    tables: Arc::new(TableManager::new(1)),
                    deadline: Instant::now() + Duration::from_secs(30),
                    big: false,
                    judge_snapshot_withdraw: false,
                };
                rt.block_on(run_cancel_case(&cx, &mut srng));
            });
            if let Err(p) = r {
                report_panic(&rep, &log, p);
                rt = new_runtime();
            }
        }
    }
    if part == "all" || part == "streams" {
        for idx in 0..streams {
            if !rep.borrow().in_budget() {
                break;
            }
            let log = RefCell::new(Vec::new());
            let mut srng = rng.fork();
            let r = guard(|| {
                let cx = Ctx {
                    rep: &rep,
                    log: &log,
                    tables: Arc::new(TableManager::new(1)),
                    deadline: Instant::now() + Duration::from_secs(30),
                    big: idx >= 60,
                    judge_snapshot_withdraw,
                };
                rt.block_on(run_stream(&cx, &mut srng, idx));
            });
            if let Err(p) = r {
                report_panic(&rep, &log, p);
                rt = new_runtime();
            }
        }
    }
    drop(rt);
    let _ = rep.borrow().finish();
}

fn report_panic(rep: &RefCell<Report>, log: &RefCell<Vec<String>>, p: PanicInfo) {
    let mut rep = match rep.try_borrow_mut() {
        Ok(r) => r,
        Err(_) => return,
    };
    if p.location.contains("harness/daemon") || p.location.contains("/verif/") {
        rep.inconclusive(&format!("harness panic at {}: {}", p.location, p.message));
        return;
    }
    let sig = format!("C13/panic/{}:{}", p.location, panic_class(&p.message));
    rep.violation(
        &sig,
        &format!(
            "panic while a conforming cache was talking to the RTR client: {}",
            p.message
        ),
        Json::obj(vec![
            ("history", Json::strs(log.borrow().iter().cloned())),
            ("message", Json::s(p.message.clone())),
        ]),
    );
}
