//! C20 — kernel FIB requests and next-hop tracking stay in step with the RIB.
//!
//! Real `TableManager` whose `kernel_handle` is the verification handle of the
//! kernel crate (requests observed at the channel instead of Netlink).
//! Histories of insert / replace / remove / peer drop / GR stale + purge /
//! soft_reset_in with import-policy changes / next-hop reachability reports,
//! plus VPN routes imported into VRFs.  After every operation the request stream
//! is drained and folded:
//!   FIB replay      (table, prefix) -> next-hop set  == next hops of the best
//!                   path and of the paths tied with it before the router-id
//!                   step (reference tie key), nothing if no eligible path;
//!   NHT conservation registers - unregisters per address == peer-learned paths
//!                   currently in the RIB with that next hop, never negative;
//!   exclusion       no path whose next hop is reported unreachable is eligible.
use super::common::*;
use crate::table_manager::TableManager;
use rustybgp_kernel::verif::{VerifRequest, VerifRequests, verif_handle};
use rustybgp_packet::{self as packet, Attribute, Family, bgp};
use rustybgp_table as table;
use std::collections::{BTreeMap, BTreeSet, HashSet};
use std::net::{IpAddr, Ipv4Addr, Ipv6Addr};
use std::sync::Arc;

const LOCAL_ASN: u32 = 65000;
const N_PEERS: usize = 3;
const N_PFX: usize = 5;
const VRF_IDS: [u32; 2] = [100, 200];

fn peer_addr(i: usize) -> IpAddr {
    IpAddr::V4(Ipv4Addr::new(192, 0, 2, 20 + i as u8))
}

fn rt(n: u16) -> [u8; 8] {
    // two-octet AS specific route target 65000:n
    let mut b = [0u8; 8];
    b[0] = 0x00;
    b[1] = 0x02;
    b[2..4].copy_from_slice(&65000u16.to_be_bytes());
    b[4..8].copy_from_slice(&(n as u32).to_be_bytes());
    b
}

#[derive(Clone, Copy, Debug, PartialEq, Eq, PartialOrd, Ord)]
enum Fam {
    V4,
    V6,
    Vpn4,
}

fn family(f: Fam) -> Family {
    match f {
        Fam::V4 => Family::IPV4,
        Fam::V6 => Family::IPV6,
        Fam::Vpn4 => Family::IPV4_VPN,
    }
}

fn prefix(f: Fam, i: usize) -> packet::Nlri {
    match f {
        Fam::V4 => packet::Nlri::V4(bgp::Ipv4Net {
            addr: Ipv4Addr::new(10, i as u8, 0, 0),
            mask: 16,
        }),
        Fam::V6 => packet::Nlri::V6(bgp::Ipv6Net {
            addr: Ipv6Addr::new(0x2001, 0xdb8, i as u16, 0, 0, 0, 0, 0),
            mask: 48,
        }),
        Fam::Vpn4 => packet::Nlri::VpnV4(packet::vpn::VpnV4Nlri {
            labels: packet::mpls::MplsLabelStack::new(vec![packet::mpls::MplsLabel::new(
                1000 + i as u32,
            )]),
            rd: packet::rd::RouteDistinguisher::TwoOctetAs {
                admin: 65000,
                assigned: 1,
            },
            prefix: bgp::Ipv4Net {
                addr: Ipv4Addr::new(172, 16, i as u8, 0),
                mask: 24,
            },
        }),
    }
}

fn nexthop(f: Fam, i: usize) -> bgp::Nexthop {
    match f {
        // the 32-byte global + link-local form (RFC 2545): tracked by its global address
        Fam::V6 if i == 1 => bgp::Nexthop::V6LinkLocal(
            Ipv6Addr::new(0x2001, 0xdb8, 0xffff, 0, 0, 0, 0, 2),
            Ipv6Addr::new(0xfe80, 0, 0, 0, 0, 0, 0, 2),
        ),
        Fam::V6 => bgp::Nexthop::V6(Ipv6Addr::new(
            0x2001,
            0xdb8,
            0xffff,
            0,
            0,
            0,
            0,
            1 + i as u16,
        )),
        _ => bgp::Nexthop::V4(Ipv4Addr::new(192, 0, 2, 101 + i as u8)),
    }
}

fn as_path(asns: &[u32]) -> Attribute {
    let mut b = vec![2u8, asns.len() as u8];
    for a in asns {
        b.extend_from_slice(&a.to_be_bytes());
    }
    Attribute::new_with_bin(Attribute::AS_PATH, b).unwrap()
}

/// attribute sets: several tie on every step before router-id (ECMP), others differ
fn attr_pool() -> Vec<Arc<Vec<Attribute>>> {
    let origin = |v| Attribute::new_with_value(Attribute::ORIGIN, v).unwrap();
    let lp = |v| Attribute::new_with_value(Attribute::LOCAL_PREF, v).unwrap();
    let med = |v| Attribute::new_with_value(Attribute::MULTI_EXIT_DESC, v).unwrap();
    let ext = |rts: &[[u8; 8]]| {
        let mut b = Vec::new();
        for r in rts {
            b.extend_from_slice(r);
        }
        Attribute::new_with_bin(Attribute::EXTENDED_COMMUNITY, b).unwrap()
    };
    vec![
        Arc::new(vec![origin(0), as_path(&[64900]), ext(&[rt(1)])]),
        Arc::new(vec![origin(0), as_path(&[64901]), med(5), ext(&[rt(1)])]), // ties with 0 (MED not compared)
        Arc::new(vec![origin(0), as_path(&[64902]), lp(200), ext(&[rt(2)])]),
        Arc::new(vec![
            origin(0),
            as_path(&[64900, 64903]),
            ext(&[rt(1), rt(2)]),
        ]),
        Arc::new(vec![origin(1), as_path(&[64904]), ext(&[rt(3)])]),
    ]
}

#[derive(Clone, Debug)]
enum Op {
    Announce {
        peer: usize,
        fam: Fam,
        pfx: usize,
        pid: u32,
        attr: usize,
        nh: usize,
    },
    Withdraw {
        peer: usize,
        fam: Fam,
        pfx: usize,
        pid: u32,
    },
    PeerDown {
        peer: usize,
    },
    GrDown {
        peer: usize,
    },
    GrUp {
        peer: usize,
    },
    StalePurge {
        peer: usize,
    },
    NhReport {
        fam: Fam,
        nh: usize,
        reachable: bool,
    },
    ImportPolicy {
        idx: usize,
        peer: usize,
    },
}

impl Op {
    fn kind(&self) -> &'static str {
        match self {
            Op::Announce { .. } => "announce",
            Op::Withdraw { .. } => "withdraw",
            Op::PeerDown { .. } => "peer-down",
            Op::GrDown { .. } => "gr-down",
            Op::GrUp { .. } => "gr-up",
            Op::StalePurge { .. } => "stale-purge",
            Op::NhReport { .. } => "nexthop-report",
            Op::ImportPolicy { .. } => "soft-reset-in",
        }
    }
}

fn gen_ops(rng: &mut Rng, n: usize) -> Vec<Op> {
    let fams = [Fam::V4, Fam::V4, Fam::V6, Fam::Vpn4];
    (0..n)
        .map(|_| {
            let k = rng.below(100);
            let fam = *rng.pick(&fams);
            if k < 45 {
                Op::Announce {
                    peer: rng.usize(N_PEERS),
                    fam,
                    pfx: rng.usize(N_PFX),
                    pid: rng.below(2) as u32,
                    attr: rng.usize(5),
                    nh: rng.usize(3),
                }
            } else if k < 65 {
                Op::Withdraw {
                    peer: rng.usize(N_PEERS),
                    fam,
                    pfx: rng.usize(N_PFX),
                    pid: rng.below(2) as u32,
                }
            } else if k < 77 {
                Op::NhReport {
                    fam,
                    nh: rng.usize(3),
                    reachable: rng.chance(1, 2),
                }
            } else if k < 82 {
                Op::PeerDown {
                    peer: rng.usize(N_PEERS),
                }
            } else if k < 87 {
                Op::GrDown {
                    peer: rng.usize(N_PEERS),
                }
            } else if k < 91 {
                Op::GrUp {
                    peer: rng.usize(N_PEERS),
                }
            } else if k < 95 {
                Op::StalePurge {
                    peer: rng.usize(N_PEERS),
                }
            } else {
                Op::ImportPolicy {
                    idx: rng.usize(3),
                    peer: rng.usize(N_PEERS),
                }
            }
        })
        .collect()
}

#[derive(Clone, Copy, PartialEq, Debug)]
enum PeerSt {
    Up,
    GrDown,
    GrUpAwaitingEor,
}

struct World {
    tables: Arc<TableManager>,
    rx: VerifRequests,
    sources: Vec<BTreeMap<Fam, Arc<table::Source>>>,
    st: Vec<PeerSt>,
    attrs: Vec<Arc<Vec<Attribute>>>,
    imp: Vec<Option<Arc<table::PolicyAssignment>>>,
    ts: u32,
    // folded request stream
    fib: BTreeMap<(u32, String), BTreeSet<String>>, // (table id [0 = main], prefix) -> next hops
    nht: BTreeMap<IpAddr, i64>,
    requests: u64,
    unreachable: HashSet<IpAddr>,
    vrf_imports: BTreeMap<u32, HashSet<[u8; 8]>>,
}

fn new_sources(i: usize) -> BTreeMap<Fam, Arc<table::Source>> {
    // the daemon creates one Source per session and family
    let role = if i == 2 {
        table::PeerRole::Ibgp
    } else {
        table::PeerRole::Ebgp
    };
    let asn = if i == 2 { LOCAL_ASN } else { 65001 + i as u32 };
    [Fam::V4, Fam::V6, Fam::Vpn4]
        .into_iter()
        .map(|f| {
            (
                f,
                Arc::new(table::Source::new(
                    peer_addr(i),
                    IpAddr::V4(Ipv4Addr::new(192, 0, 2, 1)),
                    asn,
                    LOCAL_ASN,
                    Ipv4Addr::new(9, 9, 9, 9 + i as u8),
                    role,
                )),
            )
        })
        .collect()
}

fn import_policies() -> Vec<Option<Arc<table::PolicyAssignment>>> {
    let mut out: Vec<Option<Arc<table::PolicyAssignment>>> = vec![None];
    {
        let mut pt = table::PolicyTable::new();
        pt.add_defined_set(table::DefinedSetConfig::Prefix {
            name: "ps".into(),
            prefixes: vec![
                table::PrefixConfig {
                    ip_prefix: "10.1.0.0/16".into(),
                    mask_length_min: 16,
                    mask_length_max: 16,
                },
                table::PrefixConfig {
                    ip_prefix: "10.2.0.0/16".into(),
                    mask_length_min: 16,
                    mask_length_max: 16,
                },
            ],
        })
        .unwrap();
        pt.add_statement(
            "rej",
            vec![table::ConditionConfig::PrefixSet(
                "ps".into(),
                table::MatchOption::Any,
            )],
            Some(table::Disposition::Reject),
            table::Actions::default(),
        )
        .unwrap();
        pt.add_policy("p", vec!["rej".into()]).unwrap();
        out.push(Some(
            pt.build_assignment(
                None,
                "i",
                table::PolicyDirection::Import,
                table::Disposition::Accept,
                vec!["p".into()],
            )
            .unwrap(),
        ));
    }
    {
        let mut pt = table::PolicyTable::new();
        let actions = table::Actions {
            local_pref: Some(table::LocalPrefAction { value: 300 }),
            ..Default::default()
        };
        pt.add_statement(
            "lp",
            vec![table::ConditionConfig::Origin(1)],
            Some(table::Disposition::Accept),
            actions,
        )
        .unwrap();
        pt.add_policy("p", vec!["lp".into()]).unwrap();
        out.push(Some(
            pt.build_assignment(
                None,
                "i",
                table::PolicyDirection::Import,
                table::Disposition::Accept,
                vec!["p".into()],
            )
            .unwrap(),
        ));
    }
    out
}

impl World {
    fn new(shards: usize, with_vrfs: bool) -> World {
        let tables = Arc::new(TableManager::new(shards));
        let (h, rx) = verif_handle();
        tables.kernel_handle.store(Some(Arc::new(h)));
        let mut w = World {
            tables,
            rx,
            sources: (0..N_PEERS).map(new_sources).collect(),
            st: vec![PeerSt::Up; N_PEERS],
            attrs: attr_pool(),
            imp: import_policies(),
            ts: 1,
            fib: BTreeMap::new(),
            nht: BTreeMap::new(),
            requests: 0,
            unreachable: HashSet::new(),
            vrf_imports: BTreeMap::new(),
        };
        if with_vrfs {
            for (k, id) in VRF_IDS.iter().enumerate() {
                let imports: HashSet<[u8; 8]> = [rt(1 + k as u16)].into_iter().collect();
                let hs: std::collections::HashSet<[u8; 8]> = imports.iter().cloned().collect();
                w.tables
                    .add_vrf(
                        format!("vrf{}", id),
                        packet::rd::RouteDistinguisher::TwoOctetAs {
                            admin: 65000,
                            assigned: *id,
                        },
                        hs,
                        vec![rt(1 + k as u16)],
                        *id,
                    )
                    .expect("add_vrf");
                w.vrf_imports.insert(*id, imports);
            }
        }
        w.drain(&mut None);
        w
    }

    fn apply(&mut self, op: &Op) -> bool {
        self.ts += 1;
        match *op {
            Op::Announce {
                peer,
                fam,
                pfx,
                pid,
                attr,
                nh,
            } => {
                if self.st[peer] == PeerSt::GrDown {
                    return false;
                }
                self.tables.insert_route(
                    self.sources[peer][&fam].clone(),
                    family(fam),
                    packet::PathNlri {
                        path_id: pid,
                        nlri: prefix(fam, pfx),
                    },
                    Some(nexthop(fam, nh)),
                    self.attrs[attr].clone(),
                    None,
                    self.ts,
                );
                true
            }
            Op::Withdraw {
                peer,
                fam,
                pfx,
                pid,
            } => {
                if self.st[peer] == PeerSt::GrDown {
                    return false;
                }
                self.tables.remove_route(
                    self.sources[peer][&fam].clone(),
                    family(fam),
                    packet::PathNlri {
                        path_id: pid,
                        nlri: prefix(fam, pfx),
                    },
                    None,
                    self.ts,
                );
                true
            }
            Op::PeerDown { peer } => {
                self.tables.unregister_peer(
                    peer_addr(peer),
                    &[Family::IPV4, Family::IPV6, Family::IPV4_VPN],
                    &[],
                );
                self.sources[peer] = new_sources(peer);
                self.st[peer] = PeerSt::Up;
                true
            }
            Op::GrDown { peer } => {
                if self.st[peer] == PeerSt::GrDown {
                    return false;
                }
                // GR negotiated for IPv4 + IPv6; the VPN family is not and is dropped at once
                self.tables.unregister_peer(
                    peer_addr(peer),
                    &[Family::IPV4_VPN],
                    &[Family::IPV4, Family::IPV6],
                );
                self.st[peer] = PeerSt::GrDown;
                true
            }
            Op::GrUp { peer } => {
                if self.st[peer] != PeerSt::GrDown {
                    return false;
                }
                self.sources[peer] = new_sources(peer);
                self.st[peer] = PeerSt::GrUpAwaitingEor;
                true
            }
            Op::StalePurge { peer } => match self.st[peer] {
                PeerSt::GrUpAwaitingEor => {
                    self.tables
                        .drop_stale_families(peer_addr(peer), &[Family::IPV4, Family::IPV6]);
                    self.st[peer] = PeerSt::Up;
                    true
                }
                PeerSt::GrDown => {
                    self.tables
                        .drop_stale_families(peer_addr(peer), &[Family::IPV4, Family::IPV6]);
                    self.sources[peer] = new_sources(peer);
                    self.st[peer] = PeerSt::Up;
                    true
                }
                _ => false,
            },
            Op::NhReport { fam, nh, reachable } => {
                let a = nexthop(fam, nh).addr();
                if reachable {
                    self.unreachable.remove(&a);
                } else {
                    self.unreachable.insert(a);
                }
                self.tables.update_nexthop_validity(a, reachable);
                true
            }
            Op::ImportPolicy { idx, peer } => {
                self.tables
                    .import_policy
                    .store(self.imp[idx % self.imp.len()].clone());
                self.tables.soft_reset_in(peer_addr(peer));
                true
            }
        }
    }

    /// Drain the request channel and fold it.  `neg` receives the first address whose
    /// registration count went negative.
    fn drain(&mut self, neg: &mut Option<IpAddr>) {
        while let Some(r) = self.rx.try_next() {
            self.requests += 1;
            match r {
                VerifRequest::Apply(c) => {
                    let key = (c.table_id.unwrap_or(0), format!("{}", c.net));
                    if c.nexthops.is_empty() {
                        self.fib.remove(&key);
                    } else {
                        self.fib.insert(
                            key,
                            c.nexthops.iter().map(|n| format!("{}", n.addr())).collect(),
                        );
                    }
                }
                VerifRequest::RegisterNexthop(a) => *self.nht.entry(a).or_insert(0) += 1,
                VerifRequest::UnregisterNexthop(a) => {
                    let e = self.nht.entry(a).or_insert(0);
                    *e -= 1;
                    if *e < 0 && neg.is_none() {
                        *neg = Some(a);
                    }
                }
                VerifRequest::CreateVrf { .. } | VerifRequest::DeleteVrf { .. } => {}
            }
        }
    }
}

/// reference tie key: every decision step before the router-id step
fn tie_key(p: &table::Path) -> (bool, u32, usize, u8, bool, bool, usize) {
    let a = &p.attr;
    let find = |c: u8| a.iter().find(|x| x.code() == c);
    let llgr = p.source.is_llgr_stale()
        || find(Attribute::COMMUNITY)
            .and_then(|x| x.binary())
            .is_some_and(|b| b.chunks(4).any(|c| c == [0xff, 0xff, 0x00, 0x06]));
    let lp = find(Attribute::LOCAL_PREF)
        .and_then(|x| x.value())
        .unwrap_or(100);
    let hops = find(Attribute::AS_PATH)
        .map(|x| x.as_path_length())
        .unwrap_or(0);
    let origin = find(Attribute::ORIGIN).and_then(|x| x.value()).unwrap_or(2) as u8;
    let ebgp = matches!(
        p.source.role,
        table::PeerRole::Ebgp | table::PeerRole::RsClient
    );
    let cl = find(Attribute::CLUSTER_LIST)
        .and_then(|x| x.binary())
        .map(|b| b.len() / 4)
        .unwrap_or(0);
    (llgr, lp, hops, origin, ebgp, p.source.is_stale(), cl)
}

struct Check {
    clause: &'static str,
    detail: String,
}

fn check(w: &World, judge_vrf: bool) -> Option<Check> {
    // expected main-table FIB from the RIB's own ranked lists
    let mut expect: BTreeMap<(u32, String), BTreeSet<String>> = BTreeMap::new();
    let mut nht_expect: BTreeMap<IpAddr, i64> = BTreeMap::new();
    for f in [Fam::V4, Fam::V6, Fam::Vpn4] {
        for ch in w.tables.collect_loc_rib_paths(family(f)) {
            let Some(best) = ch.current_paths.first() else {
                continue;
            };
            let k = tie_key(best);
            let mut nhs: BTreeSet<String> = BTreeSet::new();
            for p in ch.current_paths.iter().take_while(|p| tie_key(p) == k) {
                if let Some(n) = p.nexthop {
                    if w.unreachable.contains(&n.addr()) {
                        return Some(Check {
                            clause: "exclusion",
                            detail: format!(
                                "{}: a path via unreachable next hop {} is eligible / tied with the best",
                                ch.net,
                                n.addr()
                            ),
                        });
                    }
                    nhs.insert(format!("{}", n.addr()));
                }
            }
            for p in ch.current_paths.iter() {
                if let Some(n) = p.nexthop {
                    if w.unreachable.contains(&n.addr()) {
                        return Some(Check {
                            clause: "exclusion",
                            detail: format!(
                                "{}: a path via unreachable next hop {} is in the eligible list",
                                ch.net,
                                n.addr()
                            ),
                        });
                    }
                }
            }
            if !nhs.is_empty() {
                expect.insert((0, format!("{}", ch.net)), nhs.clone());
            }
            if f == Fam::Vpn4 && judge_vrf {
                if let Some(local) = table::vpn_to_local_nlri(&ch.net) {
                    for (id, imports) in &w.vrf_imports {
                        let matches = best
                            .attr
                            .iter()
                            .find(|a| a.code() == Attribute::EXTENDED_COMMUNITY)
                            .and_then(|a| a.binary())
                            .is_some_and(|b| {
                                b.chunks_exact(8)
                                    .any(|c| imports.contains(&<[u8; 8]>::try_from(c).unwrap()))
                            });
                        if matches && !nhs.is_empty() {
                            expect.insert((*id, format!("{}", local)), nhs.clone());
                        }
                    }
                }
            }
        }
        // NHT: peer-learned paths currently in the RIB, by next hop (all paths, eligible or not)
        for shard in &w.tables.shards {
            let s = shard.lock().unwrap();
            for r in s.rtable.iter_reach(family(f)) {
                if r.source.is_local() || r.source.is_kernel() {
                    continue;
                }
                if let Some(n) = r.nexthop {
                    *nht_expect.entry(n.addr()).or_insert(0) += 1;
                }
            }
        }
    }
    // FIB: main table entries must match exactly; VRF entries are judged only where the
    // current best matches the VRF's import targets (the statement's scope)
    for (k, v) in &expect {
        match w.fib.get(k) {
            None => {
                return Some(Check {
                    clause: if k.0 == 0 {
                        "fib/missing"
                    } else {
                        "fib-vrf/missing"
                    },
                    detail: format!(
                        "table {} {}: RIB expects next hops {:?}, replayed FIB has no route",
                        k.0, k.1, v
                    ),
                });
            }
            Some(g) if g != v => {
                return Some(Check {
                    clause: if k.0 == 0 {
                        if g.is_subset(v) {
                            "fib/ecmp-member-missing"
                        } else if v.is_subset(g) {
                            "fib/ecmp-member-stale"
                        } else {
                            "fib/wrong-nexthops"
                        }
                    } else {
                        "fib-vrf/wrong-nexthops"
                    },
                    detail: format!(
                        "table {} {}: RIB expects next hops {:?}, replayed FIB has {:?}",
                        k.0, k.1, v, g
                    ),
                });
            }
            _ => {}
        }
    }
    for (k, g) in &w.fib {
        if k.0 == 0 && !expect.contains_key(k) {
            return Some(Check {
                clause: "fib/stale-route",
                detail: format!(
                    "table 0 {}: replayed FIB still has {:?} but the RIB has no eligible path",
                    k.1, g
                ),
            });
        }
    }
    // NHT conservation
    let addrs: BTreeSet<IpAddr> = w.nht.keys().chain(nht_expect.keys()).cloned().collect();
    for a in addrs {
        let got = w.nht.get(&a).copied().unwrap_or(0);
        let want = nht_expect.get(&a).copied().unwrap_or(0);
        if got != want {
            return Some(Check {
                clause: if got > want {
                    "nht/leaked-registration"
                } else {
                    "nht/missing-registration"
                },
                detail: format!(
                    "next hop {}: {} registrations outstanding, {} peer-learned paths use it",
                    a, got, want
                ),
            });
        }
    }
    None
}

struct Outcome {
    failure: Option<(String, String, usize)>,
    applied: BTreeMap<&'static str, u64>,
    requests: u64,
    checks: u64,
    ecmp_sets: u64,
    vrf_routes: u64,
}

fn run_history(shards: usize, with_vrfs: bool, ops: &[Op]) -> Outcome {
    let mut w = World::new(shards, with_vrfs);
    let mut out = Outcome {
        failure: None,
        applied: BTreeMap::new(),
        requests: 0,
        checks: 0,
        ecmp_sets: 0,
        vrf_routes: 0,
    };
    for (i, op) in ops.iter().enumerate() {
        if !w.apply(op) {
            continue;
        }
        *out.applied.entry(op.kind()).or_insert(0) += 1;
        let mut neg = None;
        w.drain(&mut neg);
        out.checks += 1;
        if let Some(a) = neg {
            out.failure = Some((
                "nht/negative".into(),
                format!("registrations for {} went negative", a),
                i,
            ));
            break;
        }
        if let Some(c) = check(&w, with_vrfs) {
            out.failure = Some((c.clause.to_string(), c.detail, i));
            break;
        }
        out.ecmp_sets += w.fib.values().filter(|v| v.len() > 1).count() as u64;
        out.vrf_routes += w.fib.keys().filter(|k| k.0 != 0).count() as u64;
    }
    out.requests = w.requests;
    out
}

#[test]
fn run() {
    let params = Params::from_args_env();
    let mut rep = Report::new("C20", &params);
    let mut rng = Rng::new(params.seed ^ 0xC20);
    let n = params.n(1500, 40000);
    for hist_idx in 0..n {
        if !rep.in_budget() {
            break;
        }
        let shards = *rng.pick(&[1usize, 2, 4]);
        let with_vrfs = rng.chance(2, 3);
        let len = rng.range(5, 50) as usize;
        let ops = gen_ops(&mut rng, len);
        let out = run_history(shards, with_vrfs, &ops);
        rep.eval();
        rep.count("histories");
        rep.count_n("requests-folded", out.requests);
        rep.count_n("checks", out.checks);
        rep.count_n("ecmp-sets-observed", out.ecmp_sets);
        rep.count_n("vrf-routes-observed", out.vrf_routes);
        for (k, v) in &out.applied {
            rep.count_n(&format!("op:{}", k), *v);
        }
        if out.ecmp_sets > 0 {
            rep.nontrivial(fnv64(
                format!("{}{}{:?}", shards, with_vrfs, ops).as_bytes(),
            ));
        }
        if let Some((clause, _detail, at)) = out.failure {
            // shrink: keep ops up to the failing one, then drop ops while the same clause fails
            let mut cur: Vec<Op> = ops[..=at].to_vec();
            let mut budget = 600;
            loop {
                let before = cur.len();
                let mut i = 0;
                while i < cur.len() && budget > 0 {
                    let mut cand = cur.clone();
                    cand.remove(i);
                    budget -= 1;
                    let o = run_history(shards, with_vrfs, &cand);
                    if o.failure.as_ref().is_some_and(|f| f.0 == clause) {
                        cur = cand;
                    } else {
                        i += 1;
                    }
                }
                if cur.len() == before || budget == 0 {
                    break;
                }
            }
            let fin = run_history(shards, with_vrfs, &cur);
            let detail = fin.failure.map(|f| f.1).unwrap_or_default();
            let last = cur.last().map(|o| o.kind()).unwrap_or("none");
            let sig = format!("C20/{}/after-{}", clause, last);
            rep.violation(
                &sig,
                &format!("replayed FIB / next-hop tracking requests disagree with the RIB ({}) after a {}", clause, last),
                Json::obj(vec![
                    ("shards", Json::Int(shards as i128)),
                    ("vrfs", Json::Bool(with_vrfs)),
                    ("minimal_ops", Json::strs(cur.iter().map(|o| format!("{:?}", o)))),
                    ("detail", Json::s(detail)),
                    ("shard_seed", Json::Int(params.seed as i128)),
                    ("history_index", Json::Int(hist_idx as i128)),
                ]),
            );
        } else if rep.want_sample() && out.ecmp_sets > 0 {
            rep.sample(Json::obj(vec![
                ("shards", Json::Int(shards as i128)),
                ("vrfs", Json::Bool(with_vrfs)),
                (
                    "ops",
                    Json::strs(ops.iter().take(20).map(|o| format!("{:?}", o))),
                ),
                ("requests_folded", Json::Int(out.requests as i128)),
                ("checks", Json::Int(out.checks as i128)),
            ]));
        }
    }
    let _ = rep.finish();
}

// ----------------------------------------------------------------------------------
// Concurrent part: the same oracle at quiescent points of multi-threaded histories.
//
// The daemon runs one task per session on a multi-threaded runtime, and the next-hop
// reachability reports arrive on the event loop: `insert_route` / `remove_route` /
// `unregister_peer` / `soft_reset_in` of different sessions and `update_nexthop_validity`
// really do overlap.  Here one thread per session applies that session's operations,
// one thread delivers the reachability reports (serialised among themselves, as in the
// event loop), one applies import-policy changes + soft resets; the delay-injection hooks
// of table_manager.rs (between critical sections only) widen the windows.  When all
// threads have finished, the request stream is folded and the sequential oracle is applied,
// plus the converse of the exclusion clause (a path whose next hop is reachable again is
// eligible again).

#[derive(Clone, Debug)]
enum COp {
    Session(usize, Op),
    Kernel(Op),
    Control(Op),
}

/// per destination: how many unfiltered paths have a next hop that is currently reachable
fn reachable_unfiltered(w: &World) -> BTreeMap<String, usize> {
    let mut out = BTreeMap::new();
    for f in [Fam::V4, Fam::V6, Fam::Vpn4] {
        for shard in &w.tables.shards {
            let s = shard.lock().unwrap();
            for r in s.rtable.iter_reach_post(family(f)) {
                let ok = r.nexthop.is_none_or(|n| !w.unreachable.contains(&n.addr()));
                let e = out.entry(format!("{}", r.net.nlri)).or_insert(0);
                if ok {
                    *e += 1;
                }
            }
        }
    }
    out
}

fn check_converse(w: &World) -> Option<Check> {
    let want = reachable_unfiltered(w);
    let mut got: BTreeMap<String, usize> = BTreeMap::new();
    for f in [Fam::V4, Fam::V6, Fam::Vpn4] {
        for ch in w.tables.collect_loc_rib_paths(family(f)) {
            got.insert(format!("{}", ch.net), ch.current_paths.len());
        }
    }
    for (net, n) in &want {
        let g = got.get(net).copied().unwrap_or(0);
        if g < *n {
            return Some(Check {
                clause: "exclusion/reachable-path-excluded",
                detail: format!(
                    "{}: {} unfiltered paths have a reachable next hop but only {} are eligible",
                    net, n, g
                ),
            });
        }
    }
    None
}

struct ConcOutcome {
    failure: Option<(String, String)>,
    hits: u64,
    sched: u64,
    applied: u64,
    reports: u64,
    requests: u64,
    overlap: bool,
}

fn run_conc_history(
    shards: usize,
    with_vrfs: bool,
    pre: &[Op],
    plan: &[Vec<COp>],
    seed: u64,
    intensity: u32,
) -> ConcOutcome {
    use std::sync::Mutex;
    use std::sync::atomic::{AtomicU64, Ordering};
    let mut w = World::new(shards, with_vrfs);
    for op in pre {
        w.apply(op);
    }
    let tables = w.tables.clone();
    let attrs = w.attrs.clone();
    let imp = w.imp.clone();
    let sources: Vec<_> = w
        .sources
        .iter()
        .map(|m| Arc::new(Mutex::new(m.clone())))
        .collect();
    let unreachable = Arc::new(Mutex::new(w.unreachable.clone()));
    let ts = Arc::new(AtomicU64::new(w.ts as u64 + 1));
    let applied = Arc::new(AtomicU64::new(0));
    let reports = Arc::new(AtomicU64::new(0));
    let running = Arc::new(AtomicU64::new(0));
    let overlap = Arc::new(AtomicU64::new(0));
    crate::verif_hooks::install(seed, intensity);
    let mut handles = Vec::new();
    for (ti, ops) in plan.iter().enumerate() {
        let ops = ops.clone();
        let tables = tables.clone();
        let attrs = attrs.clone();
        let imp = imp.clone();
        let sources = sources.clone();
        let unreachable = unreachable.clone();
        let ts = ts.clone();
        let applied = applied.clone();
        let reports = reports.clone();
        let running = running.clone();
        let overlap = overlap.clone();
        handles.push(std::thread::spawn(move || {
            crate::verif_hooks::set_thread_id(1 + ti as u32);
            if running.fetch_add(1, Ordering::SeqCst) > 0 {
                overlap.fetch_add(1, Ordering::SeqCst);
            }
            for cop in ops {
                let t = ts.fetch_add(1, Ordering::SeqCst) as u32;
                match cop {
                    COp::Session(
                        p,
                        Op::Announce {
                            fam,
                            pfx,
                            pid,
                            attr,
                            nh,
                            ..
                        },
                    ) => {
                        let src = sources[p].lock().unwrap()[&fam].clone();
                        tables.insert_route(
                            src,
                            family(fam),
                            packet::PathNlri {
                                path_id: pid,
                                nlri: prefix(fam, pfx),
                            },
                            Some(nexthop(fam, nh)),
                            attrs[attr].clone(),
                            None,
                            t,
                        );
                    }
                    COp::Session(p, Op::Withdraw { fam, pfx, pid, .. }) => {
                        let src = sources[p].lock().unwrap()[&fam].clone();
                        tables.remove_route(
                            src,
                            family(fam),
                            packet::PathNlri {
                                path_id: pid,
                                nlri: prefix(fam, pfx),
                            },
                            None,
                            t,
                        );
                    }
                    COp::Session(p, Op::PeerDown { .. }) => {
                        tables.unregister_peer(
                            peer_addr(p),
                            &[Family::IPV4, Family::IPV6, Family::IPV4_VPN],
                            &[],
                        );
                        *sources[p].lock().unwrap() = new_sources(p);
                    }
                    COp::Kernel(Op::NhReport { fam, nh, reachable }) => {
                        let a = nexthop(fam, nh).addr();
                        {
                            let mut u = unreachable.lock().unwrap();
                            if reachable {
                                u.remove(&a);
                            } else {
                                u.insert(a);
                            }
                        }
                        tables.update_nexthop_validity(a, reachable);
                        reports.fetch_add(1, Ordering::SeqCst);
                    }
                    COp::Control(Op::ImportPolicy { idx, peer }) => {
                        tables.import_policy.store(imp[idx % imp.len()].clone());
                        tables.soft_reset_in(peer_addr(peer));
                    }
                    _ => continue,
                }
                applied.fetch_add(1, Ordering::SeqCst);
            }
            running.fetch_sub(1, Ordering::SeqCst);
        }));
    }
    for h in handles {
        let _ = h.join();
    }
    let (hits, log) = crate::verif_hooks::uninstall();
    // distinct (thread, point) alternations seen: a cheap measure of interleaving
    let sched = log.windows(2).filter(|p| p[0].0 != p[1].0).count() as u64;
    w.unreachable = unreachable.lock().unwrap().clone();
    let mut neg = None;
    w.drain(&mut neg);
    let mut failure = None;
    if let Some(a) = neg {
        failure = Some((
            "nht/negative".to_string(),
            format!("registrations for {} went negative", a),
        ));
    } else if let Some(c) = check(&w, with_vrfs) {
        failure = Some((c.clause.to_string(), c.detail));
    } else if let Some(c) = check_converse(&w) {
        failure = Some((c.clause.to_string(), c.detail));
    }
    ConcOutcome {
        failure,
        hits,
        sched,
        applied: applied.load(Ordering::SeqCst),
        reports: reports.load(Ordering::SeqCst),
        requests: w.requests,
        overlap: overlap.load(Ordering::SeqCst) > 0,
    }
}

fn gen_conc_plan(rng: &mut Rng) -> Vec<Vec<COp>> {
    let fams = [Fam::V4, Fam::V4, Fam::V6, Fam::Vpn4];
    let mut plan: Vec<Vec<COp>> = Vec::new();
    // few prefixes, few next hops: the races need the same destination / address
    let npfx = rng.range(1, 3) as usize;
    for p in 0..N_PEERS {
        let n = rng.range(2, 12) as usize;
        plan.push(
            (0..n)
                .map(|_| {
                    let fam = *rng.pick(&fams);
                    let k = rng.below(100);
                    if k < 70 {
                        COp::Session(
                            p,
                            Op::Announce {
                                peer: p,
                                fam,
                                pfx: rng.usize(npfx),
                                pid: rng.below(2) as u32,
                                attr: rng.usize(5),
                                nh: rng.usize(2),
                            },
                        )
                    } else if k < 92 {
                        COp::Session(
                            p,
                            Op::Withdraw {
                                peer: p,
                                fam,
                                pfx: rng.usize(npfx),
                                pid: rng.below(2) as u32,
                            },
                        )
                    } else {
                        COp::Session(p, Op::PeerDown { peer: p })
                    }
                })
                .collect(),
        );
    }
    let n = rng.range(1, 8) as usize;
    plan.push(
        (0..n)
            .map(|_| {
                COp::Kernel(Op::NhReport {
                    fam: *rng.pick(&fams),
                    nh: rng.usize(2),
                    reachable: rng.chance(1, 2),
                })
            })
            .collect(),
    );
    if rng.chance(1, 2) {
        let n = rng.range(1, 4) as usize;
        plan.push(
            (0..n)
                .map(|_| {
                    COp::Control(Op::ImportPolicy {
                        idx: rng.usize(3),
                        peer: rng.usize(N_PEERS),
                    })
                })
                .collect(),
        );
    }
    plan
}

#[test]
fn run_conc() {
    let params = Params::from_args_env();
    let mut rep = Report::new("C20", &params);
    let mut rng = Rng::new(params.seed ^ 0xC20C);
    // `histories=N` caps the run (Miri executes a few histories per process)
    let n = params.get_u64("histories", params.n(1500, 60000));
    for hist_idx in 0..n {
        if !rep.in_budget() {
            break;
        }
        let shards = *rng.pick(&[2usize, 4]);
        let with_vrfs = rng.chance(1, 3);
        let npre = rng.range(0, 8) as usize;
        let pre: Vec<Op> = gen_ops(&mut rng, npre)
            .into_iter()
            .filter(|o| {
                matches!(
                    o,
                    Op::Announce { .. } | Op::Withdraw { .. } | Op::NhReport { .. }
                )
            })
            .collect();
        let plan = gen_conc_plan(&mut rng);
        let hseed = rng.next_u64();
        let intensity = *rng.pick(&[0u32, 30, 60, 90]);
        let out = run_conc_history(shards, with_vrfs, &pre, &plan, hseed, intensity);
        rep.eval();
        rep.count("conc:histories");
        rep.count_n("conc:ops-applied", out.applied);
        rep.count_n("conc:nexthop-reports", out.reports);
        rep.count_n("conc:sched-points-hit", out.hits);
        rep.count_n("conc:thread-alternations-at-points", out.sched);
        rep.count_n("requests-folded", out.requests);
        if out.overlap {
            rep.count("conc:histories-with-overlapping-threads");
        }
        if out.sched > 2 {
            rep.nontrivial(fnv64(
                format!("{}{}{:?}{:?}{}", shards, with_vrfs, pre, plan, hseed).as_bytes(),
            ));
        }
        if let Some((clause, detail)) = out.failure {
            // how often does the same plan fail?  (the interleaving is not replayable
            // deterministically; the rate tells how narrow the window is)
            let mut again = 0;
            for k in 0..10 {
                let o = run_conc_history(
                    shards,
                    with_vrfs,
                    &pre,
                    &plan,
                    hseed.wrapping_add(k),
                    intensity.max(60),
                );
                if o.failure.as_ref().is_some_and(|f| f.0 == clause) {
                    again += 1;
                }
            }
            // does it also fail when the threads' operations are applied one thread after another?
            let seq_plan: Vec<Vec<COp>> = vec![plan.iter().flatten().cloned().collect()];
            let seq = run_conc_history(shards, with_vrfs, &pre, &seq_plan, hseed, 0);
            let kind = if seq.failure.as_ref().is_some_and(|f| f.0 == clause) {
                "sequential-too"
            } else {
                "needs-overlap"
            };
            let sig = format!("C20/conc/{}/{}", clause, kind);
            rep.violation(
                &sig,
                &format!(
                    "at a quiescent point after concurrent session / next-hop-report / soft-reset threads, the replayed FIB or next-hop tracking state disagrees with the RIB ({})",
                    clause
                ),
                Json::obj(vec![
                    ("shards", Json::Int(shards as i128)),
                    ("vrfs", Json::Bool(with_vrfs)),
                    ("pre_ops", Json::strs(pre.iter().map(|o| format!("{:?}", o)))),
                    ("threads", Json::arr(plan.iter().map(|t| Json::strs(t.iter().map(|o| format!("{:?}", o)))))),
                    ("detail", Json::s(detail)),
                    ("delay_seed", Json::Int(hseed as i128)),
                    ("intensity", Json::Int(intensity as i128)),
                    ("reproduced_in_10_reruns", Json::Int(again as i128)),
                    ("shard_seed", Json::Int(params.seed as i128)),
                    ("history_index", Json::Int(hist_idx as i128)),
                ]),
            );
        } else if rep.want_sample() && out.sched > 4 {
            rep.sample(Json::obj(vec![
                ("shards", Json::Int(shards as i128)),
                (
                    "threads",
                    Json::arr(
                        plan.iter()
                            .map(|t| Json::strs(t.iter().take(6).map(|o| format!("{:?}", o)))),
                    ),
                ),
                ("sched_points_hit", Json::Int(out.hits as i128)),
                ("thread_alternations", Json::Int(out.sched as i128)),
                ("requests_folded", Json::Int(out.requests as i128)),
            ]));
        }
    }
    let _ = rep.finish();
}
