//! C15 — route counters and prefix limits always match the RIB's real contents.
//!
//! Workload: a real `table::Table` driven by random *peer-level* histories
//! (session up / announce / withdraw / soft-reset-in / session down / GR restart
//! timer / LLGR timers / End-of-RIB) for 3 peers sharing 5 prefixes in each of 2
//! families.  The executor below turns every event into exactly the `Table`
//! calls the daemon makes for it (`daemon/src/event/mod.rs` session_loop /
//! apply_disconnect / GR effects, `daemon/src/table_manager.rs`, the helper-side
//! state machine of `daemon/src/gr.rs`), so only call sequences the daemon can
//! produce are judged.  Events that are not enabled in the current state are
//! ignored, which makes every sub-sequence of a history a valid history (used by
//! the delta-debugging shrinker).
//!
//! Oracle (after EVERY table call): a recount of
//! `destinations(Global, family, vec![], enable_filtered = true)`:
//!   received(peer)  = distinct prefixes with >= 1 path from the peer address
//!   accepted(peer)  = unfiltered paths from the peer address
//!   num_destination = prefixes with >= 1 path, num_path = paths,
//!   num_accepted    = unfiltered paths
//!   limit counter   = distinct prefixes with >= 1 path carrying the live
//!                     session's own `Arc<Source>` (the only per-session quantity a
//!                     recount of the RIB can give)
//! compared with `Table::state`, `Table::peer_stats` and the session's AtomicU64.
//! A call is blamed when it changes the difference (observed - recount) of a
//! counter to a non-zero value, so a discrepancy is reported once, at the call
//! that introduced it, and a call that repairs one (e.g. `drop` resetting the
//! peer's stats) is not blamed.
use rbgp_verif::common::*;
use rustybgp_packet::bgp::{Family, Ipv4Net, Ipv6Net, Nexthop};
use rustybgp_packet::{Attribute, Nlri};
use rustybgp_table as table;
use std::collections::BTreeMap;
use std::net::{IpAddr, Ipv4Addr, Ipv6Addr};
use std::sync::Arc;
use std::sync::atomic::{AtomicU64, Ordering};
use table::{InsertResult, PeerRole, Source, Table, TableQuery};

const NPEER: usize = 3;
const NPFX: usize = 5;
const NFAM: usize = 2;
const FAMS: [Family; NFAM] = [Family::IPV4, Family::IPV6];
const FAM_NAME: [&str; NFAM] = ["ipv4", "ipv6"];
const PEER_NAME: [&str; NPEER] = ["A", "B", "C"];
const UNDERFLOW: u64 = 1 << 63;

// ------------------------------------------------------------------ universe

fn net(f: usize, x: usize) -> Nlri {
    if f == 0 {
        Nlri::V4(Ipv4Net {
            addr: Ipv4Addr::new(10, 0, x as u8, 0),
            mask: 24,
        })
    } else {
        Nlri::V6(Ipv6Net {
            addr: Ipv6Addr::new(0x2001, 0xdb8, x as u16, 0, 0, 0, 0, 0),
            mask: 48,
        })
    }
}

fn net_str(f: usize, x: usize) -> String {
    if f == 0 {
        format!("10.0.{}.0/24", x)
    } else {
        format!("2001:db8:{:x}::/48", x)
    }
}

fn peer_addr(p: usize) -> IpAddr {
    IpAddr::V4(Ipv4Addr::new(192, 0, 2, 1 + p as u8))
}

fn nexthop(f: usize, p: usize) -> Option<Nexthop> {
    Some(if f == 0 {
        Nexthop::V4(Ipv4Addr::new(192, 0, 2, 1 + p as u8))
    } else {
        Nexthop::V6(Ipv6Addr::new(0x2001, 0xdb8, 0xffff, 0, 0, 0, 0, 1 + p as u16))
    })
}

const ATTR_NAME: [&str; 4] = ["plain", "NO_LLGR", "local-pref-200", "LLGR_STALE"];

fn attr_table() -> Vec<Arc<Vec<Attribute>>> {
    let origin = || Attribute::new_with_value(Attribute::ORIGIN, 0).unwrap();
    let comm = |c: u32| Attribute::new_with_bin(Attribute::COMMUNITY, c.to_be_bytes().to_vec()).unwrap();
    vec![
        Arc::new(vec![origin(), Attribute::empty_as_path()]),
        Arc::new(vec![origin(), Attribute::empty_as_path(), comm(0xffff_0007)]),
        Arc::new(vec![
            origin(),
            Attribute::empty_as_path(),
            Attribute::new_with_value(Attribute::LOCAL_PREF, 200).unwrap(),
        ]),
        Arc::new(vec![origin(), Attribute::empty_as_path(), comm(0xffff_0006)]),
    ]
}

// ------------------------------------------------------------------ histories

/// Peer-level events.  `gr` / `llgr` are bit masks over the two families
/// (what the session negotiates).
#[derive(Clone, Copy, Debug, PartialEq, Eq)]
enum Ev {
    Up {
        p: u8,
        gr: u8,
        llgr: u8,
    },
    Ann {
        p: u8,
        f: u8,
        x: u8,
        pid: u8,
        filt: bool,
        nhinv: bool,
        attr: u8,
    },
    Wd {
        p: u8,
        f: u8,
        x: u8,
        pid: u8,
    },
    /// soft reset IN: every non-stale path of the peer is re-inserted with a new
    /// import-policy verdict (bit of `salt` chosen per path), no prefix limit
    Soft {
        p: u8,
        salt: u32,
    },
    /// session down; `io` = TCP/IO error (GR always applies), otherwise a CEASE
    /// notification (GR applies only when the N-bit was negotiated)
    Down {
        p: u8,
        io: bool,
    },
    GrTimer {
        p: u8,
    },
    LlgrTimer {
        p: u8,
        f: u8,
    },
    Eor {
        p: u8,
        f: u8,
    },
}

fn mask_str(m: u8) -> &'static str {
    ["-", "ipv4", "ipv6", "ipv4+ipv6"][(m & 3) as usize]
}

fn ev_str(e: &Ev) -> String {
    match *e {
        Ev::Up { p, gr, llgr } => format!("up {} gr={} llgr={}", PEER_NAME[p as usize], mask_str(gr), mask_str(llgr)),
        Ev::Ann {
            p,
            f,
            x,
            pid,
            filt,
            nhinv,
            attr,
        } => format!(
            "announce {} {} pid={}{}{} attrs={}",
            PEER_NAME[p as usize],
            net_str(f as usize, x as usize),
            pid,
            if filt { " import-rejected" } else { "" },
            if nhinv { " nexthop-invalid" } else { "" },
            ATTR_NAME[attr as usize]
        ),
        Ev::Wd { p, f, x, pid } => format!("withdraw {} {} pid={}", PEER_NAME[p as usize], net_str(f as usize, x as usize), pid),
        Ev::Soft { p, salt } => format!("soft-reset-in {} salt={:#x}", PEER_NAME[p as usize], salt),
        Ev::Down { p, io } => format!(
            "down {} reason={}",
            PEER_NAME[p as usize],
            if io { "io-error" } else { "cease-notification" }
        ),
        Ev::GrTimer { p } => format!("gr-restart-timer-expired {}", PEER_NAME[p as usize]),
        Ev::LlgrTimer { p, f } => format!("llgr-timer-expired {} {}", PEER_NAME[p as usize], FAM_NAME[f as usize]),
        Ev::Eor { p, f } => format!("end-of-rib {} {}", PEER_NAME[p as usize], FAM_NAME[f as usize]),
    }
}

#[derive(Clone, Copy, Debug, PartialEq, Eq)]
struct PeerCfg {
    /// PeerConfig::prefix_limits, per family
    max: [Option<u32>; NFAM],
    /// RFC 8538 N-bit negotiated (GR also applies to CEASE notifications)
    nbit: bool,
}

#[derive(Clone, Copy, Debug, PartialEq, Eq)]
struct HistCfg {
    peers: [PeerCfg; NPEER],
}

fn cfg_json(c: &HistCfg) -> Json {
    Json::arr(c.peers.iter().enumerate().map(|(i, p)| {
        Json::s(format!(
            "peer {} addr={} max-prefixes ipv4={:?} ipv6={:?} n-bit={}",
            PEER_NAME[i],
            peer_addr(i),
            p.max[0],
            p.max[1],
            p.nbit
        ))
    }))
}

// ------------------------------------------------------------------ RIB recount

#[derive(Clone, Debug, PartialEq, Eq)]
struct PathInfo {
    peer: u8,
    /// session generation of the `Arc<Source>` the entry carries
    sgen: u32,
    pid: u32,
    filtered: bool,
    stale: bool,
}

#[derive(Clone, Default, PartialEq, Eq)]
struct Snap {
    /// [family][prefix index] -> paths, sorted by (peer, pid)
    d: [Vec<Vec<PathInfo>>; NFAM],
}

impl Snap {
    fn empty() -> Snap {
        Snap {
            d: [vec![Vec::new(); NPFX], vec![Vec::new(); NPFX]],
        }
    }
    fn received(&self, p: usize, f: usize) -> u64 {
        self.d[f].iter().filter(|ps| ps.iter().any(|q| q.peer as usize == p)).count() as u64
    }
    fn accepted(&self, p: usize, f: usize) -> u64 {
        self.d[f]
            .iter()
            .map(|ps| ps.iter().filter(|q| q.peer as usize == p && !q.filtered).count() as u64)
            .sum()
    }
    fn totals(&self, f: usize) -> [u64; 3] {
        let nd = self.d[f].iter().filter(|ps| !ps.is_empty()).count() as u64;
        let np: u64 = self.d[f].iter().map(|ps| ps.len() as u64).sum();
        let na: u64 = self.d[f].iter().map(|ps| ps.iter().filter(|q| !q.filtered).count() as u64).sum();
        [nd, np, na]
    }
    fn by_session(&self, p: usize, sgen: u32, f: usize) -> u64 {
        self.d[f]
            .iter()
            .filter(|ps| ps.iter().any(|q| q.peer as usize == p && q.sgen == sgen))
            .count() as u64
    }
    fn by_session_unfiltered(&self, p: usize, sgen: u32, f: usize) -> u64 {
        self.d[f]
            .iter()
            .filter(|ps| ps.iter().any(|q| q.peer as usize == p && q.sgen == sgen && !q.filtered))
            .count() as u64
    }
    fn digest(&self, out: &mut Vec<u8>) {
        for f in 0..NFAM {
            for x in 0..NPFX {
                for q in &self.d[f][x] {
                    out.extend_from_slice(&[f as u8, x as u8, q.peer, q.sgen as u8, q.pid as u8, q.filtered as u8, q.stale as u8]);
                }
            }
        }
    }
    fn render(&self) -> Vec<String> {
        let mut v = Vec::new();
        for f in 0..NFAM {
            for x in 0..NPFX {
                if self.d[f][x].is_empty() {
                    continue;
                }
                let ps: Vec<String> = self.d[f][x]
                    .iter()
                    .map(|q| {
                        format!(
                            "{}#{} pid={}{}{}",
                            PEER_NAME[q.peer as usize],
                            q.sgen,
                            q.pid,
                            if q.filtered { " filtered" } else { "" },
                            if q.stale { " stale" } else { "" }
                        )
                    })
                    .collect();
                v.push(format!("{}: {}", net_str(f, x), ps.join(", ")));
            }
        }
        v
    }
}

// ------------------------------------------------------------------ executor

/// A counter that wrapped below zero (release arithmetic / AtomicU64::fetch_sub)
/// is read as the negative number it stands for.
fn signed(v: u64) -> i128 {
    if v >= UNDERFLOW { v as i64 as i128 } else { v as i128 }
}

/// `old` / `new` = (observed - recount) before / after a call.  The call is blamed
/// when it pushes the difference away from zero (or across it); a call that moves
/// an existing difference towards zero repairs an earlier error and is not blamed.
fn blame(old: i128, new: i128) -> bool {
    (new > old && new > 0) || (new < old && new < 0)
}

struct Sess {
    sgen: u32,
    src: [Arc<Source>; NFAM],
    ctr: [Option<(u32, Arc<AtomicU64>)>; NFAM],
    gr: u8,
    llgr: u8,
}

/// helper-side GR state machine, transcribed from daemon/src/gr.rs (GrState)
#[derive(Clone, Copy, Debug, PartialEq, Eq)]
enum Gr {
    Idle,
    Restarting { stale: u8, llgr: u8 },
    LlgrStaling { remaining: u8 },
    Reconnected { pending: u8, from_llgr: bool },
}

struct Peer {
    sess: Option<Sess>,
    next_gen: u32,
    gr: Gr,
    gr_timer: bool,
    llgr_timers: u8,
}

struct Finding {
    sig: String,
    what: String,
    step: usize,
    detail: String,
}

struct Exec {
    t: Table,
    cfg: HistCfg,
    attrs: Vec<Arc<Vec<Attribute>>>,
    peers: Vec<Peer>,
    /// every Source ever created in this history (kept alive so that pointer
    /// identity stays unambiguous): (ptr, peer, generation)
    srcs: Vec<(Arc<Source>, u8, u32)>,
    snap: Snap,
    // observed - recount, per counter, after the previous call
    d_state: [[i128; 3]; NFAM],
    d_stats: [[[i128; 2]; NFAM]; NPEER],
    d_limit: [[i128; NFAM]; NPEER],
    over_max: [[bool; NFAM]; NPEER],
    trace: Vec<String>,
    findings: Vec<Finding>,
    counts: BTreeMap<String, u64>,
    evals: u64,
    hashes: Vec<u64>,
    dead: bool,
    ts: u32,
}

fn fam_bits(m: u8) -> impl Iterator<Item = usize> {
    (0..NFAM).filter(move |f| m & (1 << f) != 0)
}

impl Exec {
    fn new(cfg: HistCfg, attrs: &[Arc<Vec<Attribute>>]) -> Exec {
        Exec {
            t: Table::new(0),
            cfg,
            attrs: attrs.to_vec(),
            peers: (0..NPEER)
                .map(|_| Peer {
                    sess: None,
                    next_gen: 1,
                    gr: Gr::Idle,
                    gr_timer: false,
                    llgr_timers: 0,
                })
                .collect(),
            srcs: Vec::new(),
            snap: Snap::empty(),
            d_state: [[0; 3]; NFAM],
            d_stats: [[[0; 2]; NFAM]; NPEER],
            d_limit: [[0; NFAM]; NPEER],
            over_max: [[false; NFAM]; NPEER],
            trace: Vec::new(),
            findings: Vec::new(),
            counts: BTreeMap::new(),
            evals: 0,
            hashes: Vec::new(),
            dead: false,
            ts: 0,
        }
    }

    fn count(&mut self, k: &str) {
        *self.counts.entry(k.to_string()).or_insert(0) += 1;
    }

    fn finding(&mut self, sig: String, what: String, detail: String) {
        let step = self.trace.len();
        self.findings.push(Finding { sig, what, step, detail });
    }

    /// Recount the RIB through its own read accessor.
    fn recount(&self) -> Result<Snap, String> {
        let mut s = Snap::empty();
        for f in 0..NFAM {
            for de in self.t.destinations(TableQuery::Global, FAMS[f], vec![], true) {
                let x = (0..NPFX)
                    .find(|x| net(f, *x) == de.net)
                    .ok_or_else(|| format!("unknown prefix {:?} in RIB", de.net))?;
                if !s.d[f][x].is_empty() {
                    return Err(format!("prefix {} listed twice", net_str(f, x)));
                }
                for pe in de.paths.iter() {
                    let p = (0..NPEER)
                        .find(|p| peer_addr(*p) == pe.source.remote_addr)
                        .ok_or_else(|| format!("unknown peer address {}", pe.source.remote_addr))?;
                    let sgen = self
                        .srcs
                        .iter()
                        .find(|(a, _, _)| Arc::ptr_eq(a, &pe.source))
                        .map(|(_, _, g)| *g)
                        .ok_or_else(|| "path carries a Source the harness never created".to_string())?;
                    s.d[f][x].push(PathInfo {
                        peer: p as u8,
                        sgen,
                        pid: pe.remote_path_id,
                        filtered: pe.filtered,
                        stale: pe.stale,
                    });
                }
                s.d[f][x].sort_by_key(|q| (q.peer, q.pid, q.sgen));
            }
        }
        Ok(s)
    }

    /// Compare every counter with the recount; blame `kind` for every counter
    /// whose (observed - recount) it changed to a non-zero value.
    fn judge(&mut self, kind: &str, call: String, effective_hint: bool) {
        self.evals += 1;
        self.count(&format!("op:{}", kind));
        let new = match guard(|| self.recount()) {
            Ok(Ok(s)) => s,
            Ok(Err(e)) => {
                self.trace.push(call);
                self.finding("C15/harness/recount".into(), format!("harness: {}", e), String::new());
                self.dead = true;
                return;
            }
            Err(p) => {
                self.trace.push(call);
                let sig = format!("C15/panic/{}:{}", p.location, panic_class(&p.message));
                self.finding(
                    sig,
                    format!("Table::destinations panicked at {}: {}", p.location, p.message),
                    String::new(),
                );
                self.dead = true;
                return;
            }
        };
        let changed = new != self.snap;
        // distinct non-trivial case: the call changed the RIB or hit the limit
        if changed || effective_hint {
            let mut key = Vec::with_capacity(256);
            self.snap.digest(&mut key);
            key.push(0xff);
            key.extend_from_slice(call.as_bytes());
            self.hashes.push(fnv64(&key));
            self.count("steps-effective");
        }
        self.trace.push(call);

        let mut notes: Vec<(String, String, String)> = Vec::new();
        // --- table totals
        for f in 0..NFAM {
            let st = match guard(|| self.t.state(FAMS[f])) {
                Ok(s) => s,
                Err(p) => {
                    let sig = format!("C15/panic/{}:{}", p.location, panic_class(&p.message));
                    self.finding(
                        sig,
                        format!("Table::state panicked at {}: {}", p.location, p.message),
                        String::new(),
                    );
                    self.dead = true;
                    return;
                }
            };
            let got = [st.num_destination as u64, st.num_path as u64, st.num_accepted as u64];
            let want = new.totals(f);
            for (i, name) in ["num_destination", "num_path", "num_accepted"].iter().enumerate() {
                let d = signed(got[i]) - want[i] as i128;
                let old = self.d_state[f][i];
                if blame(old, d) {
                    let over = d > old;
                    let sig = if i == 0 && over {
                        format!("C15/destinations/empty-counted/{}", kind)
                    } else {
                        format!("C15/{}/{}/{}", name, if over { "over" } else { "under" }, kind)
                    };
                    let what = if i == 0 && over {
                        format!("after {}: Table::state().num_destination counts a prefix that holds no path", kind)
                    } else {
                        format!(
                            "after {}: Table::state().{} is {} than a recount of the RIB",
                            kind,
                            name,
                            if over { "higher" } else { "lower" }
                        )
                    };
                    notes.push((
                        sig,
                        what,
                        format!("{} state().{} observed={} recount={}", FAM_NAME[f], name, got[i], want[i]),
                    ));
                }
                self.d_state[f][i] = d;
            }
        }
        // --- per-peer received / accepted
        for p in 0..NPEER {
            let addr = peer_addr(p);
            let mut got = [[0u64; 2]; NFAM];
            if let Some(it) = self.t.peer_stats(&addr) {
                for (fam, s) in it {
                    if let Some(f) = FAMS.iter().position(|x| *x == fam) {
                        got[f] = [s.received, s.accepted];
                    }
                }
            }
            for f in 0..NFAM {
                let want = [new.received(p, f), new.accepted(p, f)];
                for (i, name) in ["received", "accepted"].iter().enumerate() {
                    let d = signed(got[f][i]) - want[i] as i128;
                    let old = self.d_stats[p][f][i];
                    if blame(old, d) {
                        let over = d > old;
                        // below zero now, and not below zero before this call
                        let prev_obs = old
                            + if i == 0 {
                                self.snap.received(p, f)
                            } else {
                                self.snap.accepted(p, f)
                            } as i128;
                        let (dir, how) = if signed(got[f][i]) < 0 && prev_obs >= 0 {
                            ("underflow", "wrapped below zero")
                        } else if over {
                            ("over", "higher than a recount of the RIB")
                        } else {
                            ("under", "lower than a recount of the RIB")
                        };
                        notes.push((
                            format!("C15/{}/{}/{}", name, dir, kind),
                            format!("after {}: peer_stats().{} is {}", kind, name, how),
                            format!(
                                "peer {} {} {} observed={} recount={}",
                                PEER_NAME[p], FAM_NAME[f], name, got[f][i], want[i]
                            ),
                        ));
                    }
                    self.d_stats[p][f][i] = d;
                }
            }
        }
        // --- per-session limit counters
        let mut judged_limit = false;
        let mut at_max = 0u32;
        let mut consequence = 0u32;
        for p in 0..NPEER {
            let Some(sess) = &self.peers[p].sess else { continue };
            for f in 0..NFAM {
                let Some((max, ctr)) = &sess.ctr[f] else { continue };
                judged_limit = true;
                let got = ctr.load(Ordering::Relaxed);
                let want = new.by_session(p, sess.sgen, f);
                let d = signed(got) - want as i128;
                let old = self.d_limit[p][f];
                if blame(old, d) {
                    let prev_obs = old + self.snap.by_session(p, sess.sgen, f) as i128;
                    let (dir, how) = if signed(got) < 0 && prev_obs >= 0 {
                        (
                            "counter-underflow",
                            "wrapped below zero (every later new prefix will report the limit)",
                        )
                    } else if d > old {
                        ("counter-over", "higher than the number of prefixes the RIB holds for that session")
                    } else {
                        ("counter-under", "lower than the number of prefixes the RIB holds for that session")
                    };
                    notes.push((
                        format!("C15/limit/{}/{}", dir, kind),
                        format!("after {}: the session's prefix-limit counter is {}", kind, how),
                        format!(
                            "peer {} session #{} {} limit counter observed={} recount(prefixes with a path of this session)={} recount(prefixes with a path from the peer address)={} max={}",
                            PEER_NAME[p],
                            sess.sgen,
                            FAM_NAME[f],
                            got,
                            want,
                            new.received(p, f),
                            max
                        ),
                    ));
                }
                self.d_limit[p][f] = d;
                // prefixes accepted from the live session above max although the limit
                // was never signalled to it (a signalled session is torn down at once)
                let unf = new.by_session_unfiltered(p, sess.sgen, f);
                let over = unf > *max as u64;
                if over && !self.over_max[p][f] && d != 0 {
                    // consequence of a counter discrepancy that was already blamed on the
                    // call that introduced it
                    consequence += 1;
                } else if over && !self.over_max[p][f] {
                    notes.push((
                        format!("C15/limit/exceeded-unsignalled/{}", kind),
                        format!("after {}: the session holds more accepted prefixes than its configured maximum and PrefixLimitExceeded was never returned", kind),
                        format!("peer {} session #{} {} accepted prefixes={} max={} counter={}", PEER_NAME[p], sess.sgen, FAM_NAME[f], unf, max, got),
                    ));
                }
                self.over_max[p][f] = over;
                if got == *max as u64 {
                    at_max += 1;
                }
            }
        }
        if judged_limit {
            self.count("judged:limit-counter");
        }
        if at_max > 0 {
            self.count("limit:counter-at-max");
        }
        if consequence > 0 {
            self.count("consequence:max-exceeded-unsignalled-while-counter-wrong");
        }
        // shapes reached (evidence that the interesting region was explored)
        if changed {
            let mut multi = false;
            let mut shared = false;
            let mut filt = false;
            let mut stale = false;
            let mut prev = false;
            for f in 0..NFAM {
                for ps in &new.d[f] {
                    for (i, q) in ps.iter().enumerate() {
                        filt |= q.filtered;
                        stale |= q.stale;
                        let live = self.peers[q.peer as usize].sess.as_ref().map(|s| s.sgen);
                        prev |= live.is_some() && live != Some(q.sgen);
                        for r in &ps[i + 1..] {
                            if r.peer == q.peer {
                                multi = true;
                            } else {
                                shared = true;
                            }
                        }
                    }
                }
            }
            for (b, k) in [
                (multi, "shape:addpath-multi-path-prefix"),
                (shared, "shape:prefix-shared-by-peers"),
                (filt, "shape:filtered-path-present"),
                (stale, "shape:stale-path-present"),
                (prev, "shape:prev-session-path-beside-live-session"),
            ] {
                if b {
                    self.count(k);
                }
            }
        }
        self.snap = new;
        for (sig, what, detail) in notes {
            self.finding(sig, what, detail);
        }
    }

    fn panic_finding(&mut self, call: String, func: &str, p: PanicInfo) {
        self.evals += 1;
        self.trace.push(format!("{} -> PANIC {}: {}", call, p.location, p.message));
        let sig = format!("C15/panic/{}:{}", p.location, panic_class(&p.message));
        self.finding(
            sig,
            format!("Table::{} panicked at {}: {}", func, p.location, p.message),
            String::new(),
        );
        // the table may be half-updated: nothing after a panic is judged
        self.dead = true;
    }

    #[allow(clippy::too_many_arguments)]
    fn do_insert(
        &mut self,
        kind: &str,
        p: usize,
        src: Arc<Source>,
        sgen: u32,
        f: usize,
        x: usize,
        pid: u32,
        filt: bool,
        nhinv: bool,
        attr: Arc<Vec<Attribute>>,
        attr_name: &str,
        limit: Option<(u32, Arc<AtomicU64>)>,
    ) -> bool {
        self.ts += 1;
        let ts = self.ts;
        let nh = nexthop(f, p);
        let pl = limit.as_ref().map(|(m, c)| (*m, c));
        let before = limit.as_ref().map(|(_, c)| c.load(Ordering::Relaxed));
        let r = guard(|| {
            self.t.insert(
                src.clone(),
                FAMS[f],
                net(f, x),
                pid,
                nh,
                attr.clone(),
                Some(attr.clone()),
                filt,
                nhinv,
                pl,
                ts,
            )
        });
        let call = format!(
            "insert(src={}#{}, {}, pid={}, filtered={}, nexthop_invalid={}, attrs={}, prefix_limit={})",
            PEER_NAME[p],
            sgen,
            net_str(f, x),
            pid,
            filt,
            nhinv,
            attr_name,
            match (&limit, before) {
                (Some((m, _)), Some(b)) => format!("Some(max={}, counter={})", m, b),
                _ => "None".into(),
            }
        );
        match r {
            Err(pi) => {
                self.panic_finding(call, "insert", pi);
                false
            }
            Ok(InsertResult::PrefixLimitExceeded) => {
                self.count("limit:exceeded-returned");
                if let Some((m, _)) = &limit {
                    // the session really holds fewer than max prefixes (recount before the call)
                    if self.snap.by_session(p, sgen, f) < *m as u64 {
                        // not fixed by the statement (it only bounds the other direction)
                        self.count("unjudged:limit-signalled-below-max");
                    }
                }
                self.judge("insert-limit-exceeded", format!("{} -> PrefixLimitExceeded", call), true);
                true
            }
            Ok(InsertResult::Changed(_)) => {
                self.judge(kind, format!("{} -> Changed", call), false);
                false
            }
            Ok(InsertResult::NoChange) => {
                self.judge(kind, format!("{} -> NoChange", call), false);
                false
            }
        }
    }

    fn purge(&mut self, kind: &'static str, p: usize, f: usize) {
        if self.dead {
            return;
        }
        let addr = peer_addr(p);
        let fam = FAMS[f];
        // the daemon passes prefix_counter = None to all three purges
        // (table_manager.rs TableShard::{drop_stale, mark_llgr_stale, drop_llgr_stale})
        let r = match kind {
            "drop" => guard(|| self.t.drop(addr, fam).0.len()),
            "restale" => guard(|| self.t.restale(addr, fam).len()),
            "restale_llgr" => guard(|| self.t.restale_llgr(addr, fam).len()),
            "drop_stale" => guard(|| self.t.drop_stale(addr, fam, None).0.len()),
            "drop_no_llgr" => guard(|| self.t.drop_no_llgr(addr, fam, None).0.len()),
            "drop_llgr_stale" => guard(|| self.t.drop_llgr_stale(addr, fam, None).0.len()),
            _ => unreachable!(),
        };
        let call = match kind {
            "drop" | "restale" | "restale_llgr" => format!("{}({}, {})", kind, PEER_NAME[p], FAM_NAME[f]),
            _ => format!("{}({}, {}, prefix_counter=None)", kind, PEER_NAME[p], FAM_NAME[f]),
        };
        match r {
            Err(pi) => self.panic_finding(call, kind, pi),
            Ok(_) => {
                let before: u64 = self.snap.d[f]
                    .iter()
                    .map(|ps| ps.iter().filter(|q| q.peer as usize == p).count() as u64)
                    .sum();
                self.judge(kind, call, false);
                let after: u64 = self.snap.d[f]
                    .iter()
                    .map(|ps| ps.iter().filter(|q| q.peer as usize == p).count() as u64)
                    .sum();
                if after < before {
                    self.count(&format!("purge-removed-paths:{}", kind));
                }
            }
        }
    }

    /// TableShard::mark_llgr_stale: restale_llgr then drop_no_llgr, per family
    fn mark_llgr_stale(&mut self, p: usize, fams: u8) {
        for f in fam_bits(fams) {
            self.purge("restale_llgr", p, f);
            self.purge("drop_no_llgr", p, f);
        }
        self.peers[p].llgr_timers |= fams;
    }

    /// Tail of PeerSession::session_loop + apply_disconnect.
    fn session_down(&mut self, p: usize, io: bool) {
        let Some(sess) = self.peers[p].sess.take() else { return };
        self.d_limit[p] = [0; NFAM];
        self.over_max[p] = [false; NFAM];
        // unregister_peer(addr, drop_families, stale_families)
        let keep = sess.gr | sess.llgr;
        for f in 0..NFAM {
            if keep & (1 << f) == 0 {
                self.purge("drop", p, f);
            }
        }
        for f in fam_bits(sess.gr) {
            self.purge("restale", p, f);
        }
        // gr_on_disconnect
        let applies = io || self.cfg.peers[p].nbit;
        let gr = if sess.gr != 0 && applies { sess.gr } else { 0 };
        let llgr = if gr != 0 || io { sess.llgr } else { 0 };
        if gr != 0 || llgr != 0 {
            self.peers[p].gr_timer = false;
            match (self.peers[p].gr, gr, llgr) {
                (Gr::LlgrStaling { .. }, _, _) => {}
                (_, g, l) if g != 0 => {
                    self.peers[p].gr = Gr::Restarting { stale: g, llgr: l };
                    self.peers[p].gr_timer = true;
                    self.count("gr:helper-started");
                }
                (_, _, l) => {
                    self.peers[p].gr = Gr::LlgrStaling { remaining: l };
                    self.count("gr:llgr-only-started");
                    self.mark_llgr_stale(p, l);
                }
            }
        } else {
            // "normal disconnect": timer cancelled, GrState left as it is
            self.peers[p].gr_timer = false;
            if sess.gr != 0 {
                self.count("gr:not-applied-stale-kept");
            }
        }
    }

    fn session_up(&mut self, p: usize, gr: u8, llgr: u8) {
        let sgen = self.peers[p].next_gen;
        self.peers[p].next_gen += 1;
        let mk = || {
            Arc::new(Source::new(
                peer_addr(p),
                IpAddr::V4(Ipv4Addr::new(192, 0, 2, 254)),
                65001 + p as u32,
                65000,
                Ipv4Addr::new(1, 1, 1, 1 + p as u8),
                PeerRole::Ebgp,
            ))
        };
        // one Source per negotiated family, one fresh counter per limited family
        let src = [mk(), mk()];
        for s in &src {
            self.srcs.push((s.clone(), p as u8, sgen));
        }
        let ctr = [0, 1].map(|f| self.cfg.peers[p].max[f].map(|m| (m, Arc::new(AtomicU64::new(0)))));
        self.peers[p].sess = Some(Sess { sgen, src, ctr, gr, llgr });
        self.d_limit[p] = [0; NFAM];
        self.over_max[p] = [false; NFAM];
        self.count("session:up");
        if sgen > 1 {
            self.count("session:restarted");
        }
        // GlobalEffect::GrSessionEstablished (helper side)
        self.peers[p].gr_timer = false;
        match self.peers[p].gr {
            Gr::Restarting { stale, .. } => {
                let dropped = stale & !gr;
                self.peers[p].gr = if gr == 0 {
                    Gr::Idle
                } else {
                    Gr::Reconnected {
                        pending: gr,
                        from_llgr: false,
                    }
                };
                for f in fam_bits(dropped) {
                    self.purge("drop_stale", p, f);
                }
            }
            Gr::LlgrStaling { remaining } => {
                self.peers[p].llgr_timers = 0;
                if gr == 0 {
                    self.peers[p].gr = Gr::Idle;
                    for f in fam_bits(remaining) {
                        self.purge("drop_llgr_stale", p, f);
                    }
                } else {
                    self.peers[p].gr = Gr::Reconnected {
                        pending: gr,
                        from_llgr: true,
                    };
                }
            }
            _ => {}
        }
    }

    /// Apply one event; returns false when it is not enabled in the current state.
    fn apply(&mut self, ev: &Ev) -> bool {
        if self.dead {
            return false;
        }
        match *ev {
            Ev::Up { p, gr, llgr } => {
                let p = p as usize;
                if self.peers[p].sess.is_some() {
                    return false;
                }
                self.session_up(p, gr & 3, llgr & 3);
                true
            }
            Ev::Ann {
                p,
                f,
                x,
                pid,
                filt,
                nhinv,
                attr,
            } => {
                let (p, f, x) = (p as usize, f as usize, x as usize);
                let Some(sess) = &self.peers[p].sess else { return false };
                let sgen = sess.sgen;
                let src = sess.src[f].clone();
                let limit = sess.ctr[f].clone();
                let paths = &self.snap.d[f][x];
                let replaced = paths.iter().find(|q| q.peer as usize == p && q.pid == pid as u32);
                let own_other = paths.iter().any(|q| q.peer as usize == p && q.sgen == sgen && q.pid != pid as u32);
                let addr_other = paths.iter().any(|q| q.peer as usize == p && q.pid != pid as u32);
                let kind = match replaced {
                    Some(q) if q.sgen == sgen => {
                        if q.filtered != filt {
                            "insert-replace-filter-flip"
                        } else {
                            "insert-replace"
                        }
                    }
                    Some(_) => "insert-replace-prev-session",
                    None if own_other => "insert-addpath-extra",
                    None if addr_other => "insert-new-beside-prev-session",
                    None => "insert-new",
                };
                let a = self.attrs[attr as usize].clone();
                let exceeded = self.do_insert(
                    kind,
                    p,
                    src,
                    sgen,
                    f,
                    x,
                    pid as u32,
                    filt,
                    nhinv,
                    a,
                    ATTR_NAME[attr as usize],
                    limit,
                );
                if exceeded && !self.dead {
                    // rx_msg: CEASE / Maximum Number of Prefixes Reached, session terminated
                    self.session_down(p, false);
                }
                true
            }
            Ev::Wd { p, f, x, pid } => {
                let (p, f, x) = (p as usize, f as usize, x as usize);
                let Some(sess) = &self.peers[p].sess else { return false };
                let sgen = sess.sgen;
                let src = sess.src[f].clone();
                let ctr = sess.ctr[f].as_ref().map(|(_, c)| c.clone());
                let paths = &self.snap.d[f][x];
                let kind = match paths.iter().find(|q| q.peer as usize == p && q.pid == pid as u32) {
                    None => "remove-absent",
                    Some(q) if q.sgen != sgen => "remove-prev-session",
                    Some(_) => {
                        if paths.iter().any(|q| q.peer as usize == p && q.pid != pid as u32) {
                            "remove-one-of-several"
                        } else {
                            "remove-last"
                        }
                    }
                };
                let before = ctr.as_ref().map(|c| c.load(Ordering::Relaxed));
                let r = guard(|| self.t.remove(src.clone(), FAMS[f], net(f, x), pid as u32, ctr.as_ref()).0.is_some());
                let call = format!(
                    "remove(src={}#{}, {}, pid={}, prefix_counter={})",
                    PEER_NAME[p],
                    sgen,
                    net_str(f, x),
                    pid,
                    match before {
                        Some(b) => format!("Some(counter={})", b),
                        None => "None".into(),
                    }
                );
                match r {
                    Err(pi) => self.panic_finding(call, "remove", pi),
                    Ok(_) => self.judge(kind, call, false),
                }
                true
            }
            Ev::Soft { p, salt } => {
                let p = p as usize;
                // TableShard::soft_reset_in: collect_adj_in_paths(peer, None, include_stale = false)
                let mut todo = Vec::new();
                for f in 0..NFAM {
                    for x in 0..NPFX {
                        for q in &self.snap.d[f][x] {
                            if q.peer as usize == p && !q.stale {
                                todo.push((f, x, q.pid, q.sgen));
                            }
                        }
                    }
                }
                if todo.is_empty() {
                    return false;
                }
                self.count("soft-reset");
                for (i, (f, x, pid, sgen)) in todo.into_iter().enumerate() {
                    if self.dead {
                        break;
                    }
                    // the entry's own source and its stored attributes are re-inserted
                    let mut found = None;
                    for de in self.t.destinations(TableQuery::Global, FAMS[f], vec![], true) {
                        if de.net == net(f, x) {
                            for pe in de.paths {
                                if pe.source.remote_addr == peer_addr(p) && pe.remote_path_id == pid {
                                    found = Some((pe.source.clone(), pe.attr.clone()));
                                }
                            }
                        }
                    }
                    let Some((src, attr)) = found else { continue };
                    let filt = (salt >> (i % 32)) & 1 == 1;
                    self.do_insert("soft-reset-reinsert", p, src, sgen, f, x, pid, filt, false, attr, "(stored)", None);
                }
                true
            }
            Ev::Down { p, io } => {
                let p = p as usize;
                if self.peers[p].sess.is_none() {
                    return false;
                }
                self.count("session:down");
                self.session_down(p, io);
                true
            }
            Ev::GrTimer { p } => {
                let p = p as usize;
                if !self.peers[p].gr_timer {
                    return false;
                }
                self.peers[p].gr_timer = false;
                match self.peers[p].gr {
                    Gr::Restarting { llgr, .. } if llgr != 0 => {
                        self.peers[p].gr = Gr::LlgrStaling { remaining: llgr };
                        self.count("gr:timer-to-llgr");
                        self.mark_llgr_stale(p, llgr);
                    }
                    Gr::Restarting { stale, .. } => {
                        self.peers[p].gr = Gr::Idle;
                        self.count("gr:timer-drop");
                        // gr_restart_timer_expired -> drop_families
                        for f in fam_bits(stale) {
                            self.purge("drop", p, f);
                        }
                    }
                    _ => {}
                }
                true
            }
            Ev::LlgrTimer { p, f } => {
                let (p, f) = (p as usize, f as usize);
                if self.peers[p].llgr_timers & (1 << f) == 0 {
                    return false;
                }
                self.peers[p].llgr_timers &= !(1 << f);
                if let Gr::LlgrStaling { remaining } = self.peers[p].gr {
                    let rem = remaining & !(1 << f);
                    self.peers[p].gr = if rem == 0 { Gr::Idle } else { Gr::LlgrStaling { remaining: rem } };
                    self.purge("drop_llgr_stale", p, f);
                }
                true
            }
            Ev::Eor { p, f } => {
                let (p, f) = (p as usize, f as usize);
                let Some(sess) = &self.peers[p].sess else { return false };
                if sess.gr == 0 {
                    // rx_msg only feeds GrEorReceived when GR was negotiated
                    return false;
                }
                if let Gr::Reconnected { pending, from_llgr } = self.peers[p].gr {
                    let rem = pending & !(1 << f);
                    self.peers[p].gr = if rem == 0 {
                        Gr::Idle
                    } else {
                        Gr::Reconnected { pending: rem, from_llgr }
                    };
                    self.count("gr:eor-purge");
                    self.purge(if from_llgr { "drop_llgr_stale" } else { "drop_stale" }, p, f);
                    true
                } else {
                    false
                }
            }
        }
    }
}

// ------------------------------------------------------------------ generation

struct Gen {
    llgr_comm: bool,
}

impl Gen {
    fn cfg(&self, rng: &mut Rng) -> HistCfg {
        let mut peers = [PeerCfg {
            max: [None; NFAM],
            nbit: false,
        }; NPEER];
        for p in peers.iter_mut() {
            for f in 0..NFAM {
                p.max[f] = match rng.below(8) {
                    0 | 1 => None,
                    2 => Some(0),
                    3 => Some(1),
                    4 | 5 => Some(2),
                    _ => Some(3),
                };
            }
            p.nbit = rng.bool();
        }
        HistCfg { peers }
    }

    fn next(&self, rng: &mut Rng, ex: &Exec, caps: &[(u8, u8); NPEER]) -> Ev {
        let p = rng.usize(NPEER);
        let pu = p as u8;
        let peer = &ex.peers[p];
        if peer.sess.is_none() {
            let mut choices: Vec<(u64, Ev)> = vec![(
                10,
                Ev::Up {
                    p: pu,
                    gr: caps[p].0,
                    llgr: caps[p].1,
                },
            )];
            if rng.chance(1, 6) {
                // capabilities may differ after a restart
                choices.push((
                    4,
                    Ev::Up {
                        p: pu,
                        gr: rng.below(4) as u8,
                        llgr: rng.below(4) as u8,
                    },
                ));
            }
            if peer.gr_timer {
                choices.push((4, Ev::GrTimer { p: pu }));
            }
            for f in fam_bits(peer.llgr_timers) {
                choices.push((3, Ev::LlgrTimer { p: pu, f: f as u8 }));
            }
            return pick_weighted(rng, &choices);
        }
        let f = if rng.chance(3, 5) { 0 } else { 1 };
        let x = rng.usize(NPFX) as u8;
        let pid = if rng.chance(1, 2) { 0 } else { rng.range(1, 2) as u8 };
        let mut choices: Vec<(u64, Ev)> = Vec::new();
        let attr = match rng.below(10) {
            0..=5 => 0,
            6 | 7 => 1,
            8 => 2,
            _ => {
                if self.llgr_comm {
                    3
                } else {
                    0
                }
            }
        };
        choices.push((
            50,
            Ev::Ann {
                p: pu,
                f,
                x,
                pid,
                filt: rng.chance(3, 10),
                nhinv: rng.chance(1, 10),
                attr,
            },
        ));
        // withdraw: mostly something the peer address actually has
        let mut have: Vec<(u8, u8, u8)> = Vec::new();
        for ff in 0..NFAM {
            for xx in 0..NPFX {
                for q in &ex.snap.d[ff][xx] {
                    if q.peer as usize == p {
                        have.push((ff as u8, xx as u8, q.pid as u8));
                    }
                }
            }
        }
        if !have.is_empty() && rng.chance(4, 5) {
            let (ff, xx, pp) = *rng.pick(&have);
            choices.push((
                20,
                Ev::Wd {
                    p: pu,
                    f: ff,
                    x: xx,
                    pid: pp,
                },
            ));
        } else {
            choices.push((20, Ev::Wd { p: pu, f, x, pid }));
        }
        choices.push((
            3,
            Ev::Soft {
                p: pu,
                salt: rng.next_u32(),
            },
        ));
        choices.push((
            7,
            Ev::Down {
                p: pu,
                io: rng.chance(2, 3),
            },
        ));
        if let Gr::Reconnected { pending, .. } = peer.gr {
            for ff in fam_bits(pending) {
                choices.push((6, Ev::Eor { p: pu, f: ff as u8 }));
            }
        }
        pick_weighted(rng, &choices)
    }
}

fn pick_weighted(rng: &mut Rng, choices: &[(u64, Ev)]) -> Ev {
    let total: u64 = choices.iter().map(|c| c.0).sum();
    let mut r = rng.below(total);
    for (w, e) in choices {
        if r < *w {
            return *e;
        }
        r -= *w;
    }
    choices[0].1
}

// ------------------------------------------------------------------ shrinking

fn run_events(cfg: HistCfg, attrs: &[Arc<Vec<Attribute>>], evs: &[Ev]) -> Exec {
    let mut ex = Exec::new(cfg, attrs);
    for e in evs {
        ex.apply(e);
    }
    ex
}

fn fails_with(cfg: HistCfg, attrs: &[Arc<Vec<Attribute>>], evs: &[Ev], sig: &str, budget: &mut u32) -> bool {
    if *budget == 0 {
        return false;
    }
    *budget -= 1;
    run_events(cfg, attrs, evs).findings.iter().any(|f| f.sig == sig)
}

/// ddmin over the event list, then per-event and per-config simplifications,
/// all while the same signature is still produced.
fn shrink(cfg: HistCfg, attrs: &[Arc<Vec<Attribute>>], evs: &[Ev], sig: &str, budget: u32) -> (HistCfg, Vec<Ev>) {
    let mut budget: u32 = budget;
    let mut cur: Vec<Ev> = evs.to_vec();
    let mut cfg = cfg;
    // cut everything after the first occurrence (bisection on the prefix length)
    {
        let (mut lo, mut hi) = (0usize, cur.len());
        while lo < hi {
            let mid = (lo + hi) / 2;
            if fails_with(cfg, attrs, &cur[..mid], sig, &mut budget) {
                hi = mid;
            } else {
                lo = mid + 1;
            }
        }
        if hi <= cur.len() && fails_with(cfg, attrs, &cur[..hi], sig, &mut budget) {
            cur.truncate(hi);
        }
    }
    for _round in 0..2 {
        let mut n = 2usize;
        while cur.len() >= 2 && budget > 0 {
            let chunk = cur.len().div_ceil(n);
            let mut reduced = false;
            let mut i = 0;
            while i < cur.len() {
                let mut cand = cur.clone();
                let end = (i + chunk).min(cand.len());
                cand.drain(i..end);
                if !cand.is_empty() && fails_with(cfg, attrs, &cand, sig, &mut budget) {
                    cur = cand;
                    n = n.saturating_sub(1).max(2);
                    reduced = true;
                    break;
                }
                i += chunk;
            }
            if !reduced {
                if chunk == 1 {
                    break;
                }
                n = (n * 2).min(cur.len());
            }
        }
        // simplify single events
        for i in 0..cur.len() {
            let orig = cur[i];
            let mut cands: Vec<Ev> = Vec::new();
            match orig {
                Ev::Ann {
                    p,
                    f,
                    x,
                    pid,
                    filt,
                    nhinv,
                    attr,
                } => {
                    if nhinv {
                        cands.push(Ev::Ann {
                            p,
                            f,
                            x,
                            pid,
                            filt,
                            nhinv: false,
                            attr,
                        });
                    }
                    if attr != 0 {
                        cands.push(Ev::Ann {
                            p,
                            f,
                            x,
                            pid,
                            filt,
                            nhinv: false,
                            attr: 0,
                        });
                    }
                    if filt {
                        cands.push(Ev::Ann {
                            p,
                            f,
                            x,
                            pid,
                            filt: false,
                            nhinv: false,
                            attr,
                        });
                    }
                    if pid != 0 {
                        cands.push(Ev::Ann {
                            p,
                            f,
                            x,
                            pid: 0,
                            filt,
                            nhinv,
                            attr,
                        });
                    }
                    // a session that ends because the limit was hit: try a plain drop instead
                    cands.insert(0, Ev::Down { p, io: true });
                }
                Ev::Down { p, io: false } => cands.push(Ev::Down { p, io: true }),
                Ev::Up { p, gr, llgr } => {
                    if llgr != 0 {
                        cands.push(Ev::Up { p, gr, llgr: 0 });
                    }
                    for g in [1u8, 2u8] {
                        if gr == 3 {
                            cands.push(Ev::Up { p, gr: g, llgr: llgr & g });
                        }
                    }
                }
                _ => {}
            }
            for c in cands {
                cur[i] = c;
                if fails_with(cfg, attrs, &cur, sig, &mut budget) {
                    break;
                }
                cur[i] = orig;
            }
        }
        // simplify the configuration: drop limits / N-bits that are not needed
        for p in 0..NPEER {
            for f in 0..NFAM {
                if cfg.peers[p].max[f].is_some() {
                    let mut c = cfg;
                    c.peers[p].max[f] = None;
                    if fails_with(c, attrs, &cur, sig, &mut budget) {
                        cfg = c;
                    }
                }
            }
            if cfg.peers[p].nbit {
                let mut c = cfg;
                c.peers[p].nbit = false;
                if fails_with(c, attrs, &cur, sig, &mut budget) {
                    cfg = c;
                }
            }
        }
    }
    (cfg, cur)
}

fn witness(cfg: HistCfg, attrs: &[Arc<Vec<Attribute>>], evs: &[Ev], sig: &str, original_len: usize) -> Json {
    let ex = run_events(cfg, attrs, evs);
    witness_of(&ex, cfg, evs, sig, original_len)
}

fn witness_of(ex: &Exec, cfg: HistCfg, evs: &[Ev], sig: &str, original_len: usize) -> Json {
    let f = ex.findings.iter().find(|f| f.sig == sig);
    let upto = f.map(|f| f.step).unwrap_or(ex.trace.len());
    Json::obj(vec![
        ("config", cfg_json(&cfg)),
        ("events", Json::strs(evs.iter().map(ev_str))),
        ("table_calls", Json::strs(ex.trace.iter().take(upto).cloned())),
        (
            "failing_call",
            Json::s(ex.trace.get(upto.saturating_sub(1)).cloned().unwrap_or_default()),
        ),
        ("observed_vs_recount", Json::s(f.map(|f| f.detail.clone()).unwrap_or_default())),
        ("rib_at_end_of_history", Json::strs(ex.snap.render())),
        ("events_before_shrinking", Json::Int(original_len as i128)),
    ])
}

// ------------------------------------------------------------------ main

fn main() {
    let params = Params::from_args_env();
    let rule = "case = one Table call of one daemon-producible history, judged by a recount of destinations(Global, family, [], enable_filtered=true); non-trivial = the call changed the RIB's path set or returned PrefixLimitExceeded; distinct by hash of (RIB paths before the call, the call)";
    let mut rep = Report::new("C15", &params);
    rep.extra("rule", Json::s(rule));
    rep.max_samples = 3;
    let attrs = attr_table();
    let mut rng = Rng::new(params.seed ^ 0xC15);
    let generator = Gen {
        llgr_comm: params.flag("llgrcomm"),
    };
    let histories = params.get_u64("histories", params.n(5_000, 40_000));
    let nev = params.get_u64("events", 50) as usize;
    // re-executions the shrinker may spend per new signature (0 under Miri: too slow)
    let shrink_budget = params.get_u64("shrink", 4000) as u32;

    let mut done = 0u64;
    while done < histories && rep.in_budget() {
        done += 1;
        let mut hr = rng.fork();
        let cfg = generator.cfg(&mut hr);
        // what each peer usually negotiates
        let mut caps = [(0u8, 0u8); NPEER];
        for c in caps.iter_mut() {
            *c = match hr.below(8) {
                0 | 1 => (0, 0),
                2..=4 => (3, 0),
                5 => (3, 3),
                6 => (1, 2),
                _ => (0, 3),
            };
        }
        let mut ex = Exec::new(cfg, &attrs);
        let mut evs: Vec<Ev> = Vec::with_capacity(nev);
        for _ in 0..nev {
            if ex.dead {
                break;
            }
            let e = generator.next(&mut hr, &ex, &caps);
            if ex.apply(&e) {
                evs.push(e);
            }
        }
        rep.count("histories");
        rep.evals(ex.evals);
        for (k, v) in &ex.counts {
            rep.count_n(k, *v);
        }
        for h in &ex.hashes {
            rep.nontrivial(*h);
        }
        if ex.dead {
            rep.count("histories-abandoned-after-panic");
        }
        if rep.want_sample() && done % 7 == 3 {
            rep.sample(Json::obj(vec![
                ("config", cfg_json(&cfg)),
                ("events", Json::strs(evs.iter().map(ev_str))),
                ("table_calls", Json::strs(ex.trace.iter().cloned())),
                ("rib_at_end", Json::strs(ex.snap.render())),
                ("findings", Json::strs(ex.findings.iter().map(|f| f.sig.clone()))),
            ]));
        }
        let mut seen: Vec<&str> = Vec::new();
        for f in &ex.findings {
            if seen.contains(&f.sig.as_str()) {
                continue;
            }
            seen.push(&f.sig);
            if f.sig.starts_with("C15/harness/") {
                rep.inconclusive(&f.what);
                continue;
            }
            if rep.has_violation(&f.sig) {
                rep.violation(&f.sig, &f.what, Json::Null);
                continue;
            }
            let w = if shrink_budget == 0 {
                witness_of(&ex, cfg, &evs, &f.sig, evs.len())
            } else {
                let (scfg, sev) = shrink(cfg, &attrs, &evs, &f.sig, shrink_budget);
                witness(scfg, &attrs, &sev, &f.sig, evs.len())
            };
            rep.violation(&f.sig, &f.what, w);
        }
    }
    if rep.evaluations < 1000 && params.scale >= 1.0 {
        rep.inconclusive("fewer than 1000 evaluations");
    }
    std::process::exit(rep.finish());
}
