//! "Values obtained by decoding": hand-written wire UPDATEs (own encoder, legal
//! representation variants the repo encoder never produces: extended-length
//! flag on short attributes, partial bit, shuffled order, 2-octet AS_PATH with
//! AS4_PATH / AS4_AGGREGATOR, unknown attributes, hand-built BGP-LS NLRI) are
//! decoded by the receiving codec of speaker A; every resulting Message is then
//! judged like any other input on a session A → C.
use crate::oracle::*;
use crate::workload::*;
use crate::{Ctx, UpdateCase, run_update_case};
use bytes::BytesMut;
use rbgp_verif::common::*;
use rustybgp_packet::bgp::{Message, PathNlri, PeerCodec, Update};
use rustybgp_packet::{Family, validate_message};
use std::collections::HashSet;
use std::sync::Arc;

fn tlv(t: u16, v: &[u8]) -> Vec<u8> {
    let mut b = t.to_be_bytes().to_vec();
    b.extend_from_slice(&(v.len() as u16).to_be_bytes());
    b.extend_from_slice(v);
    b
}

fn ls_node_desc(rng: &mut Rng, container: u16) -> Vec<u8> {
    let mut body = Vec::new();
    let mut subs: Vec<Vec<u8>> = Vec::new();
    if rng.bool() {
        subs.push(tlv(512, &rng.next_u32().to_be_bytes()));
    }
    if rng.bool() {
        subs.push(tlv(513, &rng.next_u32().to_be_bytes()));
    }
    if rng.bool() {
        subs.push(tlv(514, &rng.next_u32().to_be_bytes()));
    }
    let n = *rng.pick(&[4usize, 6, 7, 8]);
    subs.push(tlv(515, &rng.bytes(n)));
    if rng.chance(1, 3) {
        subs.push(tlv(516, &rng.next_u32().to_be_bytes()));
    }
    if rng.chance(1, 4) {
        // a sub-TLV this implementation does not know
        let k = rng.usize(6);
        subs.push(tlv(600 + rng.below(20) as u16, &rng.bytes(k)));
    }
    if rng.chance(1, 3) {
        rng.shuffle(&mut subs);
    }
    for s in subs {
        body.extend_from_slice(&s);
    }
    tlv(container, &body)
}

/// One hand-written BGP-LS NLRI (RFC 9552 §5.2, RFC 9514 §6).
fn ls_wire_nlri(rng: &mut Rng) -> Vec<u8> {
    let mut body = vec![1 + rng.below(7) as u8];
    body.extend_from_slice(&rng.next_u64().to_be_bytes());
    let t = *rng.pick(&[1u16, 2, 2, 3, 4, 6, 6]);
    body.extend_from_slice(&ls_node_desc(rng, 256));
    match t {
        1 => {}
        2 => {
            body.extend_from_slice(&ls_node_desc(rng, 257));
            if rng.bool() {
                body.extend_from_slice(&tlv(258, &rng.bytes(8)));
            }
            if rng.bool() {
                body.extend_from_slice(&tlv(259, &rng.bytes(4)));
                body.extend_from_slice(&tlv(260, &rng.bytes(4)));
            }
            if rng.bool() {
                body.extend_from_slice(&tlv(261, &rng.bytes(16)));
                body.extend_from_slice(&tlv(262, &rng.bytes(16)));
            }
            if rng.bool() {
                body.extend_from_slice(&tlv(263, &(rng.below(4096) as u16).to_be_bytes()));
            }
        }
        3 | 4 => {
            if rng.bool() {
                body.extend_from_slice(&tlv(263, &(rng.below(4096) as u16).to_be_bytes()));
            }
            if rng.bool() {
                body.extend_from_slice(&tlv(264, &[1 + rng.below(6) as u8]));
            }
            let bits = if t == 3 { rng.range(0, 32) } else { rng.range(0, 128) } as u8;
            let mut v = vec![bits];
            v.extend_from_slice(&rng.bytes(bits.div_ceil(8) as usize));
            body.extend_from_slice(&tlv(265, &v));
        }
        _ => {
            // SRv6 SID NLRI: optional Multi-Topology ID TLV (263), then SRv6 SID
            // Information TLV (518).  RFC 9514 §6.1 defines a 16-octet value;
            // this implementation writes MT-ID(2)+reserved(2)+SID(16).
            if rng.bool() {
                body.extend_from_slice(&tlv(263, &(rng.below(4096) as u16).to_be_bytes()));
            }
            if rng.bool() {
                body.extend_from_slice(&tlv(518, &rng.bytes(16)));
            } else {
                let mut v = (rng.below(4096) as u16).to_be_bytes().to_vec();
                v.extend_from_slice(&[0, 0]);
                v.extend_from_slice(&rng.bytes(16));
                body.extend_from_slice(&tlv(518, &v));
            }
        }
    }
    tlv(t, &body)
}

fn put_attr(out: &mut Vec<u8>, rng: &mut Rng, mut flags: u8, code: u8, val: &[u8], vary: bool) {
    if val.len() > 255 || (vary && rng.chance(1, 3)) {
        flags |= 0x10;
    }
    out.push(flags);
    out.push(code);
    if flags & 0x10 != 0 {
        out.extend_from_slice(&(val.len() as u16).to_be_bytes());
    } else {
        out.push(val.len() as u8);
    }
    out.extend_from_slice(val);
}

fn as_path_wire(rng: &mut Rng, hops: usize, two_byte: bool, allow_trans: bool) -> (Vec<u8>, usize) {
    let mut b = Vec::new();
    let mut left = hops;
    let mut count = 0;
    if rng.chance(1, 8) {
        b.push(3);
        b.push(2);
        for _ in 0..2 {
            let a = 64512 + rng.below(1000) as u32;
            if two_byte {
                b.extend_from_slice(&(a as u16).to_be_bytes());
            } else {
                b.extend_from_slice(&a.to_be_bytes());
            }
        }
    }
    while left > 0 {
        let n = 1 + rng.usize(left.min(255));
        let t = if rng.chance(1, 6) { 1 } else { 2 };
        b.push(t);
        b.push(n as u8);
        count += if t == 1 { 1 } else { n };
        for _ in 0..n {
            let a: u32 = if two_byte {
                if allow_trans && rng.chance(1, 3) { 23456 } else { 1 + rng.below(65000) as u32 }
            } else if rng.chance(1, 3) {
                65536 + rng.below(1_000_000) as u32
            } else {
                1 + rng.below(65000) as u32
            };
            if two_byte {
                b.extend_from_slice(&(a as u16).to_be_bytes());
            } else {
                b.extend_from_slice(&a.to_be_bytes());
            }
        }
        left -= n;
    }
    (b, count)
}

/// ASNs of a path made of AS_SEQUENCE segments only (None otherwise).
fn flat_seq(b: &[u8], asn_size: usize) -> Option<Vec<u32>> {
    let mut out = Vec::new();
    let mut p = 0;
    while p + 2 <= b.len() {
        if b[p] != 2 {
            return None;
        }
        let n = b[p + 1] as usize;
        for i in 0..n {
            let s = p + 2 + i * asn_size;
            let mut v = 0u32;
            for k in 0..asn_size {
                v = (v << 8) | *b.get(s + k)? as u32;
            }
            out.push(v);
        }
        p += 2 + n * asn_size;
    }
    Some(out)
}

/// RFC 6793 §4.2.3 for AS_SEQUENCE-only paths: what a NEW speaker must
/// reconstruct from AS_PATH (2-octet) and AS4_PATH.
fn rfc6793_path(as_path: &[u32], as4_path: Option<&[u32]>, ignore_as4: bool) -> Vec<u32> {
    match as4_path {
        Some(p4) if !ignore_as4 && as_path.len() >= p4.len() => {
            let mut v = as_path[..as_path.len() - p4.len()].to_vec();
            v.extend_from_slice(p4);
            v
        }
        _ => as_path.to_vec(),
    }
}

pub fn run_wire_case(ctx: &mut Ctx, case_seed: u64) {
    let mut rng = Rng::new(case_seed);
    let pool = ctx.pool.clone();
    // B sends to A
    let (ai, bi, model_b) = loop {
        let ai = rng.usize(pool.len());
        let bi = rng.usize(pool.len());
        let m = Model::new(&pool[bi].caps, &pool[ai].caps);
        if !m.fams.is_empty() {
            break (ai, bi, m);
        }
    };
    let fam = model_b.fams[rng.usize(model_b.fams.len())].0;
    let addpath = model_b.addpath_tx(fam);
    let reach = rng.chance(3, 4);
    let k = 1 + rng.usize(12);
    let mut raws: Vec<Vec<u8>> = Vec::new();
    let mut seen = HashSet::new();
    for _ in 0..k {
        let mut raw = Vec::new();
        if addpath {
            raw.extend_from_slice(&(rng.below(5) as u32).to_be_bytes());
        }
        if fam == Family::LS && rng.bool() {
            raw.extend_from_slice(&ls_wire_nlri(&mut rng));
        } else {
            raw.extend_from_slice(&nlri(&mut rng, fam, Size::Mixed).encode_to_bytes());
        }
        if seen.insert(raw.clone()) {
            raws.push(raw);
        }
    }
    let nl: Vec<u8> = raws.concat();
    let two = model_b.two_byte;
    let mut attrs_b: Vec<Vec<u8>> = Vec::new();
    let mut withdrawn: Vec<u8> = Vec::new();
    let mut tail: Vec<u8> = Vec::new();
    let vary = rng.chance(2, 3);
    let mut w_as_path: Option<Vec<u32>> = None;
    let mut w_as4_path: Option<Option<Vec<u32>>> = None;
    let mut w_ignore_as4 = false;
    let mut frng = rng.fork();
    let mut push = |flags: u8, code: u8, val: &[u8]| {
        let mut o = Vec::new();
        put_attr(&mut o, &mut frng, flags, code, val, vary);
        attrs_b.push(o);
    };
    if reach {
        push(0x40, 1, &[rng.below(3) as u8]);
        let hops = rng.usize(12);
        let (p, cnt) = as_path_wire(&mut rng, hops, two, true);
        push(0x40, 2, &p);
        w_as_path = flat_seq(&p, if two { 2 } else { 4 });
        if two && rng.chance(2, 3) {
            // AS4_PATH of fewer / equal / more hops than AS_PATH
            let h4 = match rng.below(4) {
                0 => cnt + 1 + rng.usize(3),
                1 => cnt,
                _ => rng.usize(cnt + 1),
            };
            if h4 > 0 {
                let (p4, _) = as_path_wire(&mut rng, h4, false, false);
                // AS4_PATH must not carry confed segments: strip leading one
                let p4 = if p4.first() == Some(&3) { p4[2 + 8..].to_vec() } else { p4 };
                if !p4.is_empty() {
                    push(0xc0, 17, &p4);
                    w_as4_path = Some(flat_seq(&p4, 4));
                }
            }
        } else if !two && rng.chance(1, 6) {
            let (p4, _) = as_path_wire(&mut rng, 3, false, false);
            let p4 = if p4.first() == Some(&3) { p4[10..].to_vec() } else { p4 };
            if !p4.is_empty() {
                push(0xc0, 17, &p4); // must be discarded by a NEW speaker
            }
        }
        if rng.chance(1, 3) {
            if two {
                let trans = rng.bool();
                let mut v = (if trans { 23456u16 } else { 1 + rng.below(60000) as u16 }).to_be_bytes().to_vec();
                v.extend_from_slice(&rng.bytes(4));
                let partial = if rng.chance(1, 4) { 0x20 } else { 0 };
                push(0xc0 | partial, 7, &v);
                if rng.chance(2, 3) {
                    let mut v4 = (65536 + rng.below(100000) as u32).to_be_bytes().to_vec();
                    v4.extend_from_slice(&rng.bytes(4));
                    push(0xc0, 18, &v4);
                    // AGGREGATOR with a real 2-octet AS + AS4_AGGREGATOR: both AS4
                    // attributes are to be ignored
                    w_ignore_as4 = !trans;
                }
            } else {
                let partial = if rng.chance(1, 4) { 0x20 } else { 0 };
                push(0xc0 | partial, 7, &rng.bytes(8));
            }
        }
        if rng.bool() {
            push(0x80, 4, &rng.bytes(4));
        }
        if rng.bool() {
            push(0x40, 5, &rng.bytes(4));
        }
        if rng.chance(1, 4) {
            push(0x40, 6, &[]);
        }
        if rng.bool() {
            let n = 1 + rng.usize(80);
            let partial = if rng.chance(1, 4) { 0x20 } else { 0 };
            push(0xc0 | partial, 8, &rng.bytes(4 * n));
        }
        if rng.chance(1, 3) {
            let n = 1 + rng.usize(40);
            push(0xc0, 16, &rng.bytes(8 * n));
        }
        if rng.chance(1, 3) {
            let n = 1 + rng.usize(30);
            push(0xc0, 32, &rng.bytes(12 * n));
        }
        if rng.chance(1, 4) {
            push(0x80, 9, &rng.bytes(4));
            let n = 1 + rng.usize(3);
            push(0x80, 10, &rng.bytes(4 * n));
        }
        if rng.chance(1, 3) {
            let n = rng.usize(300);
            let partial = if rng.bool() { 0x20 } else { 0 };
            push(0xc0 | partial, *rng.pick(&OPAQUE_CODES), &rng.bytes(n));
        }
        if rng.chance(1, 6) {
            let n = rng.usize(20);
            push(0x80, 222, &rng.bytes(n)); // unknown optional non-transitive: dropped by A
        }
        for code in [26u8, 40, 29, 23] {
            if rng.chance(1, 8) {
                let n = 3 + rng.usize(40);
                let fl = if code == 26 || code == 29 { 0x80 } else { 0xc0 };
                push(fl, code, &rng.bytes(n));
            }
        }
        if fam == Family::IPV4 {
            push(0x40, 3, &[10, rng.below(250) as u8, rng.below(250) as u8, 1 + rng.below(250) as u8]);
            tail = nl.clone();
        } else {
            let mut v = fam.afi().to_be_bytes().to_vec();
            v.push(fam.safi());
            let v6 = |rng: &mut Rng| {
                let mut b = rng.bytes(16);
                b[0] = 0x20;
                b[1] = 0x01;
                b
            };
            let nh: Vec<u8> = if is_flowspec(fam) {
                vec![]
            } else if matches!(fam, Family::IPV4_VPN | Family::IPV6_VPN) {
                let mut b = vec![0u8; 8];
                if fam == Family::IPV4_VPN && rng.bool() {
                    b.extend_from_slice(&[10, 1, 2, 3]);
                } else {
                    b.extend_from_slice(&v6(&mut rng));
                }
                b
            } else if fam.afi() == Family::AFI_IP6 {
                let mut b = v6(&mut rng);
                if rng.chance(1, 3) {
                    let mut l = rng.bytes(16);
                    l[0] = 0xfe;
                    l[1] = 0x80;
                    b.extend_from_slice(&l);
                }
                b
            } else if rng.bool() {
                vec![10, 9, 8, 7]
            } else {
                v6(&mut rng)
            };
            v.push(nh.len() as u8);
            v.extend_from_slice(&nh);
            v.push(0);
            v.extend_from_slice(&nl);
            push(0x80, 14, &v);
        }
    } else if fam == Family::IPV4 {
        withdrawn = nl.clone();
    } else {
        let mut v = fam.afi().to_be_bytes().to_vec();
        v.push(fam.safi());
        v.extend_from_slice(&nl);
        push(0x80, 15, &v);
    }
    if rng.chance(1, 2) {
        rng.shuffle(&mut attrs_b);
    }
    let attrs_bytes: Vec<u8> = attrs_b.concat();
    let mut frame = vec![0xffu8; 16];
    let total = 19 + 2 + withdrawn.len() + 2 + attrs_bytes.len() + tail.len();
    if total > model_b.max_len {
        ctx.rep.count("wire:too-big-skipped");
        return;
    }
    frame.extend_from_slice(&(total as u16).to_be_bytes());
    frame.push(2);
    frame.extend_from_slice(&(withdrawn.len() as u16).to_be_bytes());
    frame.extend_from_slice(&withdrawn);
    frame.extend_from_slice(&(attrs_bytes.len() as u16).to_be_bytes());
    frame.extend_from_slice(&attrs_bytes);
    frame.extend_from_slice(&tail);

    // A decodes what B sent
    let a_caps = pool[ai].caps.clone();
    let b_caps = pool[bi].caps.clone();
    let dec = guard(|| {
        let mut c = PeerCodec::negotiate(&a_caps, &b_caps);
        let mut buf = BytesMut::from(&frame[..]);
        match c.try_parse(&mut buf) {
            Ok(Some(pm)) => validate_message(pm, false).map(|it| it.collect::<Vec<Message>>()).map_err(|n| format!("{:?}", n)),
            Ok(None) => Err("incomplete".into()),
            Err(n) => Err(format!("{:?}", n)),
        }
    });
    ctx.rep.count("wire:frames-built");
    let msgs = match dec {
        Err(_) => {
            // a decoder panic on a legal frame belongs to C03; not judged here
            ctx.rep.count("wire:decoder-panic-not-judged-here");
            return;
        }
        Ok(Err(_)) => {
            ctx.rep.count("wire:rejected-by-receiver");
            return;
        }
        Ok(Ok(m)) => m,
    };
    for m in msgs {
        let Some(u) = split_update(&m) else { continue };
        if u.entries.is_empty() {
            continue;
        }
        // reconciliation on receipt (RFC 6793 §4.2.3), judged for AS_SEQUENCE-only paths
        if let (true, Some((_, attrs)), Some(p2)) = (two, &u.reach, &w_as_path) {
            let p4 = match &w_as4_path {
                None => Some(None),
                Some(Some(v)) => Some(Some(v.as_slice())),
                Some(None) => None, // AS4_PATH with sets: not judged
            };
            if let (Some(p4), Some(a)) = (p4, attrs.iter().find(|a| a.code() == rustybgp_packet::Attribute::AS_PATH)) {
                let want = rfc6793_path(p2, p4, w_ignore_as4);
                let got = a.binary().and_then(|b| flat_seq(b, 4));
                ctx.rep.eval();
                ctx.rep.count("as4-reconcile-on-receipt-evals");
                if p4.is_some_and(|p| p.len() < p2.len()) && !w_ignore_as4 {
                    ctx.rep.count("as4-reconcile:prefix-taken-from-as-path");
                }
                if got.as_deref() != Some(want.as_slice()) {
                    ctx.rep.violation(
                        "C04/as4-reconcile/as-path",
                        "AS_PATH reconstructed from a 2-octet AS_PATH + AS4_PATH differs from RFC 6793 §4.2.3",
                        Json::obj(vec![
                            ("replay", Json::s(format!("c04 part=wire case={}", case_seed))),
                            ("frame_hex", Json::s(hex(&frame))),
                            ("receiver_caps", Json::s(pool[ai].name)),
                            ("sender_caps", Json::s(pool[bi].name)),
                            ("as_path_2octet", Json::s(format!("{:?}", p2))),
                            ("as4_path", Json::s(format!("{:?}", p4))),
                            ("as4_ignored_because_of_aggregator", Json::Bool(w_ignore_as4)),
                            ("expected", Json::s(format!("{:?}", want))),
                            ("got", Json::s(format!("{:?}", got))),
                        ]),
                    );
                }
            }
        }
        if reach && u.reach.is_none() {
            ctx.rep.count("wire:treated-as-withdraw-by-receiver");
            continue;
        }
        // A re-advertises to C
        let mut tries = 0;
        let ci = loop {
            let ci = rng.usize(pool.len());
            tries += 1;
            if Model::new(&pool[ai].caps, &pool[ci].caps).has(u.family) || tries > 200 {
                break ci;
            }
        };
        let model_ac = Model::new(&pool[ai].caps, &pool[ci].caps);
        if !model_ac.has(u.family) {
            continue;
        }
        let ap = model_ac.addpath_tx(u.family);
        // the daemon's PendingTx keys by path id 0 when add-path tx is off
        let mut seen = HashSet::new();
        let entries: Vec<PathNlri> = u
            .entries
            .iter()
            .map(|e| PathNlri {
                path_id: if ap { e.path_id } else { 0 },
                nlri: e.nlri.clone(),
            })
            .filter(|e| seen.insert(entry_key(u.family, u.reach.is_none(), e)))
            .collect();
        let msg = match &u.reach {
            Some((nh, attrs)) => Message::Update(Update::Reach {
                family: u.family,
                entries,
                nexthop: **nh,
                attr: Arc::new(attrs.to_vec()),
            }),
            None => Message::Update(Update::Unreach {
                family: u.family,
                entries,
            }),
        };
        let mut tags = vec!["wire-derived".to_string()];
        if vary {
            tags.push("wire-derived:flag-variants".into());
        }
        if two {
            tags.push("wire-derived:from-2byte-session".into());
        }
        if u.family == Family::LS {
            tags.push("wire-derived:ls".into());
        }
        let case = UpdateCase { li: ai, ri: ci, msg, tags };
        run_update_case(ctx, &case, case_seed, "wire");
    }
}
