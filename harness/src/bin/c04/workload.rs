//! Generators for C04: capability sets, NLRI of all 20 families, attribute
//! blocks of a requested wire size, OPEN / NOTIFICATION values.
use rbgp_verif::common::*;
use rustybgp_packet::bgp::{Ipv4Net, Ipv6Net, Nexthop};
use rustybgp_packet::evpn::*;
use rustybgp_packet::flowspec::*;
use rustybgp_packet::labeled::{LabeledV4Nlri, LabeledV6Nlri};
use rustybgp_packet::ls::*;
use rustybgp_packet::mpls::{MplsLabel, MplsLabelStack};
use rustybgp_packet::mup::*;
use rustybgp_packet::rd::RouteDistinguisher;
use rustybgp_packet::rtc::{MatchType, RtcNlri};
use rustybgp_packet::sr_policy::SrPolicyNlri;
use rustybgp_packet::vpn::{VpnV4Nlri, VpnV6Nlri};
use rustybgp_packet::{Attribute, Capability, Family, Nlri};
use std::net::{IpAddr, Ipv4Addr, Ipv6Addr};

/// The 19 real (AFI,SAFI) constants of the crate (the 20th, `EMPTY`, is not an
/// address family).
pub const ALL_FAMILIES: [Family; 19] = [
    Family::IPV4,
    Family::IPV6,
    Family::IPV4_MC,
    Family::IPV6_MC,
    Family::IPV4_MPLS,
    Family::IPV6_MPLS,
    Family::LS,
    Family::IPV4_MUP,
    Family::IPV6_MUP,
    Family::IPV4_VPN,
    Family::IPV6_VPN,
    Family::IPV4_FLOWSPEC,
    Family::IPV6_FLOWSPEC,
    Family::IPV4_FLOWSPEC_VPN,
    Family::IPV6_FLOWSPEC_VPN,
    Family::IPV4_SRPOLICY,
    Family::IPV6_SRPOLICY,
    Family::L2VPN_EVPN,
    Family::RTC,
];

pub fn families() -> &'static [Family] {
    &ALL_FAMILIES
}

pub fn family_class(f: Family) -> &'static str {
    match f {
        Family::IPV4 => "ipv4",
        Family::IPV6 => "ipv6",
        Family::IPV4_MC | Family::IPV6_MC => "multicast",
        Family::IPV4_MPLS | Family::IPV6_MPLS => "labeled",
        Family::LS => "ls",
        Family::IPV4_MUP | Family::IPV6_MUP => "mup",
        Family::IPV4_VPN | Family::IPV6_VPN => "vpn",
        Family::IPV4_FLOWSPEC | Family::IPV6_FLOWSPEC => "flowspec",
        Family::IPV4_FLOWSPEC_VPN | Family::IPV6_FLOWSPEC_VPN => "flowspec-vpn",
        Family::IPV4_SRPOLICY | Family::IPV6_SRPOLICY => "srpolicy",
        Family::L2VPN_EVPN => "evpn",
        Family::RTC => "rtc",
        _ => "other",
    }
}

pub fn family_name(f: Family) -> String {
    format!("{}/{}", f.afi(), f.safi())
}

pub fn is_flowspec(f: Family) -> bool {
    matches!(
        f,
        Family::IPV4_FLOWSPEC | Family::IPV6_FLOWSPEC | Family::IPV4_FLOWSPEC_VPN | Family::IPV6_FLOWSPEC_VPN
    )
}

pub fn is_labeled(f: Family) -> bool {
    matches!(f, Family::IPV4_MPLS | Family::IPV6_MPLS)
}

// ------------------------------------------------------------------ capability sets

#[derive(Clone)]
pub struct CapSet {
    pub name: &'static str,
    pub caps: Vec<Capability>,
}

#[derive(Clone, Copy)]
enum Ap {
    None,
    All(u8),
    Cycle(usize),
    Only(Family, u8),
}

fn capset(name: &'static str, fams: &[Family], as4: bool, ext: bool, ap: Ap, enh: bool, extras: bool) -> CapSet {
    let mut caps = Vec::new();
    for f in fams {
        caps.push(Capability::MultiProtocol(*f));
    }
    caps.push(Capability::RouteRefresh);
    if enh {
        let v: Vec<(Family, u16)> = fams
            .iter()
            .filter(|f| matches!(**f, Family::IPV4 | Family::IPV4_MPLS | Family::IPV4_VPN))
            .map(|f| (*f, Family::AFI_IP6))
            .collect();
        if !v.is_empty() {
            caps.push(Capability::ExtendedNexthop(v));
        }
    }
    if ext {
        caps.push(Capability::ExtendedMessage);
    }
    if as4 {
        caps.push(Capability::FourOctetAsNumber(4_200_000_000 - name.len() as u32));
    }
    let apv: Vec<(Family, u8)> = match ap {
        Ap::None => vec![],
        Ap::All(m) => fams.iter().map(|f| (*f, m)).collect(),
        Ap::Cycle(shift) => fams
            .iter()
            .enumerate()
            .filter_map(|(i, f)| {
                let m = ((i + shift) % 4) as u8;
                if m == 0 { None } else { Some((*f, m)) }
            })
            .collect(),
        Ap::Only(f, m) => vec![(f, m)],
    };
    if !apv.is_empty() {
        caps.push(Capability::AddPath(apv));
    }
    if extras {
        caps.push(Capability::GracefulRestart {
            flags: 0x8,
            restart_time: 120,
            families: fams.iter().take(6).map(|f| (*f, 0x80)).collect(),
        });
        caps.push(Capability::LongLivedGracefulRestart(
            fams.iter().take(4).map(|f| (*f, 0x80, 3600)).collect(),
        ));
        caps.push(Capability::EnhancedRouteRefresh);
        caps.push(Capability::Fqdn {
            hostname: "rtr1".into(),
            domain: "example.net".into(),
        });
        caps.push(Capability::Unknown {
            code: 200,
            bin: vec![1, 2, 3],
        });
    }
    CapSet { name, caps }
}

/// The pool of capability sets (16 sets → 256 ordered pairs).
pub fn cap_pool() -> Vec<CapSet> {
    let all = families();
    let v46 = [Family::IPV4, Family::IPV6];
    let exotic: Vec<Family> = all
        .iter()
        .copied()
        .filter(|f| !matches!(*f, Family::IPV4 | Family::IPV6))
        .collect();
    vec![
        capset("full", all, true, true, Ap::All(3), true, false),
        capset("plain4k", all, true, false, Ap::None, false, false),
        capset("old2byte", all, false, false, Ap::None, false, false),
        capset("old2byte-ext", all, false, true, Ap::All(3), false, false),
        capset("ap-tx-only", all, true, false, Ap::All(2), false, false),
        capset("ap-rx-only", all, true, false, Ap::All(1), false, false),
        capset("ap-mixed", all, true, true, Ap::Cycle(0), false, false),
        capset("enh-4k", all, true, false, Ap::All(3), true, false),
        capset("v4v6-only", &v46, true, true, Ap::Only(Family::IPV4, 3), false, false),
        capset("old-ap", all, false, false, Ap::All(3), false, false),
        capset("ext-noap", all, true, true, Ap::None, false, false),
        capset("gr-llgr-fqdn", all, true, false, Ap::Cycle(1), false, true),
        capset("enh-ext-old", all, false, true, Ap::All(1), true, false),
        capset("min-v4", &[Family::IPV4], false, false, Ap::None, false, false),
        capset("exotic-only", &exotic, true, true, Ap::All(2), false, false),
        capset("ap-mixed2", all, true, false, Ap::Cycle(2), false, true),
    ]
}

/// What the two capability sets negotiate, read from the RFCs (5492, 6793,
/// 7911, 8654) — independent of `PeerCodec::negotiate`.
#[derive(Clone)]
pub struct Model {
    pub max_len: usize,
    pub two_byte: bool,
    /// families both sides announced, with "local sends path ids" flag
    pub fams: Vec<(Family, bool)>,
}

impl Model {
    pub fn new(local: &[Capability], remote: &[Capability]) -> Model {
        let has_ext = |v: &[Capability]| v.iter().any(|c| matches!(c, Capability::ExtendedMessage));
        let has_as4 = |v: &[Capability]| v.iter().any(|c| matches!(c, Capability::FourOctetAsNumber(_)));
        let mp = |v: &[Capability]| -> Vec<Family> {
            v.iter()
                .filter_map(|c| if let Capability::MultiProtocol(f) = c { Some(*f) } else { None })
                .collect()
        };
        let ap = |v: &[Capability], f: Family| -> u8 {
            let mut m = 0;
            for c in v {
                if let Capability::AddPath(l) = c {
                    for (ff, mm) in l {
                        if *ff == f {
                            m = *mm;
                        }
                    }
                }
            }
            m
        };
        let rf = mp(remote);
        let fams = mp(local)
            .into_iter()
            .filter(|f| rf.contains(f))
            .map(|f| (f, ap(local, f) & 2 != 0 && ap(remote, f) & 1 != 0))
            .collect();
        Model {
            max_len: if has_ext(local) && has_ext(remote) { 65535 } else { 4096 },
            two_byte: !(has_as4(local) && has_as4(remote)),
            fams,
        }
    }
    pub fn has(&self, f: Family) -> bool {
        self.fams.iter().any(|(x, _)| *x == f)
    }
    pub fn addpath_tx(&self, f: Family) -> bool {
        self.fams.iter().any(|(x, a)| *x == f && *a)
    }
    pub fn addpath_tx_raw(&self, afi: u16, safi: u8) -> bool {
        self.fams.iter().any(|(x, a)| x.afi() == afi && x.safi() == safi && *a)
    }
}

// ------------------------------------------------------------------ small helpers

fn v4(rng: &mut Rng) -> Ipv4Addr {
    Ipv4Addr::from(rng.next_u32())
}
fn v6(rng: &mut Rng) -> Ipv6Addr {
    Ipv6Addr::from(((rng.next_u64() as u128) << 64) | rng.next_u64() as u128)
}
fn clean4(a: u32, mask: u8) -> Ipv4Addr {
    let m = if mask == 0 { 0 } else { u32::MAX << (32 - mask as u32) };
    Ipv4Addr::from(a & m)
}
fn clean6(a: u128, mask: u8) -> Ipv6Addr {
    let m = if mask == 0 { 0 } else { u128::MAX << (128 - mask as u32) };
    Ipv6Addr::from(a & m)
}

#[derive(Clone, Copy, PartialEq, Eq, Debug)]
pub enum Size {
    Max,
    Mixed,
    Min,
}

fn mask(rng: &mut Rng, bits: u8, size: Size) -> u8 {
    match size {
        Size::Max => bits - (rng.below(8) as u8).min(bits),
        Size::Min => rng.below(9) as u8,
        Size::Mixed => rng.range(0, bits as u64) as u8,
    }
}

fn net4(rng: &mut Rng, size: Size) -> Ipv4Net {
    let m = mask(rng, 32, size);
    Ipv4Net {
        addr: clean4(rng.next_u32(), m),
        mask: m,
    }
}
fn net6(rng: &mut Rng, size: Size) -> Ipv6Net {
    let m = mask(rng, 128, size);
    let a = ((rng.next_u64() as u128) << 64) | rng.next_u64() as u128;
    Ipv6Net {
        addr: clean6(a, m),
        mask: m,
    }
}

pub fn rd(rng: &mut Rng) -> RouteDistinguisher {
    match rng.below(3) {
        0 => RouteDistinguisher::TwoOctetAs {
            admin: rng.next_u32() as u16,
            assigned: rng.next_u32(),
        },
        1 => RouteDistinguisher::Ipv4 {
            admin: v4(rng),
            assigned: rng.next_u32() as u16,
        },
        _ => RouteDistinguisher::FourOctetAs {
            admin: rng.next_u32(),
            assigned: rng.next_u32() as u16,
        },
    }
}

fn labels(rng: &mut Rng, max: usize, size: Size) -> MplsLabelStack {
    let n = match size {
        Size::Max => max,
        Size::Min => 1,
        Size::Mixed => 1 + rng.usize(max),
    }
    .max(1);
    // 0x80000 as the first label would encode as 0x800000, the RFC 8277 §2.4
    // withdrawal compatibility value, and make the wire-level accounting of
    // withdrawals ambiguous: not generated in first position
    MplsLabelStack::new(
        (0..n)
            .map(|i| {
                let l = rng.next_u32() & 0xfffff;
                MplsLabel::new(if i == 0 && l == 0x80000 { 16 } else { l })
            })
            .collect(),
    )
}

fn esi(rng: &mut Rng) -> Esi {
    let mut b = [0u8; 10];
    for x in b.iter_mut() {
        *x = rng.next_u64() as u8;
    }
    Esi(b)
}

fn ops(rng: &mut Rng, n: usize) -> Vec<Op> {
    (0..n)
        .map(|i| {
            let mut bits = (rng.below(8) as u8) & 0x07;
            if i > 0 && rng.bool() {
                bits |= Op::AND;
            }
            if i + 1 == n {
                bits |= Op::END;
            }
            let value = match rng.below(8) {
                0..=3 => rng.below(256),
                4 | 5 => rng.below(65536),
                6 => rng.next_u32() as u64,
                _ => rng.next_u64(),
            };
            Op { bits, value }
        })
        .collect()
}

fn flow_target(rng: &mut Rng, size: Size) -> usize {
    match size {
        Size::Min => 1,
        Size::Mixed => 1 + rng.usize(6),
        Size::Max => match rng.below(10) {
            0..=4 => 20 + rng.usize(60),
            5..=7 => 80 + rng.usize(300),
            _ => 200 + rng.usize(230), // ≤ 430 ops · 9 bytes: stays below the 4095-byte NLRI limit
        },
    }
}

fn flow4(rng: &mut Rng, size: Size) -> Vec<FlowspecV4Component> {
    let nops = flow_target(rng, size);
    let mut out = Vec::new();
    if rng.bool() {
        out.push(FlowspecV4Component::DstPrefix(net4(rng, size)));
    }
    if rng.bool() {
        out.push(FlowspecV4Component::SrcPrefix(net4(rng, size)));
    }
    let mut left = nops;
    for t in 3..=12u8 {
        if left == 0 {
            break;
        }
        if !rng.chance(2, 3) && t != 12 {
            continue;
        }
        let k = if t == 12 { left } else { 1 + rng.usize(left) };
        left -= k;
        let o = ops(rng, k);
        out.push(match t {
            3 => FlowspecV4Component::Protocol(o),
            4 => FlowspecV4Component::Port(o),
            5 => FlowspecV4Component::DstPort(o),
            6 => FlowspecV4Component::SrcPort(o),
            7 => FlowspecV4Component::IcmpType(o),
            8 => FlowspecV4Component::IcmpCode(o),
            9 => FlowspecV4Component::TcpFlags(o),
            10 => FlowspecV4Component::PacketLen(o),
            11 => FlowspecV4Component::Dscp(o),
            _ => FlowspecV4Component::Fragment(o),
        });
    }
    out
}

fn flow6(rng: &mut Rng, size: Size) -> Vec<FlowspecV6Component> {
    let nops = flow_target(rng, size);
    let mut out = Vec::new();
    if rng.bool() {
        let prefix = net6(rng, size);
        let offset = if prefix.mask == 0 { 0 } else { rng.below(prefix.mask as u64) as u8 };
        out.push(FlowspecV6Component::DstPrefix { prefix, offset });
    }
    if rng.bool() {
        let prefix = net6(rng, size);
        out.push(FlowspecV6Component::SrcPrefix { prefix, offset: 0 });
    }
    let mut left = nops;
    for t in 3..=13u8 {
        if left == 0 {
            break;
        }
        if !rng.chance(2, 3) && t != 13 {
            continue;
        }
        let k = if t == 13 { left } else { 1 + rng.usize(left) };
        left -= k;
        let o = ops(rng, k);
        out.push(match t {
            3 => FlowspecV6Component::NextHeader(o),
            4 => FlowspecV6Component::Port(o),
            5 => FlowspecV6Component::DstPort(o),
            6 => FlowspecV6Component::SrcPort(o),
            7 => FlowspecV6Component::IcmpType(o),
            8 => FlowspecV6Component::IcmpCode(o),
            9 => FlowspecV6Component::TcpFlags(o),
            10 => FlowspecV6Component::PacketLen(o),
            11 => FlowspecV6Component::Dscp(o),
            12 => FlowspecV6Component::Fragment(o),
            _ => FlowspecV6Component::FlowLabel(o),
        });
    }
    out
}

fn node_desc(rng: &mut Rng, size: Size) -> NodeDescriptor {
    let all = size == Size::Max;
    let opt = |rng: &mut Rng| all || rng.bool();
    NodeDescriptor {
        asn: if opt(rng) { Some(rng.next_u32()) } else { None },
        bgp_ls_id: if opt(rng) { Some(rng.next_u32()) } else { None },
        ospf_area_id: if opt(rng) { Some(rng.next_u32()) } else { None },
        igp_router_id: if opt(rng) {
            let n = *rng.pick(&[4usize, 6, 7, 8]);
            Some(rng.bytes(n))
        } else {
            None
        },
        bgp_router_id: if opt(rng) { Some(rng.next_u32().to_be_bytes()) } else { None },
        bgp_confederation_member: if opt(rng) { Some(rng.next_u32()) } else { None },
    }
}

fn ls_nlri(rng: &mut Rng, size: Size) -> BgpLsNlri {
    let protocol_id = 1 + rng.below(7) as u8;
    let identifier = rng.next_u64();
    match rng.below(11) {
        0 | 1 => BgpLsNlri::Node(BgpLsNodeNlri {
            protocol_id,
            identifier,
            local_node: node_desc(rng, size),
        }),
        2..=4 => {
            let mut link_desc = Vec::new();
            let all = size == Size::Max;
            if all || rng.bool() {
                link_desc.push(LinkDescTlv::LinkId {
                    local: rng.next_u32(),
                    remote: rng.next_u32(),
                });
            }
            if all || rng.bool() {
                link_desc.push(LinkDescTlv::Ipv4InterfaceAddr(rng.next_u32().to_be_bytes()));
            }
            if all || rng.bool() {
                link_desc.push(LinkDescTlv::Ipv4NeighborAddr(rng.next_u32().to_be_bytes()));
            }
            if all || rng.bool() {
                link_desc.push(LinkDescTlv::Ipv6InterfaceAddr(v6(rng).octets()));
            }
            if all || rng.bool() {
                link_desc.push(LinkDescTlv::Ipv6NeighborAddr(v6(rng).octets()));
            }
            if all || rng.bool() {
                let n = 1 + rng.usize(3);
                link_desc.push(LinkDescTlv::MultiTopoId((0..n).map(|_| rng.below(0x1000) as u16).collect()));
            }
            if rng.chance(1, 4) {
                let n = rng.usize(12);
                link_desc.push(LinkDescTlv::Unknown {
                    tlv_type: 3000 + rng.below(100) as u16,
                    value: rng.bytes(n),
                });
            }
            BgpLsNlri::Link(BgpLsLinkNlri {
                protocol_id,
                identifier,
                local_node: node_desc(rng, size),
                remote_node: node_desc(rng, size),
                link_desc,
            })
        }
        5 | 6 => {
            let n = net4(rng, size);
            let mut prefix_desc = Vec::new();
            if rng.bool() {
                prefix_desc.push(PrefixDescTlv::MultiTopoId(vec![rng.below(0x1000) as u16]));
            }
            if rng.bool() {
                prefix_desc.push(PrefixDescTlv::OspfRouteType(1 + rng.below(6) as u8));
            }
            prefix_desc.push(PrefixDescTlv::IpReachability {
                prefix_len: n.mask,
                addr: n.addr.octets()[..n.mask.div_ceil(8) as usize].to_vec(),
            });
            BgpLsNlri::PrefixV4(BgpLsPrefixNlri {
                protocol_id,
                identifier,
                local_node: node_desc(rng, size),
                prefix_desc,
            })
        }
        7 | 8 => {
            let n = net6(rng, size);
            let mut prefix_desc = Vec::new();
            if rng.bool() {
                prefix_desc.push(PrefixDescTlv::OspfRouteType(1 + rng.below(6) as u8));
            }
            prefix_desc.push(PrefixDescTlv::IpReachability {
                prefix_len: n.mask,
                addr: n.addr.octets()[..n.mask.div_ceil(8) as usize].to_vec(),
            });
            if rng.chance(1, 4) {
                let k = rng.usize(8);
                prefix_desc.push(PrefixDescTlv::Unknown {
                    tlv_type: 3100 + rng.below(100) as u16,
                    value: rng.bytes(k),
                });
            }
            BgpLsNlri::PrefixV6(BgpLsPrefixNlri {
                protocol_id,
                identifier,
                local_node: node_desc(rng, size),
                prefix_desc,
            })
        }
        9 => {
            let n = 1 + rng.usize(3);
            BgpLsNlri::Srv6Sid(BgpLsSrv6SidNlri {
                protocol_id,
                identifier,
                local_node: node_desc(rng, size),
                sids: (0..n).map(|_| v6(rng).octets()).collect(),
                multi_topo_ids: (0..n).map(|_| rng.below(0x1000) as u16).collect(),
            })
        }
        _ => {
            let n = rng.usize(40);
            BgpLsNlri::Unknown {
                nlri_type: 100 + rng.below(100) as u16,
                body: rng.bytes(n),
            }
        }
    }
}

fn ipfam(rng: &mut Rng, is_v6: bool) -> IpAddr {
    if is_v6 { IpAddr::V6(v6(rng)) } else { IpAddr::V4(v4(rng)) }
}

fn mup_nlri(rng: &mut Rng, is_v6: bool, size: Size) -> MupNlri {
    let pfx = |rng: &mut Rng| -> (IpAddr, u8) {
        if is_v6 {
            let n = net6(rng, size);
            (IpAddr::V6(n.addr), n.mask)
        } else {
            let n = net4(rng, size);
            (IpAddr::V4(n.addr), n.mask)
        }
    };
    match if size == Size::Max { 2 + rng.below(2) } else { rng.below(4) } {
        0 => {
            let (prefix_addr, prefix_len) = pfx(rng);
            MupNlri::InterworkSegmentDiscovery(MupInterworkSegmentDiscoveryRoute {
                rd: rd(rng),
                prefix_addr,
                prefix_len,
            })
        }
        1 => MupNlri::DirectSegmentDiscovery(MupDirectSegmentDiscoveryRoute {
            rd: rd(rng),
            address: ipfam(rng, is_v6),
        }),
        2 => {
            let (prefix_addr, prefix_len) = pfx(rng);
            MupNlri::Type1SessionTransformed(MupType1SessionTransformedRoute {
                rd: rd(rng),
                prefix_addr,
                prefix_len,
                teid: rng.next_u32(),
                qfi: rng.below(64) as u8,
                endpoint_address: ipfam(rng, is_v6),
                source_address: if size == Size::Max || rng.bool() { Some(ipfam(rng, is_v6)) } else { None },
            })
        }
        _ => {
            let teid_bits = if size == Size::Max { 32 } else { rng.range(0, 32) as u8 };
            let teid_bytes = teid_bits.div_ceil(8) as u32;
            let teid = if teid_bytes == 0 {
                0
            } else {
                rng.next_u32() & (u32::MAX << (32 - 8 * teid_bytes))
            };
            MupNlri::Type2SessionTransformed(MupType2SessionTransformedRoute {
                rd: rd(rng),
                endpoint_address_length: if is_v6 { 128 } else { 32 } + teid_bits,
                endpoint_address: ipfam(rng, is_v6),
                teid,
            })
        }
    }
}

fn evpn_nlri(rng: &mut Rng, size: Size) -> EvpnNlri {
    let big = size == Size::Max;
    let t = if big { *rng.pick(&[2u64, 5, 5, 4]) } else { 1 + rng.below(5) };
    let is_v6 = big || rng.bool();
    let l24 = |rng: &mut Rng| rng.next_u32() & 0xff_ffff;
    match t {
        1 => EvpnNlri::EthernetAutoDiscovery(EthernetAutoDiscoveryRoute {
            rd: rd(rng),
            esi: esi(rng),
            etag: rng.next_u32(),
            label: l24(rng),
        }),
        2 => {
            let mut mac = [0u8; 6];
            for b in mac.iter_mut() {
                *b = rng.next_u64() as u8;
            }
            let ip = if big || rng.chance(2, 3) { Some(ipfam(rng, is_v6)) } else { None };
            EvpnNlri::MacIpAdvertisement(MacIpAdvertisement {
                rd: rd(rng),
                esi: esi(rng),
                etag: rng.next_u32(),
                mac,
                ip,
                label1: l24(rng),
                label2: if big || rng.bool() { Some(l24(rng)) } else { None },
            })
        }
        3 => EvpnNlri::InclusiveMulticastEthernetTag(InclusiveMulticastEthernetTag {
            rd: rd(rng),
            etag: rng.next_u32(),
            originating_router_ip: ipfam(rng, is_v6),
        }),
        4 => EvpnNlri::EthernetSegment(EthernetSegmentRoute {
            rd: rd(rng),
            esi: esi(rng),
            originating_router_ip: ipfam(rng, is_v6),
        }),
        _ => {
            let (ip_prefix, prefix_len) = if is_v6 {
                let n = net6(rng, Size::Mixed);
                (IpAddr::V6(n.addr), n.mask)
            } else {
                let n = net4(rng, Size::Mixed);
                (IpAddr::V4(n.addr), n.mask)
            };
            EvpnNlri::EthernetIpPrefix(EthernetIpPrefixRoute {
                rd: rd(rng),
                esi: esi(rng),
                etag: rng.next_u32(),
                ip_prefix,
                prefix_len,
                gateway_ip: ipfam(rng, is_v6),
                label: l24(rng),
            })
        }
    }
}

/// One NLRI value of `fam`.  `size`: `Max` = the family's largest encodings.
pub fn nlri(rng: &mut Rng, fam: Family, size: Size) -> Nlri {
    match fam {
        Family::IPV4 | Family::IPV4_MC => Nlri::V4(net4(rng, size)),
        Family::IPV6 | Family::IPV6_MC => Nlri::V6(net6(rng, size)),
        Family::IPV4_MPLS => {
            let prefix = net4(rng, size);
            // length octet is in bits: 24·labels + mask ≤ 255
            let maxl = ((255 - prefix.mask as usize) / 24).min(9);
            Nlri::LabeledV4(LabeledV4Nlri {
                labels: labels(rng, maxl, size),
                prefix,
            })
        }
        Family::IPV6_MPLS => {
            let prefix = net6(rng, size);
            let maxl = ((255 - prefix.mask as usize) / 24).min(9);
            Nlri::LabeledV6(LabeledV6Nlri {
                labels: labels(rng, maxl, size),
                prefix,
            })
        }
        Family::IPV4_VPN => {
            let prefix = net4(rng, size);
            let maxl = ((255 - 64 - prefix.mask as usize) / 24).min(6);
            Nlri::VpnV4(VpnV4Nlri {
                labels: labels(rng, maxl, size),
                rd: rd(rng),
                prefix,
            })
        }
        Family::IPV6_VPN => {
            let prefix = net6(rng, size);
            let maxl = ((255 - 64 - prefix.mask as usize) / 24).min(6);
            Nlri::VpnV6(VpnV6Nlri {
                labels: labels(rng, maxl, size),
                rd: rd(rng),
                prefix,
            })
        }
        Family::IPV4_FLOWSPEC => Nlri::FlowspecV4(FlowspecV4Nlri {
            components: flow4(rng, size),
        }),
        Family::IPV6_FLOWSPEC => Nlri::FlowspecV6(FlowspecV6Nlri {
            components: flow6(rng, size),
        }),
        Family::IPV4_FLOWSPEC_VPN => Nlri::FlowspecVpnV4(FlowspecVpnV4Nlri {
            rd: rd(rng),
            components: flow4(rng, size),
        }),
        Family::IPV6_FLOWSPEC_VPN => Nlri::FlowspecVpnV6(FlowspecVpnV6Nlri {
            rd: rd(rng),
            components: flow6(rng, size),
        }),
        Family::LS => Nlri::Ls(ls_nlri(rng, size)),
        Family::IPV4_SRPOLICY => Nlri::SrPolicy(SrPolicyNlri {
            distinguisher: rng.next_u32(),
            color: rng.next_u32(),
            endpoint: IpAddr::V4(v4(rng)),
        }),
        Family::IPV6_SRPOLICY => Nlri::SrPolicy(SrPolicyNlri {
            distinguisher: rng.next_u32(),
            color: rng.next_u32(),
            endpoint: IpAddr::V6(v6(rng)),
        }),
        Family::IPV4_MUP => Nlri::Mup(mup_nlri(rng, false, size)),
        Family::IPV6_MUP => Nlri::Mup(mup_nlri(rng, true, size)),
        Family::L2VPN_EVPN => Nlri::Evpn(evpn_nlri(rng, size)),
        Family::RTC => Nlri::Rtc(match if size == Size::Max { 2 } else { rng.below(3) } {
            0 => RtcNlri::wildcard(),
            1 => RtcNlri {
                match_type: MatchType::AsWildcard {
                    origin_as: rng.next_u32(),
                },
            },
            _ => {
                let mut rt = [0u8; 8];
                for b in rt.iter_mut() {
                    *b = rng.next_u64() as u8;
                }
                RtcNlri {
                    match_type: MatchType::ExactMatch {
                        origin_as: rng.next_u32(),
                        route_target: rt,
                    },
                }
            }
        }),
        _ => unreachable!(),
    }
}

/// Next hop of a shape the wire format of `fam` can carry faithfully.
/// Returns (nexthop, shape-name).
pub fn nexthop(rng: &mut Rng, fam: Family) -> (Option<Nexthop>, &'static str) {
    if is_flowspec(fam) {
        return (None, "none");
    }
    let ll = |rng: &mut Rng| {
        let mut o = v6(rng).octets();
        o[0] = 0xfe;
        o[1] = 0x80;
        o[15] |= 1;
        Ipv6Addr::from(o)
    };
    let g6 = |rng: &mut Rng| {
        let mut o = v6(rng).octets();
        o[0] = 0x20;
        o[1] = 0x01;
        Ipv6Addr::from(o)
    };
    let g4 = |rng: &mut Rng| {
        let mut o = v4(rng).octets();
        o[0] = 10 + (o[0] % 200);
        Ipv4Addr::from(o)
    };
    let afi = fam.afi();
    if fam == Family::IPV4 {
        // legacy encoding needs an IPv4 next hop; the MP form (RFC 8950) is only
        // chosen by the harness when the session negotiated it, see main.rs
        return (Some(Nexthop::V4(g4(rng))), "v4");
    }
    match (afi, rng.below(4)) {
        (Family::AFI_IP, 0..=2) => (Some(Nexthop::V4(g4(rng))), "v4"),
        (Family::AFI_IP, _) => (Some(Nexthop::V6(g6(rng))), "v6"),
        (Family::AFI_IP6, 0 | 1) => (Some(Nexthop::V6(g6(rng))), "v6"),
        (Family::AFI_IP6, _) => (Some(Nexthop::V6LinkLocal(g6(rng), ll(rng))), "v6+ll"),
        (_, 0 | 1) => (Some(Nexthop::V4(g4(rng))), "v4"),
        (_, _) => (Some(Nexthop::V6(g6(rng))), "v6"),
    }
}

pub fn nexthop_v6(rng: &mut Rng, with_ll: bool) -> Nexthop {
    let mut o = v6(rng).octets();
    o[0] = 0x20;
    o[1] = 0x01;
    if with_ll {
        let mut l = v6(rng).octets();
        l[0] = 0xfe;
        l[1] = 0x80;
        l[15] |= 1;
        Nexthop::V6LinkLocal(Ipv6Addr::from(o), Ipv6Addr::from(l))
    } else {
        Nexthop::V6(Ipv6Addr::from(o))
    }
}

// ------------------------------------------------------------------ attributes

/// Canonical (4-octet) AS_PATH value of `hops` ASNs, split over segments.
/// `wide`: include ASNs above 65535.  `confed`: start with confederation
/// segments.  Segment counts are 1..=255.
pub fn as_path_bin(rng: &mut Rng, hops: usize, wide: bool, confed: bool, sets: bool) -> Vec<u8> {
    let mut b = Vec::new();
    let asn = |rng: &mut Rng| -> u32 {
        if wide && rng.chance(1, 3) {
            65536 + rng.below(4_000_000_000) as u32
        } else {
            1 + rng.below(65534) as u32
        }
    };
    if confed {
        let n = 1 + rng.usize(4);
        b.push(3);
        b.push(n as u8);
        for _ in 0..n {
            b.extend_from_slice(&asn(rng).to_be_bytes());
        }
        if rng.chance(1, 3) {
            b.push(4);
            b.push(2);
            for _ in 0..2 {
                b.extend_from_slice(&asn(rng).to_be_bytes());
            }
        }
    }
    let mut left = hops;
    let mut forced_wide = !wide;
    while left > 0 {
        let n = if left > 255 && rng.bool() { 255 } else { 1 + rng.usize(left.min(255)) };
        let t = if sets && rng.chance(1, 5) { 1 } else { 2 };
        b.push(t);
        b.push(n as u8);
        for _ in 0..n {
            let a = if !forced_wide {
                forced_wide = true;
                70000 + rng.below(1000) as u32
            } else {
                asn(rng)
            };
            b.extend_from_slice(&a.to_be_bytes());
        }
        left -= n;
    }
    b
}

pub const OPAQUE_CODES: [u8; 6] = [99, 128, 150, 200, 254, 255];

/// Wire size of an attribute with a value of `n` bytes.
pub fn attr_wire(n: usize) -> usize {
    n + if n > 255 { 4 } else { 3 }
}

#[derive(Clone, Debug, Default)]
pub struct AttrShape {
    pub hops: usize,
    pub wide: bool,
    pub confed: bool,
    pub communities: usize,
    pub opaque: usize,
    pub aggregator_wide: Option<bool>,
}

/// An attribute block whose wire size (4-octet-AS form) is close to `target`
/// bytes (exact to a few bytes when target ≥ 60).
pub fn attrs(rng: &mut Rng, target: usize, allow_wide: bool) -> (Vec<Attribute>, AttrShape) {
    let mut v = Vec::new();
    let mut shape = AttrShape::default();
    let mut used = 0usize;
    v.push(Attribute::new_with_value(Attribute::ORIGIN, rng.below(3) as u32).unwrap());
    used += 4;
    // budget split: AS_PATH gets a random share, communities a share, opaque rest
    let budget = target.saturating_sub(used);
    let wide = allow_wide && rng.chance(2, 3);
    let confed = rng.chance(1, 8);
    let sets = rng.chance(1, 4);
    let path_share = match rng.below(6) {
        0 => budget,
        1 => budget / 2,
        2 => budget / 4,
        _ => budget.min(8 + rng.usize(60)),
    }
    .min(60000);
    let hops = if rng.chance(1, 12) { 0 } else { (path_share.saturating_sub(3) / 4).max(1) };
    let path = if hops == 0 { vec![] } else { as_path_bin(rng, hops, wide, confed, sets) };
    shape.hops = hops;
    shape.wide = wide && hops > 0;
    shape.confed = confed && hops > 0;
    used += attr_wire(path.len());
    v.push(Attribute::new_with_bin(Attribute::AS_PATH, path).unwrap());
    let small = |rng: &mut Rng, v: &mut Vec<Attribute>, used: &mut usize, shape: &mut AttrShape| {
        if rng.bool() {
            v.push(Attribute::new_with_value(Attribute::MULTI_EXIT_DESC, rng.next_u32()).unwrap());
            *used += 7;
        }
        if rng.bool() {
            v.push(Attribute::new_with_value(Attribute::LOCAL_PREF, rng.next_u32()).unwrap());
            *used += 7;
        }
        if rng.chance(1, 4) {
            v.push(Attribute::new_with_bin(Attribute::ATOMIC_AGGREGATE, vec![]).unwrap());
            *used += 3;
        }
        if rng.chance(1, 3) {
            let w = allow_wide && rng.bool();
            let asn: u32 = if w { 65536 + rng.below(1_000_000) as u32 } else { 1 + rng.below(65000) as u32 };
            let mut b = asn.to_be_bytes().to_vec();
            b.extend_from_slice(&rng.next_u32().to_be_bytes());
            v.push(Attribute::new_with_bin(Attribute::AGGREGATOR, b).unwrap());
            shape.aggregator_wide = Some(w);
            *used += 11;
        }
        if rng.chance(1, 4) {
            v.push(Attribute::new_with_value(Attribute::ORIGINATOR_ID, rng.next_u32()).unwrap());
            *used += 7;
            let n = 1 + rng.usize(4);
            v.push(Attribute::new_with_bin(Attribute::CLUSTER_LIST, rng.bytes(4 * n)).unwrap());
            *used += 3 + 4 * n;
        }
        if rng.chance(1, 5) {
            let n = 11;
            let mut b = vec![1u8, 0, n as u8];
            b.extend_from_slice(&rng.bytes(8));
            v.push(Attribute::new_with_bin(Attribute::AIGP, b).unwrap());
            *used += 3 + n;
        }
    };
    if budget > 80 || rng.bool() {
        small(rng, &mut v, &mut used, &mut shape);
    }
    let bulk = |rng: &mut Rng, code: u8, unit: usize, v: &mut Vec<Attribute>, used: &mut usize| -> usize {
        let left = target.saturating_sub(*used);
        if left < unit + 4 {
            return 0;
        }
        let share = if rng.bool() { left } else { rng.usize(left) };
        let n = ((share.saturating_sub(4)) / unit).min(65000 / unit);
        if n == 0 {
            return 0;
        }
        v.push(Attribute::new_with_bin(code, rng.bytes(n * unit)).unwrap());
        *used += attr_wire(n * unit);
        n
    };
    if rng.chance(2, 3) {
        shape.communities += bulk(rng, Attribute::COMMUNITY, 4, &mut v, &mut used);
    }
    if rng.chance(1, 3) {
        shape.communities += bulk(rng, Attribute::EXTENDED_COMMUNITY, 8, &mut v, &mut used);
    }
    if rng.chance(1, 3) {
        shape.communities += bulk(rng, Attribute::LARGE_COMMUNITY, 12, &mut v, &mut used);
    }
    for code in [Attribute::PREFIX_SID, Attribute::LS, Attribute::TUNNEL_ENCAP] {
        if rng.chance(1, 8) {
            let left = target.saturating_sub(used);
            if left > 12 {
                let n = 4 + rng.usize((left - 8).min(300));
                v.push(Attribute::new_with_bin(code, rng.bytes(n)).unwrap());
                used += attr_wire(n);
            }
        }
    }
    // opaque (unknown optional transitive) attributes fill the remainder exactly
    let mut codes = OPAQUE_CODES.to_vec();
    rng.shuffle(&mut codes);
    while let Some(code) = codes.pop() {
        let left = target.saturating_sub(used);
        if left < 3 {
            break;
        }
        let take = if codes.is_empty() || rng.bool() { left } else { 3 + rng.usize(left - 2) };
        // value length n with attr_wire(n) == take (skip the 256..258 hole)
        let n = if take <= 258 { take.min(258) - 3 } else { take - 4 }.min(65000);
        if take > 258 && n <= 255 {
            continue;
        }
        let flags = 0xc0 | if rng.chance(1, 3) { 0x20 } else { 0 };
        v.push(Attribute::new_opaque(code, flags, rng.bytes(n)));
        used += attr_wire(n);
        shape.opaque += 1;
        if rng.chance(1, 2) {
            break;
        }
    }
    // the daemon keeps attributes sorted by code when it builds them, but the
    // encoder must not depend on it
    if rng.chance(1, 4) {
        rng.shuffle(&mut v);
    }
    (v, shape)
}

// ------------------------------------------------------------------ OPEN

/// Wire form (code, value) of a capability, from RFC 5492 and the
/// capability-specific RFCs.
pub fn cap_wire(c: &Capability) -> (u8, Vec<u8>) {
    let fam3 = |f: &Family, b: &mut Vec<u8>| {
        b.extend_from_slice(&f.afi().to_be_bytes());
        b.push(f.safi());
    };
    match c {
        Capability::MultiProtocol(f) => {
            let mut b = f.afi().to_be_bytes().to_vec();
            b.push(0);
            b.push(f.safi());
            (1, b)
        }
        Capability::RouteRefresh => (2, vec![]),
        Capability::ExtendedNexthop(v) => {
            let mut b = Vec::new();
            for (f, afi) in v {
                b.extend_from_slice(&f.afi().to_be_bytes());
                b.extend_from_slice(&(f.safi() as u16).to_be_bytes());
                b.extend_from_slice(&afi.to_be_bytes());
            }
            (5, b)
        }
        Capability::ExtendedMessage => (6, vec![]),
        Capability::GracefulRestart {
            flags,
            restart_time,
            families,
        } => {
            let mut b = (((*flags as u16) << 12) | (*restart_time & 0xfff)).to_be_bytes().to_vec();
            for (f, fl) in families {
                fam3(f, &mut b);
                b.push(*fl);
            }
            (64, b)
        }
        Capability::FourOctetAsNumber(a) => (65, a.to_be_bytes().to_vec()),
        Capability::AddPath(v) => {
            let mut b = Vec::new();
            for (f, m) in v {
                fam3(f, &mut b);
                b.push(*m);
            }
            (69, b)
        }
        Capability::EnhancedRouteRefresh => (70, vec![]),
        Capability::LongLivedGracefulRestart(v) => {
            let mut b = Vec::new();
            for (f, fl, t) in v {
                fam3(f, &mut b);
                b.push(*fl);
                b.extend_from_slice(&t.to_be_bytes()[1..]);
            }
            (71, b)
        }
        Capability::Fqdn { hostname, domain } => {
            let mut b = vec![hostname.len() as u8];
            b.extend_from_slice(hostname.as_bytes());
            b.push(domain.len() as u8);
            b.extend_from_slice(domain.as_bytes());
            (73, b)
        }
        Capability::Unknown { code, bin } => (*code, bin.clone()),
    }
}

pub fn caps_tlv_sum(caps: &[Capability]) -> usize {
    caps.iter().map(|c| 2 + cap_wire(c).1.len()).sum()
}

/// Capability list whose TLVs sum to exactly `target` bytes (when target ≥ base).
pub fn open_caps(rng: &mut Rng, base: &[Capability], target: usize) -> Vec<Capability> {
    let mut caps: Vec<Capability> = base.to_vec();
    // drop random MultiProtocol entries if already above target
    while caps_tlv_sum(&caps) > target && caps.len() > 1 {
        let i = rng.usize(caps.len());
        caps.remove(i);
    }
    let mut code = 130u8;
    loop {
        let s = caps_tlv_sum(&caps);
        if s >= target {
            break;
        }
        let left = target - s;
        if left == 1 {
            // cannot add a 1-byte TLV: grow an Unknown value instead
            if let Some(Capability::Unknown { bin, .. }) =
                caps.iter_mut().find(|c| matches!(c, Capability::Unknown { bin, .. } if bin.len() < 255))
            {
                bin.push(7);
            } else {
                break;
            }
            continue;
        }
        match rng.below(5) {
            0 if left >= 6 => caps.push(Capability::MultiProtocol(*rng.pick(families()))),
            1 if left >= 9 => {
                let n = ((left - 2) / 7).min(1 + rng.usize(8));
                caps.push(Capability::LongLivedGracefulRestart(
                    (0..n).map(|_| (*rng.pick(families()), 0x80, rng.below(1 << 24) as u32)).collect(),
                ));
            }
            2 if left >= 8 => {
                let n = ((left - 4) / 4).min(rng.usize(8));
                caps.push(Capability::GracefulRestart {
                    flags: rng.below(16) as u8,
                    restart_time: rng.below(4096) as u16,
                    families: (0..n).map(|_| (*rng.pick(families()), 0x80)).collect(),
                });
            }
            3 if left >= 10 => {
                let room = (left - 4).min(60);
                let h = 1 + rng.usize(room - 1);
                let d = (room - h).min(rng.usize(20));
                let name = |n: usize, rng: &mut Rng| -> String {
                    (0..n).map(|_| (b'a' + rng.below(26) as u8) as char).collect()
                };
                caps.push(Capability::Fqdn {
                    hostname: name(h, rng),
                    domain: name(d, rng),
                });
            }
            _ => {
                let n = (left - 2).min(if rng.bool() { 255 } else { rng.usize(40) });
                caps.push(Capability::Unknown {
                    code,
                    bin: rng.bytes(n),
                });
                code = code.wrapping_add(1).max(130);
            }
        }
    }
    caps
}
