//! C04 oracle: framing, peer decode, content comparison, fixed point.
use crate::walker::{self, WNlri};
use crate::workload::*;
use bytes::BytesMut;
use rbgp_verif::common::*;
use rustybgp_packet::bgp::{Message, Nexthop, PathNlri, PeerCodec, Update};
use rustybgp_packet::{Attribute, Capability, Family, Nlri, validate_message};
use std::collections::{BTreeMap, HashMap};

pub struct Finding {
    pub sig: String,
    pub what: String,
    pub extra: Vec<(&'static str, Json)>,
}

fn finding(sig: String, what: String) -> Finding {
    Finding {
        sig,
        what,
        extra: vec![],
    }
}

pub struct Session<'a> {
    pub local: &'a CapSet,
    pub remote: &'a CapSet,
    pub model: Model,
}

impl<'a> Session<'a> {
    pub fn new(local: &'a CapSet, remote: &'a CapSet) -> Self {
        Session {
            local,
            remote,
            model: Model::new(&local.caps, &remote.caps),
        }
    }
    fn sender(&self) -> PeerCodec {
        PeerCodec::negotiate(&self.local.caps, &self.remote.caps)
    }
    fn peer(&self) -> PeerCodec {
        PeerCodec::negotiate(&self.remote.caps, &self.local.caps)
    }
}

pub struct Encoded {
    pub ret: Result<usize, String>,
    pub bytes: Vec<u8>,
}

pub fn encode(s: &Session, msg: &Message) -> Result<Encoded, PanicInfo> {
    guard(|| {
        let mut c = s.sender();
        let mut buf = BytesMut::new();
        let r = c.encode_to(msg, &mut buf);
        Encoded {
            ret: r.map_err(|e| e.to_string()),
            bytes: buf.to_vec(),
        }
    })
}

/// Decode a byte stream with the peer's codec (+ validate_message, iBGP so that
/// nothing is filtered).  Err = (notification debug name, frames decoded so far).
pub fn peer_decode(s: &Session, bytes: &[u8]) -> Result<Result<Vec<Message>, String>, PanicInfo> {
    guard(|| {
        let mut c = s.peer();
        let mut buf = BytesMut::from(bytes);
        let mut out = Vec::new();
        loop {
            match c.try_parse(&mut buf) {
                Ok(Some(pm)) => match validate_message(pm, false) {
                    Ok(it) => out.extend(it),
                    Err(n) => return Err(format!("validate:{}", notif_name(&n))),
                },
                Ok(None) => {
                    if !buf.is_empty() {
                        return Err("incomplete-trailing-bytes".to_string());
                    }
                    return Ok(out);
                }
                Err(n) => return Err(notif_name(&n)),
            }
        }
    })
}

fn notif_name(n: &rustybgp_packet::Notification) -> String {
    let d = format!("{:?}", n);
    d.split(|c: char| !c.is_alphanumeric()).next().unwrap_or("?").to_string()
}

pub fn panic_finding(p: &PanicInfo, stage: &str) -> Finding {
    let mut f = finding(
        format!("C04/panic/{}:{}", p.location, panic_class(&p.message)),
        format!("panic in {}: {} at {}", stage, p.message, p.location),
    );
    f.extra.push(("stage", Json::s(stage)));
    f
}

// ------------------------------------------------------------------ attribute canonical form

#[derive(Clone, Debug, PartialEq, Eq)]
pub struct CAttr {
    pub flags: u8, // extended-length bit cleared
    pub val: Vec<u8>,
}

pub fn canon(a: &Attribute) -> CAttr {
    CAttr {
        flags: a.flags() & !0x10,
        val: match a.value() {
            Some(v) => v.to_be_bytes().to_vec(),
            None => a.binary().cloned().unwrap_or_default(),
        },
    }
}

fn strip_confed(path: &[u8]) -> Vec<u8> {
    let mut out = Vec::new();
    let mut p = 0;
    while p + 2 <= path.len() {
        let n = path[p + 1] as usize;
        let e = (p + 2 + 4 * n).min(path.len());
        if path[p] == 1 || path[p] == 2 {
            out.extend_from_slice(&path[p..e]);
        }
        p = e;
    }
    out
}

fn path_has_confed(path: &[u8]) -> bool {
    let mut p = 0;
    while p + 2 <= path.len() {
        if path[p] == 3 || path[p] == 4 {
            return true;
        }
        p += 2 + 4 * path[p + 1] as usize;
    }
    false
}

fn path_has(path: &[u8], pred: &dyn Fn(u8, u32) -> bool) -> bool {
    let mut p = 0;
    while p + 2 <= path.len() {
        let n = path[p + 1] as usize;
        for i in 0..n {
            let s = p + 2 + 4 * i;
            if s + 4 > path.len() {
                return false;
            }
            let a = u32::from_be_bytes([path[s], path[s + 1], path[s + 2], path[s + 3]]);
            if pred(path[p], a) {
                return true;
            }
        }
        p += 2 + 4 * n;
    }
    false
}

/// Compare the attributes the peer decoded with the input, up to the
/// documented canonicalisation.  Returns findings; `unjudged` receives counter
/// names for differences the statement does not let us judge.
pub fn compare_attrs(input: &[Attribute], got: &[Attribute], two_byte: bool, unjudged: &mut Vec<&'static str>) -> Vec<Finding> {
    let mut out = Vec::new();
    let mut exp: BTreeMap<u8, CAttr> = BTreeMap::new();
    for a in input {
        exp.insert(a.code(), canon(a));
    }
    let mut have: BTreeMap<u8, CAttr> = BTreeMap::new();
    for a in got {
        if have.insert(a.code(), canon(a)).is_some() {
            out.push(finding(
                format!("C04/attr-duplicate/{}", a.code()),
                format!("peer decoded attribute {} twice", a.code()),
            ));
        }
    }
    for (code, e) in &exp {
        match have.get(code) {
            None => out.push(finding(
                format!("C04/attr-lost/{}", code),
                format!("attribute {} of the input is absent after decode at the peer", code),
            )),
            Some(g) => {
                if g.flags != e.flags {
                    let only_partial = (g.flags ^ e.flags) == 0x20;
                    if only_partial && two_byte && (*code == Attribute::AS_PATH || *code == Attribute::AGGREGATOR) {
                        unjudged.push("unjudged:partial-bit-reset-by-2byte-rebuild");
                    } else {
                        out.push(finding(
                            format!("C04/attr-flags/{}", code),
                            format!("attribute {} flags {:#x} became {:#x}", code, e.flags, g.flags),
                        ));
                    }
                }
                if g.val != e.val {
                    if *code == Attribute::AS_PATH && two_byte {
                        let wide = path_has(&e.val, &|_, a| a > 65535);
                        let confed = path_has_confed(&e.val);
                        if wide && confed {
                            // RFC 6793 reconstruction across an OLD session is lossy
                            // for confederation segments; only the real-AS hops are
                            // required to survive.
                            if strip_confed(&g.val) == strip_confed(&e.val) {
                                unjudged.push("unjudged:as4-reconstruction-dropped-confed-segments");
                                continue;
                            }
                            if path_has(&e.val, &|t, a| (t == 3 || t == 4) && a > 65535) && strip_confed(&e.val).is_empty() {
                                unjudged.push("unjudged:as4-wide-as-only-in-confed-segments");
                                continue;
                            }
                        }
                    }
                    let mut f = finding(
                        format!("C04/attr-value/{}", code),
                        format!(
                            "attribute {} value differs after encode→peer-decode ({} → {} bytes, two_byte_as={})",
                            code,
                            e.val.len(),
                            g.val.len(),
                            two_byte
                        ),
                    );
                    f.extra.push(("expected_head", Json::s(hex(&e.val[..e.val.len().min(64)]))));
                    f.extra.push(("got_head", Json::s(hex(&g.val[..g.val.len().min(64)]))));
                    out.push(f);
                }
            }
        }
    }
    for code in have.keys() {
        if !exp.contains_key(code) {
            out.push(finding(
                format!("C04/attr-extra/{}", code),
                format!("peer decoded attribute {} that the input does not have", code),
            ));
        }
    }
    out
}

// ------------------------------------------------------------------ next hop

fn nh_shape(n: &Option<Nexthop>) -> &'static str {
    match n {
        None => "none",
        Some(Nexthop::V4(_)) => "v4",
        Some(Nexthop::V6(_)) => "v6",
        Some(Nexthop::V6LinkLocal(..)) => "v6+ll",
    }
}

fn nh_canon(n: &Option<Nexthop>) -> Option<Nexthop> {
    match n {
        Some(Nexthop::V6LinkLocal(g, l)) if l.is_unspecified() => Some(Nexthop::V6(*g)),
        x => *x,
    }
}

pub fn compare_nexthop(fam: Family, input: &Option<Nexthop>, got: &Option<Nexthop>) -> Option<Finding> {
    let (e, g) = (nh_canon(input), nh_canon(got));
    if e == g {
        return None;
    }
    if let (Some(Nexthop::V4(a)), Some(Nexthop::V6(b))) = (e, g) {
        let o = b.octets();
        if o[..4] == a.octets() && o[4..].iter().all(|x| *x == 0) {
            let mut f = finding(
                "C04/nexthop/v4-padded-to-16".into(),
                format!(
                    "IPv4 next hop {} of a {} route is sent as 16 bytes (zero padded) and decodes as IPv6 {}",
                    a,
                    family_class(fam),
                    b
                ),
            );
            f.extra.push(("family", Json::s(family_name(fam))));
            return Some(f);
        }
    }
    Some(finding(
        format!("C04/nexthop/{}/{}->{}", family_class(fam), nh_shape(&e), nh_shape(&g)),
        format!("next hop {:?} decodes as {:?}", e, g),
    ))
}

// ------------------------------------------------------------------ the UPDATE judgement

pub struct UpdateIn<'a> {
    pub family: Family,
    pub entries: &'a [PathNlri],
    /// Some((nexthop, attrs)) for Reach
    pub reach: Option<(&'a Option<Nexthop>, &'a [Attribute])>,
}

pub fn split_update(msg: &Message) -> Option<UpdateIn<'_>> {
    match msg {
        Message::Update(Update::Reach {
            family,
            entries,
            nexthop,
            attr,
        }) => Some(UpdateIn {
            family: *family,
            entries,
            reach: Some((nexthop, attr.as_slice())),
        }),
        Message::Update(Update::Unreach { family, entries }) => Some(UpdateIn {
            family: *family,
            entries,
            reach: None,
        }),
        _ => None,
    }
}

/// Key under which a prefix is compared: labeled-unicast withdrawals carry no
/// meaningful label (RFC 8277 §2.4), everything else is compared in full.
pub fn entry_key(fam: Family, unreach: bool, e: &PathNlri) -> (u32, Nlri) {
    if unreach && is_labeled(fam) {
        use rustybgp_packet::mpls::{MplsLabel, MplsLabelStack};
        let zero = MplsLabelStack::new(vec![MplsLabel::new(0)]);
        let n = match &e.nlri {
            Nlri::LabeledV4(n) => Nlri::LabeledV4(rustybgp_packet::labeled::LabeledV4Nlri {
                labels: zero,
                prefix: n.prefix,
            }),
            Nlri::LabeledV6(n) => Nlri::LabeledV6(rustybgp_packet::labeled::LabeledV6Nlri {
                labels: zero,
                prefix: n.prefix,
            }),
            o => o.clone(),
        };
        return (e.path_id, n);
    }
    (e.path_id, e.nlri.clone())
}

#[derive(Default)]
pub struct Observed {
    pub frames: usize,
    pub max_frame: usize,
    pub overhead: usize,
    pub representable: bool,
    pub bytes: Vec<u8>,
    pub frame_lens: Vec<usize>,
    pub decoded: Vec<Message>,
    pub counters: Vec<&'static str>,
    pub err_returned: bool,
}

/// Size of everything in a frame that is not NLRI, computed from the RFCs for
/// this session (RFC 4271 §4.3, RFC 4760 §3, RFC 6793 §4.2.2).  Used to decide
/// whether the input is representable when the encoder wrote nothing.
fn model_overhead(s: &Session, u: &UpdateIn) -> usize {
    let mut o = 23usize;
    let Some((nh, attrs)) = &u.reach else {
        return if u.family == Family::IPV4 { 23 } else { 23 + 4 + 3 };
    };
    for a in attrs.iter() {
        let code = a.code();
        match a.value() {
            Some(_) => o += if code == Attribute::ORIGIN { 4 } else { 7 },
            None => {
                let b = a.binary().map(|b| b.as_slice()).unwrap_or(&[]);
                if s.model.two_byte && code == Attribute::AS_PATH {
                    let (mut two, mut four, mut wide) = (0usize, 0usize, false);
                    let mut p = 0;
                    while p + 2 <= b.len() {
                        let n = b[p + 1] as usize;
                        two += 2 + 2 * n;
                        if b[p] == 1 || b[p] == 2 {
                            four += 2 + 4 * n;
                        }
                        p += 2 + 4 * n;
                    }
                    if path_has(b, &|_, x| x > 65535) {
                        wide = true;
                    }
                    o += attr_wire(two) + if wide { attr_wire(four) } else { 0 };
                } else if s.model.two_byte && code == Attribute::AGGREGATOR && b.len() == 8 {
                    let wide = u32::from_be_bytes([b[0], b[1], b[2], b[3]]) > 65535;
                    o += attr_wire(6) + if wide { attr_wire(8) } else { 0 };
                } else {
                    o += attr_wire(b.len());
                }
            }
        }
    }
    let mp = |nhl: usize| 4 + 4 + nhl + 1;
    let nh_len = match nh {
        None => 0,
        Some(Nexthop::V4(_)) => 4,
        Some(Nexthop::V6(_)) => 16,
        Some(Nexthop::V6LinkLocal(..)) => 32,
    };
    let is_vpn = matches!(u.family, Family::IPV4_VPN | Family::IPV6_VPN);
    let nhl = if is_flowspec(u.family) {
        0
    } else if is_vpn {
        if nh_len == 32 { 48 } else { 8 + nh_len }
    } else if u.family.afi() == Family::AFI_IP6 && nh_len < 16 {
        16
    } else {
        nh_len
    };
    if u.family == Family::IPV4 && matches!(nh, Some(Nexthop::V4(_))) {
        // legacy (NEXT_HOP attribute) or RFC 4760 form: the encoder may choose
        // either, so only a message that fits in both is demanded to be encoded
        o + mp(4)
    } else {
        o + mp(nhl)
    }
}

/// Judge one Reach / Unreach input on session `s`.
pub fn judge_update(s: &Session, msg: &Message, fixed_point: bool) -> (Vec<Finding>, Observed) {
    let mut fs: Vec<Finding> = Vec::new();
    let mut obs = Observed::default();
    let u = split_update(msg).expect("update");
    let fam = u.family;
    let cls = family_class(fam);
    let dir = if u.reach.is_some() { "reach" } else { "unreach" };
    let addpath = s.model.addpath_tx(fam);
    let max = s.model.max_len;

    let enc = match encode(s, msg) {
        Ok(e) => e,
        Err(p) => {
            fs.push(panic_finding(&p, "encode_to"));
            return (fs, obs);
        }
    };
    obs.err_returned = enc.ret.is_err();
    obs.bytes = enc.bytes.clone();
    let (frames, split_err) = walker::split_frames(&enc.bytes);
    obs.frames = frames.len();
    obs.frame_lens = frames.iter().map(|f| f.len).collect();
    obs.max_frame = obs.frame_lens.iter().copied().max().unwrap_or(0);

    // walk
    let ap = |afi: u16, safi: u8| s.model.addpath_tx_raw(afi, safi);
    let mut walked = Vec::new();
    let mut walk_err: Option<String> = None;
    for f in &frames {
        if f.typ != 2 {
            walk_err.get_or_insert(format!("message-type-{}-for-update", f.typ));
            continue;
        }
        match walker::walk_update(&enc.bytes[f.off..f.off + f.len], &ap) {
            Ok(w) => walked.push(w),
            Err(e) => {
                walk_err.get_or_insert(e);
            }
        }
    }

    // representability (see DESIGN §4 C04): a single NLRI + the attribute block
    // must fit one frame
    let entry_wire: Vec<usize> = u
        .entries
        .iter()
        .map(|e| {
            let n = match (&e.nlri, u.reach.is_none()) {
                // RFC 8277 §2.4 withdrawal: length, 3-octet field, prefix
                (Nlri::LabeledV4(n), true) => 4 + n.prefix.mask.div_ceil(8) as usize,
                (Nlri::LabeledV6(n), true) => 4 + n.prefix.mask.div_ceil(8) as usize,
                (n, _) => n.encode_to_bytes().len(),
            };
            n + if addpath { 4 } else { 0 }
        })
        .collect();
    let max_entry = entry_wire.iter().copied().max().unwrap_or(0);
    let model = model_overhead(s, &u);
    obs.overhead = walked.first().map(|w| w.overhead).unwrap_or(model);
    if obs.overhead > model + 16 {
        obs.counters.push("observed-overhead-more-than-16-above-model");
    }
    obs.representable = obs.overhead + max_entry <= max;

    // wire-level accounting (independent of the peer decoder)
    let mut wire: Vec<WNlri> = Vec::new();
    let mut per_frame: Vec<usize> = Vec::new();
    let mut section_err = None;
    for w in &walked {
        let before = wire.len();
        let (afi, safi) = (fam.afi(), fam.safi());
        if u.reach.is_some() {
            if !w.withdrawn.is_empty() || w.mp_unreach.as_ref().is_some_and(|m| !m.nlri.is_empty()) {
                section_err = Some("withdrawal-in-announcement");
            }
            wire.extend(w.nlri.iter().cloned());
            if let Some(m) = &w.mp_reach {
                if (m.afi, m.safi) != (afi, safi) {
                    section_err = Some("mp-reach-family");
                }
                wire.extend(m.nlri.iter().cloned());
            }
            if fam != Family::IPV4 && !w.nlri.is_empty() {
                section_err = Some("legacy-nlri-for-mp-family");
            }
        } else {
            if !w.nlri.is_empty() || w.mp_reach.as_ref().is_some_and(|m| !m.nlri.is_empty()) {
                section_err = Some("announcement-in-withdrawal");
            }
            wire.extend(w.withdrawn.iter().cloned());
            if let Some(m) = &w.mp_unreach {
                if (m.afi, m.safi) != (afi, safi) {
                    section_err = Some("mp-unreach-family");
                }
                wire.extend(m.nlri.iter().cloned());
            }
        }
        per_frame.push(wire.len() - before);
    }
    // RFC 8277 §2.4: a labeled-unicast withdrawal carries one 3-octet field whose
    // content is ignored; compare such NLRI by (prefix length, prefix) only.
    let strip_label = u.reach.is_none() && is_labeled(fam);
    let norm = |raw: Vec<u8>, labels: usize| -> Vec<u8> {
        if strip_label && raw.len() >= 1 + 3 * labels && raw[0] as usize >= 24 * labels {
            let mut v = vec![raw[0] - (24 * labels) as u8];
            v.extend_from_slice(&raw[1 + 3 * labels..]);
            v
        } else {
            raw
        }
    };
    for w in wire.iter_mut() {
        // wire-level accounting is lenient about how many label octets a
        // withdrawal carries (the peer decode below judges that)
        let mut nl = 0;
        while strip_label && 1 + 3 * (nl + 1) <= w.raw.len() && 24 * (nl + 1) <= w.raw[0] as usize {
            let g = &w.raw[1 + 3 * nl..4 + 3 * nl];
            nl += 1;
            // 0x800000 is the RFC 8277 compatibility value only as the first (single) field
            if g[2] & 1 == 1 || (nl == 1 && g == [0x80, 0, 0]) {
                break;
            }
        }
        w.raw = norm(std::mem::take(&mut w.raw), nl);
    }
    let expect_wire: Vec<WNlri> = u
        .entries
        .iter()
        .map(|e| WNlri {
            path_id: addpath.then_some(e.path_id),
            raw: {
                let nl = match &e.nlri {
                    Nlri::LabeledV4(n) => n.labels.labels().len(),
                    Nlri::LabeledV6(n) => n.labels.labels().len(),
                    _ => 0,
                };
                norm(e.nlri.encode_to_bytes(), nl)
            },
        })
        .collect();
    let mut cnt: HashMap<&WNlri, i64> = HashMap::new();
    for w in &expect_wire {
        *cnt.entry(w).or_insert(0) += 1;
    }
    let mut alien = 0usize;
    for w in &wire {
        match cnt.get_mut(w) {
            Some(c) => *c -= 1,
            None => alien += 1,
        }
    }
    let lost_idx: Vec<usize> = {
        let mut need: HashMap<&WNlri, i64> = cnt.iter().filter(|(_, c)| **c > 0).map(|(k, c)| (*k, *c)).collect();
        let mut v = Vec::new();
        for (i, w) in expect_wire.iter().enumerate().rev() {
            if let Some(c) = need.get_mut(w) {
                if *c > 0 {
                    *c -= 1;
                    v.push(i);
                }
            }
        }
        v.reverse();
        v
    };
    let dup = cnt.values().filter(|c| **c < 0).count();
    let too_long = frames.iter().any(|f| f.len > max);
    let framing_ok = split_err.is_none() && walk_err.is_none() && section_err.is_none() && !too_long;

    if !obs.representable {
        obs.counters.push("class:unrepresentable");
        if enc.ret.is_err() {
            obs.counters.push("unrepresentable:error-returned");
            if !framing_ok {
                fs.push(finding(
                    "C04/unrepresentable/partial-frame-left-on-error".into(),
                    "encode_to returned an error but left bytes that are not whole well-formed frames in the buffer".into(),
                ));
            }
        } else {
            if framing_ok && lost_idx.is_empty() {
                obs.counters.push("unrepresentable:ok-nothing-lost(!)");
            }
            if !framing_ok {
                let mut f = finding(
                    "C04/unrepresentable/bad-frame-no-error".into(),
                    format!(
                        "{} {} whose attribute block + one NLRI exceeds the {}-byte limit: encode_to returned Ok but emitted an over-long or inconsistent frame (max frame {} bytes, {:?} {:?})",
                        cls, dir, max, obs.max_frame, split_err, walk_err
                    ),
                );
                f.extra.push(("overhead", Json::i(obs.overhead as i64)));
                fs.push(f);
            }
            if !lost_idx.is_empty() && walk_err.is_none() && split_err.is_none() {
                fs.push(finding(
                    "C04/unrepresentable/silent-loss".into(),
                    format!(
                        "{} of {} prefixes are not on the wire and encode_to returned Ok ({} {}, overhead {} of {})",
                        lost_idx.len(),
                        u.entries.len(),
                        cls,
                        dir,
                        obs.overhead,
                        max
                    ),
                ));
            }
        }
        return (fs, obs);
    }

    // ---------------- representable: the full statement applies
    // Known mechanism with many symptoms: a fixed-size attribute (ORIGIN, MED,
    // LOCAL_PREF, ORIGINATOR_ID) that was decoded from a wire form carrying
    // the extended-length flag is re-encoded with that flag and a one-octet
    // length.  Every symptom of such an input is reported under one signature.
    // The mechanism is confirmed on the wire itself: flags-with-0x10, code, a
    // ONE-octet length (1 or 4) and the value.
    let poisoned = u.reach.as_ref().is_some_and(|(_, a)| {
        a.iter().any(|x| {
            let Some(v) = x.value() else { return false };
            if x.flags() & 0x10 == 0 {
                return false;
            }
            let mut pat = vec![x.flags(), x.code()];
            if x.code() == Attribute::ORIGIN {
                pat.extend_from_slice(&[1, v as u8]);
            } else {
                pat.push(4);
                pat.extend_from_slice(&v.to_be_bytes());
            }
            enc.bytes.windows(pat.len()).any(|w| w == pat.as_slice())
        })
    });
    if poisoned {
        let (mut fs2, obs2) = judge_update_inner(s, msg, fixed_point, enc, frames, split_err, walked, walk_err, section_err, wire, per_frame, lost_idx, dup, alien, obs);
        if !fs2.is_empty() {
            let first = fs2.remove(0);
            let mut f = finding(
                "C04/attr-encode/extended-length-flag-on-fixed-size-attribute".into(),
                format!(
                    "an ORIGIN/MED/LOCAL_PREF/ORIGINATOR_ID attribute decoded with the extended-length flag is re-encoded with the flag but a one-octet length; first symptom: {} — {}",
                    first.sig, first.what
                ),
            );
            f.extra = first.extra;
            return (vec![f], obs2);
        }
        return (fs2, obs2);
    }
    judge_update_inner(s, msg, fixed_point, enc, frames, split_err, walked, walk_err, section_err, wire, per_frame, lost_idx, dup, alien, obs)
}

#[allow(clippy::too_many_arguments)]
fn judge_update_inner(
    s: &Session,
    msg: &Message,
    fixed_point: bool,
    enc: Encoded,
    frames: Vec<walker::Frame>,
    split_err: Option<(usize, &'static str)>,
    walked: Vec<walker::WUpdate>,
    walk_err: Option<String>,
    section_err: Option<&'static str>,
    wire: Vec<WNlri>,
    per_frame: Vec<usize>,
    lost_idx: Vec<usize>,
    dup: usize,
    alien: usize,
    mut obs: Observed,
) -> (Vec<Finding>, Observed) {
    let _ = &wire;
    let mut fs: Vec<Finding> = Vec::new();
    let u = split_update(msg).expect("update");
    let fam = u.family;
    let cls = family_class(fam);
    let dir = if u.reach.is_some() { "reach" } else { "unreach" };
    let addpath = s.model.addpath_tx(fam);
    let max = s.model.max_len;
    let too_long = frames.iter().any(|f| f.len > max);
    let framing_ok = split_err.is_none() && walk_err.is_none() && section_err.is_none() && !too_long;
    let boundaries: Vec<usize> = {
        let mut b = Vec::new();
        let mut acc = 0;
        for n in &per_frame {
            acc += n;
            b.push(acc);
        }
        b
    };
    let lost_where = |lost: &[usize]| -> &'static str {
        if lost.len() == u.entries.len() {
            "all"
        } else if lost.iter().enumerate().all(|(k, i)| *i == u.entries.len() - lost.len() + k) {
            "tail"
        } else if lost.len() <= boundaries.len() + 1 {
            "at-frame-boundary"
        } else {
            "scattered"
        }
    };
    if let Err(e) = &enc.ret {
        fs.push(finding(
            format!("C04/encode-error/{}/{}", cls, dir),
            format!("encode_to returned Err({}) for a message that fits the frame limit", e),
        ));
        return (fs, obs);
    }
    if let Some((off, why)) = split_err {
        fs.push(finding(
            format!("C04/malformed/header/{}", why),
            format!("frame header check '{}' failed at offset {}", why, off),
        ));
    }
    if let Ok(n) = &enc.ret {
        if *n != frames.len() && split_err.is_none() {
            fs.push(finding(
                "C04/frame-count".into(),
                format!("encode_to returned {} but wrote {} frames", n, frames.len()),
            ));
        }
    }
    if too_long {
        let mut f = finding(
            format!("C04/frame-too-long/{}", cls),
            format!(
                "{} {} frame of {} bytes exceeds the negotiated maximum {} (add-path {})",
                cls, dir, obs.max_frame, max, addpath
            ),
        );
        f.extra.push(("frame_lens", Json::arr(obs.frame_lens.iter().map(|l| Json::i(*l as i64)))));
        fs.push(f);
    }
    if let Some(e) = walk_err.as_ref().filter(|_| !too_long) {
        fs.push(finding(
            format!("C04/malformed/{}", e),
            format!("structural walk of a {} {} frame failed: {}", cls, dir, e),
        ));
    }
    if let Some(e) = section_err {
        fs.push(finding(format!("C04/malformed/section/{}", e), format!("{} in a {} {}", e, cls, dir)));
    }
    if walk_err.is_none() && split_err.is_none() {
        if !lost_idx.is_empty() {
            let mut f = finding(
                format!("C04/lost-prefix/{}", lost_where(&lost_idx)),
                format!(
                    "{} of {} input prefixes are not on the wire ({} {}, {} frames, overhead {} of {})",
                    lost_idx.len(),
                    u.entries.len(),
                    cls,
                    dir,
                    frames.len(),
                    obs.overhead,
                    max
                ),
            );
            f.extra.push(("lost_indices", Json::arr(lost_idx.iter().take(20).map(|i| Json::i(*i as i64)))));
            f.extra.push(("nlri_per_frame", Json::arr(per_frame.iter().map(|i| Json::i(*i as i64)))));
            fs.push(f);
        }
        if dup > 0 {
            let mut f = finding(
                "C04/dup-prefix/wire".into(),
                format!("{} prefixes are on the wire more often than in the input ({} {})", dup, cls, dir),
            );
            f.extra.push(("nlri_per_frame", Json::arr(per_frame.iter().map(|i| Json::i(*i as i64)))));
            fs.push(f);
        }
        if alien > 0 {
            fs.push(finding(
                format!("C04/alien-prefix/wire/{}", cls),
                format!("{} NLRI on the wire are not in the input", alien),
            ));
        }
    }
    if !framing_ok || !lost_idx.is_empty() || dup > 0 || alien > 0 {
        // the peer would reset the session / the loss is already established on
        // the wire; content comparison is moot
        return (fs, obs);
    }

    // ---------------- peer decode
    let decoded = match peer_decode(s, &enc.bytes) {
        Err(p) => {
            fs.push(panic_finding(&p, "peer-decode"));
            return (fs, obs);
        }
        Ok(Err(e)) => {
            fs.push(finding(
                format!("C04/peer-reject/{}/{}/{}", cls, dir, e),
                format!("the peer's codec rejects the well-framed {} {} with {}", cls, dir, e),
            ));
            return (fs, obs);
        }
        Ok(Ok(m)) => m,
    };
    let unreach = u.reach.is_none();
    let mut got: HashMap<(u32, Nlri), i64> = HashMap::new();
    let mut got_total = 0usize;
    let mut unj: Vec<&'static str> = Vec::new();
    let mut attr_checked: Vec<*const Vec<Attribute>> = Vec::new();
    for m in &decoded {
        match (m, &u.reach) {
            (
                Message::Update(Update::Reach {
                    family,
                    entries,
                    nexthop,
                    attr,
                }),
                Some((nh, attrs)),
            ) => {
                if *family != fam {
                    fs.push(finding("C04/family-mismatch".into(), format!("decoded family {}", family_name(*family))));
                }
                if let Some(f) = compare_nexthop(fam, nh, nexthop) {
                    if !fs.iter().any(|x| x.sig == f.sig) {
                        fs.push(f);
                    }
                }
                let p = std::sync::Arc::as_ptr(attr);
                if !attr_checked.contains(&p) {
                    attr_checked.push(p);
                    for f in compare_attrs(attrs, attr, s.model.two_byte, &mut unj) {
                        if !fs.iter().any(|x| x.sig == f.sig) {
                            fs.push(f);
                        }
                    }
                }
                for e in entries {
                    *got.entry(entry_key(fam, false, e)).or_insert(0) += 1;
                    got_total += 1;
                }
            }
            (Message::Update(Update::Unreach { family, entries }), None) => {
                if *family != fam {
                    fs.push(finding("C04/family-mismatch".into(), format!("decoded family {}", family_name(*family))));
                }
                for e in entries {
                    *got.entry(entry_key(fam, true, e)).or_insert(0) += 1;
                    got_total += 1;
                }
            }
            (Message::Update(Update::Unreach { entries, .. }), Some(_)) => {
                fs.push(finding(
                    format!("C04/treat-as-withdraw/{}", cls),
                    format!(
                        "the peer turned the announcement of {} prefixes into a withdrawal (attribute error at the receiver)",
                        entries.len()
                    ),
                ));
            }
            (Message::Update(Update::EndOfRib(_)), _) => {
                unj.push(if u.entries.is_empty() {
                    "unjudged:zero-entry-update-reads-as-eor"
                } else {
                    "unjudged:eor-among-output"
                });
            }
            _ => fs.push(finding("C04/unexpected-message".into(), "peer decoded a non-UPDATE / wrong-direction message".into())),
        }
    }
    obs.counters.extend(unj.iter().copied());
    let mut lost = 0usize;
    for e in u.entries {
        let k = entry_key(fam, unreach, e);
        match got.get_mut(&k) {
            Some(c) if *c > 0 => *c -= 1,
            _ => lost += 1,
        }
    }
    let extra: i64 = got.values().filter(|c| **c > 0).sum();
    if lost > 0 || extra > 0 {
        // the wire-level accounting was clean (else we returned above): the NLRI
        // codec itself changed the value
        let sig = if lost > 0 && extra > 0 {
            format!("C04/nlri-mismatch/{}/{}", cls, dir)
        } else if lost > 0 {
            format!("C04/lost-prefix/decode/{}/{}", cls, dir)
        } else {
            format!("C04/dup-prefix/decode/{}/{}", cls, dir)
        };
        let mut f = finding(
            sig,
            format!(
                "peer decoded {} prefixes for {} input prefixes: {} input prefixes missing, {} decoded prefixes not in the input ({} {})",
                got_total,
                u.entries.len(),
                lost,
                extra,
                cls,
                dir
            ),
        );
        if let Some(e) = u.entries.iter().find(|e| !decoded_has(&decoded, fam, unreach, e)) {
            f.extra.push(("first_missing_nlri", Json::s(hex(&e.nlri.encode_to_bytes()))));
            f.extra.push(("first_missing", Json::s(format!("{:?}", e))));
        }
        fs.push(f);
    }
    if walked.iter().map(|w| w.nlri_count()).sum::<usize>() != got_total {
        fs.push(finding(
            "C04/nlri-count/walker-vs-peer".into(),
            format!(
                "independent walker sees {} NLRI, peer decoded {}",
                walked.iter().map(|w| w.nlri_count()).sum::<usize>(),
                got_total
            ),
        ));
    }

    // ---------------- fixed point
    if fixed_point && fs.is_empty() {
        for m in &decoded {
            if split_update(m).is_none() {
                continue;
            }
            obs.counters.push("fixed-point-evals");
            fs.extend(fixed_point_check(s, m));
        }
    }
    obs.decoded = decoded;
    (fs, obs)
}

fn decoded_has(decoded: &[Message], fam: Family, unreach: bool, e: &PathNlri) -> bool {
    let k = entry_key(fam, unreach, e);
    decoded.iter().any(|m| split_update(m).is_some_and(|u| u.entries.iter().any(|x| entry_key(fam, unreach, x) == k)))
}

/// x' = `m` was obtained by decoding.  decode(encode(x')) must equal x'.
pub fn fixed_point_check(s: &Session, m: &Message) -> Vec<Finding> {
    let mut fs = Vec::new();
    let u = split_update(m).unwrap();
    let cls = family_class(u.family);
    let enc = match encode(s, m) {
        Ok(e) => e,
        Err(p) => return vec![panic_finding(&p, "encode_to(fixed-point)")],
    };
    if enc.ret.is_err() {
        return vec![finding(format!("C04/fixed-point/encode-error/{}", cls), "re-encoding a decoded value failed".into())];
    }
    let dec = match peer_decode(s, &enc.bytes) {
        Err(p) => return vec![panic_finding(&p, "peer-decode(fixed-point)")],
        Ok(Err(e)) => {
            return vec![finding(
                format!("C04/fixed-point/reject/{}/{}", cls, e),
                format!("re-encoding a decoded {} value gives bytes the peer rejects with {}", cls, e),
            )];
        }
        Ok(Ok(d)) => d,
    };
    let unreach = u.reach.is_none();
    let mut want: HashMap<(u32, Nlri), i64> = HashMap::new();
    for e in u.entries {
        *want.entry(entry_key(u.family, unreach, e)).or_insert(0) += 1;
    }
    for d in &dec {
        let Some(du) = split_update(d) else {
            if matches!(d, Message::Update(Update::EndOfRib(_))) {
                continue;
            }
            fs.push(finding("C04/fixed-point/unexpected-message".into(), "non-update on re-decode".into()));
            continue;
        };
        if du.reach.is_some() != u.reach.is_some() {
            fs.push(finding(
                format!("C04/fixed-point/direction/{}", cls),
                "announcement re-decodes as withdrawal (or vice versa)".into(),
            ));
            continue;
        }
        for e in du.entries {
            *want.entry(entry_key(u.family, unreach, e)).or_insert(0) -= 1;
        }
        if let (Some((nh0, a0)), Some((nh1, a1))) = (&u.reach, &du.reach) {
            if nh0 != nh1 {
                fs.push(finding(
                    format!("C04/fixed-point/nexthop/{}", cls),
                    format!("{:?} re-decodes as {:?}", nh0, nh1),
                ));
            }
            // same canonical form as everywhere else: the extended-length bit is
            // a property of the encoding, not of the value
            let cx: BTreeMap<u8, (CAttr, bool)> = a0.iter().map(|a| (a.code(), (canon(a), a.is_opaque()))).collect();
            let cy: BTreeMap<u8, (CAttr, bool)> = a1.iter().map(|a| (a.code(), (canon(a), a.is_opaque()))).collect();
            if cx != cy {
                let code = cx
                    .keys()
                    .chain(cy.keys())
                    .copied()
                    .find(|c| cx.get(c) != cy.get(c))
                    .unwrap_or(0);
                let mut f = finding(
                    format!("C04/fixed-point/attr/{}", code),
                    format!("attribute {} of a decoded value changes on decode(encode(x'))", code),
                );
                f.extra.push(("before", Json::s(format!("{:?}", cx.get(&code)).chars().take(300).collect::<String>())));
                f.extra.push(("after", Json::s(format!("{:?}", cy.get(&code)).chars().take(300).collect::<String>())));
                fs.push(f);
            }
        }
    }
    if want.values().any(|c| *c != 0) {
        fs.push(finding(
            format!("C04/fixed-point/nlri/{}", cls),
            format!("the prefix multiset of a decoded {} value changes on decode(encode(x'))", cls),
        ));
    }
    fs.dedup_by(|a, b| a.sig == b.sig);
    fs
}

// ------------------------------------------------------------------ OPEN

pub fn judge_open(s: &Session, open: &rustybgp_packet::Open) -> (Vec<Finding>, Observed) {
    let mut fs = Vec::new();
    let mut obs = Observed::default();
    let msg = Message::Open(open.clone());
    let sum = caps_tlv_sum(&open.capability);
    // one optional parameter (type 2): 2 + sum ≤ 255
    obs.representable = sum <= 253 && open.capability.iter().all(|c| cap_wire(c).1.len() <= 255);
    let enc = match encode(s, &msg) {
        Ok(e) => e,
        Err(p) => {
            let mut f = panic_finding(&p, "encode_to(OPEN)");
            f.extra.push(("capability_tlv_sum", Json::i(sum as i64)));
            return (vec![f], obs);
        }
    };
    obs.err_returned = enc.ret.is_err();
    obs.bytes = enc.bytes.clone();
    let (frames, split_err) = walker::split_frames(&enc.bytes);
    obs.frames = frames.len();
    obs.frame_lens = frames.iter().map(|f| f.len).collect();
    let walked = if frames.len() == 1 && split_err.is_none() && frames[0].typ == 1 {
        Some(walker::walk_open(&enc.bytes))
    } else {
        None
    };
    let expect: Vec<(u8, Vec<u8>)> = open.capability.iter().map(cap_wire).collect();
    let wire_ok = match &walked {
        Some(Ok(w)) => {
            let mut a = w.caps.clone();
            let mut b = expect.clone();
            a.sort();
            b.sort();
            a == b && frames[0].len <= 4096
        }
        _ => false,
    };
    if !obs.representable {
        obs.counters.push("class:unrepresentable");
        if enc.ret.is_err() {
            obs.counters.push("unrepresentable:error-returned");
            if !enc.bytes.is_empty() {
                fs.push(finding(
                    "C04/unrepresentable/partial-frame-left-on-error".into(),
                    "encode_to(OPEN) returned an error but left bytes in the buffer".into(),
                ));
            }
        } else if !wire_ok {
            let mut f = finding(
                "C04/open/optparam-len-overflow".into(),
                format!(
                    "OPEN whose capability TLVs sum to {} bytes (> 253): encode_to returned Ok but the optional-parameter lengths wrapped: {}",
                    sum,
                    match &walked {
                        Some(Err(e)) => e.clone(),
                        Some(Ok(w)) => format!("opt_len {} with {} of {} capabilities readable", w.opt_len, w.caps.len(), expect.len()),
                        None => format!("{:?}", split_err),
                    }
                ),
            );
            f.extra.push(("capability_tlv_sum", Json::i(sum as i64)));
            fs.push(f);
        }
        return (fs, obs);
    }
    if let Err(e) = &enc.ret {
        fs.push(finding("C04/encode-error/open".into(), format!("encode_to(OPEN) returned Err({})", e)));
        return (fs, obs);
    }
    if enc.ret != Ok(1) || frames.len() != 1 {
        fs.push(finding("C04/frame-count".into(), format!("OPEN: returned {:?}, {} frames", enc.ret, frames.len())));
    }
    match &walked {
        None => fs.push(finding(
            "C04/malformed/open/header".into(),
            format!("OPEN framing: {:?}", split_err),
        )),
        Some(Err(e)) => fs.push(finding(format!("C04/malformed/open/{}", e), format!("OPEN walk failed: {}", e))),
        Some(Ok(w)) => {
            let exp_as = if open.as_number > 65535 { 23456 } else { open.as_number as u16 };
            if w.version != 4 || w.my_as != exp_as || w.hold != open.holdtime.seconds() || w.id != open.router_id {
                fs.push(finding("C04/open/fixed-fields".into(), format!("OPEN fixed fields differ: {:?}", w)));
            }
            if !wire_ok {
                fs.push(finding(
                    "C04/open/capabilities-on-wire".into(),
                    format!("capabilities on the wire differ from the input ({} vs {})", w.caps.len(), expect.len()),
                ));
            }
        }
    }
    if !fs.is_empty() {
        return (fs, obs);
    }
    match peer_decode(s, &enc.bytes) {
        Err(p) => fs.push(panic_finding(&p, "peer-decode(OPEN)")),
        Ok(Err(e)) => fs.push(finding(format!("C04/peer-reject/open/{}", e), format!("peer rejects the OPEN with {}", e))),
        Ok(Ok(d)) => {
            if let [Message::Open(o)] = d.as_slice() {
                let mut unmatched: Vec<&Capability> = o.capability.iter().collect();
                let mut missing = 0;
                for c in &open.capability {
                    match unmatched.iter().position(|x| *x == c) {
                        Some(i) => {
                            unmatched.remove(i);
                        }
                        None => missing += 1,
                    }
                }
                if o.as_number != open.as_number || o.holdtime != open.holdtime || o.router_id != open.router_id {
                    fs.push(finding(
                        "C04/open/decoded-fields".into(),
                        format!(
                            "OPEN as/hold/id {}/{}/{} decodes as {}/{}/{}",
                            open.as_number, open.holdtime, open.router_id, o.as_number, o.holdtime, o.router_id
                        ),
                    ));
                }
                if missing > 0 || !unmatched.is_empty() {
                    fs.push(finding(
                        "C04/open/decoded-capabilities".into(),
                        format!("{} capabilities missing, {} unexpected after decode: {:?}", missing, unmatched.len(), unmatched.first()),
                    ));
                }
                obs.decoded = d;
            } else {
                fs.push(finding("C04/unexpected-message".into(), "OPEN did not decode as one OPEN".into()));
            }
        }
    }
    (fs, obs)
}

// ------------------------------------------------------------------ NOTIFICATION / KEEPALIVE / ROUTE-REFRESH / EOR

pub fn judge_simple(s: &Session, msg: &Message) -> (Vec<Finding>, Observed) {
    let mut fs = Vec::new();
    let mut obs = Observed::default();
    let (kind, typ, exp_len): (&str, u8, Option<usize>) = match msg {
        Message::Keepalive => ("keepalive", 4, Some(19)),
        Message::RouteRefresh { .. } => ("route-refresh", 5, Some(23)),
        Message::Notification(n) => ("notification", 3, Some(21 + n.notification_data().len())),
        Message::Update(Update::EndOfRib(f)) => ("eor", 2, Some(if *f == Family::IPV4 { 23 } else { 30 })),
        _ => unreachable!(),
    };
    let max = if typ == 4 { 4096 } else { s.model.max_len };
    obs.representable = exp_len.unwrap() <= max;
    let enc = match encode(s, msg) {
        Ok(e) => e,
        Err(p) => return (vec![panic_finding(&p, kind)], obs),
    };
    obs.bytes = enc.bytes.clone();
    obs.err_returned = enc.ret.is_err();
    let (frames, split_err) = walker::split_frames(&enc.bytes);
    obs.frames = frames.len();
    obs.frame_lens = frames.iter().map(|f| f.len).collect();
    if !obs.representable {
        obs.counters.push("class:unrepresentable");
        if enc.ret.is_ok() && (split_err.is_some() || frames.iter().any(|f| f.len > max)) {
            fs.push(finding(
                "C04/unrepresentable/bad-frame-no-error".into(),
                format!("{} larger than the frame limit was emitted without an error", kind),
            ));
        }
        return (fs, obs);
    }
    if split_err.is_some() || frames.len() != 1 || enc.ret != Ok(1) {
        fs.push(finding(
            format!("C04/malformed/{}/framing", kind),
            format!("{}: {:?}, {} frames, returned {:?}", kind, split_err, frames.len(), enc.ret),
        ));
        return (fs, obs);
    }
    let f = &frames[0];
    if f.typ != typ || Some(f.len) != exp_len {
        fs.push(finding(
            format!("C04/malformed/{}/length-or-type", kind),
            format!("{}: type {} length {} (expected {} / {:?})", kind, f.typ, f.len, typ, exp_len),
        ));
        return (fs, obs);
    }
    if typ == 2 {
        if let Err(e) = walker::walk_update(&enc.bytes, &|_, _| false) {
            fs.push(finding(format!("C04/malformed/eor/{}", e), format!("EOR walk: {}", e)));
            return (fs, obs);
        }
    }
    match peer_decode(s, &enc.bytes) {
        Err(p) => fs.push(panic_finding(&p, "peer-decode")),
        Ok(Err(e)) => fs.push(finding(format!("C04/peer-reject/{}/{}", kind, e), format!("peer rejects {} with {}", kind, e))),
        Ok(Ok(d)) => {
            let same = match (msg, d.as_slice()) {
                (Message::Keepalive, [Message::Keepalive]) => true,
                (Message::RouteRefresh { family: a }, [Message::RouteRefresh { family: b }]) => a == b,
                (Message::Notification(a), [Message::Notification(b)]) => {
                    a.notification_code() == b.notification_code()
                        && a.notification_subcode() == b.notification_subcode()
                        && a.notification_data() == b.notification_data()
                }
                (Message::Update(Update::EndOfRib(a)), [Message::Update(Update::EndOfRib(b))]) => a == b,
                _ => false,
            };
            if !same {
                fs.push(finding(
                    format!("C04/value-mismatch/{}", kind),
                    format!("{} decodes to a different value ({} messages)", kind, d.len()),
                ));
            }
            obs.decoded = d;
        }
    }
    (fs, obs)
}
