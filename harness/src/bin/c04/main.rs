//! C04 — encoded BGP messages are well-framed and decode to the same routes
//! at the peer (DESIGN.md §4 C04).
//!
//! Workload: Message values over all address families, entry counts 0…4× a
//! frame, NLRI at family-maximum size, attribute blocks grown towards the frame
//! limit, OPENs around the 255-byte optional-parameter limit, all pairs of a
//! pool of 16 capability sets.  Oracle: independent framer + structural walker
//! (walker.rs), decode with the peer's codec and content comparison, fixed
//! point of decode∘encode (oracle.rs).
mod oracle;
mod walker;
mod wire;
mod workload;

use oracle::*;
use rbgp_verif::common::*;
use rustybgp_packet::bgp::{Message, Nexthop, PathNlri, Update};
use rustybgp_packet::{Attribute, Family, HoldTime, Nlri, Notification, Open};
use std::collections::HashSet;
use std::sync::Arc;
use workload::*;

pub struct Ctx {
    pub rep: Report,
    pub pool: Vec<CapSet>,
    pub max_entries: usize,
}

pub struct UpdateCase {
    pub li: usize,
    pub ri: usize,
    pub msg: Message,
    pub tags: Vec<String>,
}

fn describe_update(msg: &Message) -> Json {
    let u = split_update(msg).unwrap();
    let mut kv = vec![
        ("family", Json::s(family_name(u.family))),
        ("direction", Json::s(if u.reach.is_some() { "reach" } else { "unreach" })),
        ("entries", Json::i(u.entries.len() as i64)),
        (
            "entries_head",
            Json::arr(u.entries.iter().take(12).map(|e| {
                Json::s(format!("{}:{}", e.path_id, hex(&e.nlri.encode_to_bytes())))
            })),
        ),
    ];
    if let Some((nh, attrs)) = &u.reach {
        kv.push(("nexthop", Json::s(format!("{:?}", nh))));
        kv.push((
            "attrs",
            Json::arr(attrs.iter().map(|a| {
                let b = a.encode_to_bytes();
                Json::s(format!("code={} flags={:#x} wire_len={} head={}", a.code(), a.flags(), b.len(), hex(&b[..b.len().min(48)])))
            })),
        ));
    }
    Json::obj(kv)
}

fn report(ctx: &mut Ctx, s: &Session, f: Finding, input: Json, obs: &Observed, case_seed: u64, kind: &str) {
    let mut kv = vec![
        ("case_seed", Json::s(format!("{}", case_seed))),
        ("replay", Json::s(format!("c04 part={} case={}", kind, case_seed))),
        ("local_caps", Json::s(s.local.name)),
        ("remote_caps", Json::s(s.remote.name)),
        ("negotiated_max", Json::i(s.model.max_len as i64)),
        ("two_byte_as", Json::Bool(s.model.two_byte)),
        ("input", input),
        ("returned_error", Json::Bool(obs.err_returned)),
        ("frame_lens", Json::arr(obs.frame_lens.iter().take(40).map(|l| Json::i(*l as i64)))),
        ("overhead", Json::i(obs.overhead as i64)),
        ("encoded_head_hex", Json::s(hex(&obs.bytes[..obs.bytes.len().min(400)]))),
        ("encoded_len", Json::i(obs.bytes.len() as i64)),
    ];
    for (k, v) in f.extra {
        kv.push((k, v));
    }
    ctx.rep.violation(&f.sig, &f.what, Json::obj(kv));
}

/// Delta-debugging of the entry list (and, for Reach, of the attribute list)
/// while the same signature keeps firing.
fn shrink_update(s: &Session, msg: &Message, sig: &str) -> Message {
    let fires = |m: &Message| judge_update(s, m, false).0.iter().any(|f| f.sig == sig);
    let rebuild = |m: &Message, entries: Vec<PathNlri>, attrs: Option<Vec<Attribute>>| -> Message {
        match m {
            Message::Update(Update::Reach {
                family, nexthop, attr, ..
            }) => Message::Update(Update::Reach {
                family: *family,
                entries,
                nexthop: *nexthop,
                attr: Arc::new(attrs.unwrap_or_else(|| attr.as_ref().clone())),
            }),
            Message::Update(Update::Unreach { family, .. }) => Message::Update(Update::Unreach {
                family: *family,
                entries,
            }),
            o => o.clone(),
        }
    };
    let mut cur = msg.clone();
    let mut budget = 120;
    // entries
    let mut chunk = split_update(&cur).unwrap().entries.len() / 2;
    while chunk >= 1 && budget > 0 {
        let entries = split_update(&cur).unwrap().entries.to_vec();
        let mut i = 0;
        let mut progressed = false;
        while i < entries.len() && budget > 0 {
            let mut e = entries.clone();
            let end = (i + chunk).min(e.len());
            e.drain(i..end);
            let cand = rebuild(&cur, e, None);
            budget -= 1;
            if fires(&cand) {
                cur = cand;
                progressed = true;
                break;
            }
            i += chunk;
        }
        if !progressed {
            chunk /= 2;
        } else {
            chunk = chunk.min(split_update(&cur).unwrap().entries.len() / 2).max(1);
            if split_update(&cur).unwrap().entries.len() <= 1 {
                break;
            }
        }
    }
    // attributes (keep ORIGIN and AS_PATH)
    if let Some((_, attrs)) = split_update(&cur).unwrap().reach {
        let mut attrs = attrs.to_vec();
        let mut i = 0;
        while i < attrs.len() && budget > 0 {
            if attrs[i].code() == Attribute::ORIGIN || attrs[i].code() == Attribute::AS_PATH {
                i += 1;
                continue;
            }
            let mut a = attrs.clone();
            a.remove(i);
            let entries = split_update(&cur).unwrap().entries.to_vec();
            let cand = rebuild(&cur, entries, Some(a.clone()));
            budget -= 1;
            if fires(&cand) {
                cur = cand;
                attrs = a;
            } else {
                i += 1;
            }
        }
    }
    cur
}

pub fn run_update_case(ctx: &mut Ctx, case: &UpdateCase, case_seed: u64, kind: &str) -> Vec<Message> {
    let pool = ctx.pool.clone();
    let s = Session::new(&pool[case.li], &pool[case.ri]);
    let (fs, obs) = judge_update(&s, &case.msg, true);
    ctx.rep.eval();
    let u = split_update(&case.msg).unwrap();
    let cls = family_class(u.family);
    let dir = if u.reach.is_some() { "reach" } else { "unreach" };
    ctx.rep.count(&format!("update:{}:{}", cls, dir));
    ctx.rep.count(&format!("family:{}", family_name(u.family)));
    ctx.rep.count(&format!("session:max{}", s.model.max_len));
    if s.model.two_byte {
        ctx.rep.count("session:two-byte-as");
    }
    if s.model.addpath_tx(u.family) {
        ctx.rep.count("session:addpath-tx");
    }
    for t in &case.tags {
        ctx.rep.count(t);
    }
    for c in &obs.counters {
        ctx.rep.count(c);
    }
    if obs.frames >= 2 {
        ctx.rep.count("shape:split-over-frames");
    }
    if obs.frames >= 4 {
        ctx.rep.count("shape:4+frames");
    }
    if obs.representable && obs.max_frame + 64 > s.model.max_len {
        ctx.rep.count("shape:frame-within-64-of-limit");
    }
    if obs.representable && obs.overhead * 2 > s.model.max_len {
        ctx.rep.count("shape:attr-block-over-half-frame");
    }
    ctx.rep.max("frames-per-message", obs.frames as u64);
    ctx.rep.max("frame-len", obs.max_frame as u64);
    ctx.rep.max("entries", u.entries.len() as u64);
    if !u.entries.is_empty() {
        let mut h = obs.bytes.clone();
        h.push(case.li as u8);
        h.push(case.ri as u8);
        ctx.rep.nontrivial(fnv64(&h));
    }
    if ctx.rep.want_sample() && obs.frames >= 2 {
        ctx.rep.sample(Json::obj(vec![
            ("kind", Json::s("update")),
            ("local_caps", Json::s(s.local.name)),
            ("remote_caps", Json::s(s.remote.name)),
            ("input", describe_update(&case.msg)),
            ("frames", Json::arr(obs.frame_lens.iter().map(|l| Json::i(*l as i64)))),
            ("decoded_messages", Json::i(obs.decoded.len() as i64)),
            ("verdict", Json::s(if fs.is_empty() { "held" } else { "violated" })),
        ]));
    }
    for f in fs {
        if ctx.rep.has_violation(&f.sig) {
            ctx.rep.violation(&f.sig, &f.what, Json::Null);
            continue;
        }
        // first occurrence: shrink, then report the shrunk input
        let small = if f.sig.contains("/panic/") { case.msg.clone() } else { shrink_update(&s, &case.msg, &f.sig) };
        let (fs2, obs2) = judge_update(&s, &small, false);
        match fs2.into_iter().find(|x| x.sig == f.sig) {
            Some(f2) => report(ctx, &s, f2, describe_update(&small), &obs2, case_seed, kind),
            None => report(ctx, &s, f, describe_update(&case.msg), &obs, case_seed, kind),
        }
    }
    obs.decoded
}

fn pick_session(rng: &mut Rng, pool: &[CapSet], want: Option<Family>) -> (usize, usize, Model) {
    loop {
        let li = rng.usize(pool.len());
        let ri = rng.usize(pool.len());
        let m = Model::new(&pool[li].caps, &pool[ri].caps);
        if m.fams.is_empty() {
            continue;
        }
        if let Some(f) = want {
            if !m.has(f) {
                continue;
            }
        }
        return (li, ri, m);
    }
}

fn enh_ipv4(pool: &[CapSet], li: usize, ri: usize) -> bool {
    let has = |c: &CapSet| {
        c.caps.iter().any(|c| {
            matches!(c, rustybgp_packet::Capability::ExtendedNexthop(v) if v.iter().any(|(f, a)| *f == Family::IPV4 && *a == Family::AFI_IP6))
        })
    };
    has(&pool[li]) && has(&pool[ri])
}

pub fn distinct_entries(rng: &mut Rng, fam: Family, count: usize, size: Size, addpath: bool, unreach: bool) -> Vec<PathNlri> {
    let mut seen: HashSet<(u32, Nlri)> = HashSet::with_capacity(count * 2);
    let mut out = Vec::with_capacity(count);
    let mut tries = 0usize;
    let id_space = *rng.pick(&[1u64, 3, 1000, u32::MAX as u64]);
    while out.len() < count && tries < count * 3 + 20 {
        tries += 1;
        let e = PathNlri {
            path_id: if addpath { rng.below(id_space + 1) as u32 } else { 0 },
            nlri: nlri(rng, fam, size),
        };
        if seen.insert(entry_key(fam, unreach, &e)) {
            out.push(e);
        }
    }
    out
}

fn gen_update_case(rng: &mut Rng, ctx: &Ctx) -> UpdateCase {
    let pool = &ctx.pool;
    // ext-message sessions are expensive: 1 in 5 cases
    let (li, ri, model) = loop {
        let (li, ri, m) = pick_session(rng, pool, None);
        let want_ext = rng.chance(1, 5);
        if (m.max_len == 65535) == want_ext {
            break (li, ri, m);
        }
    };
    let mut fam = model.fams[rng.usize(model.fams.len())].0;
    if model.has(Family::IPV4) && enh_ipv4(pool, li, ri) && rng.chance(1, 3) {
        fam = Family::IPV4;
    }
    let addpath = model.addpath_tx(fam);
    let reach = rng.chance(2, 3);
    let size = match rng.below(10) {
        0..=3 => Size::Max,
        4..=8 => Size::Mixed,
        _ => Size::Min,
    };
    let max = model.max_len;
    let mut tags = vec![format!("size:{:?}", size)];
    // attribute block
    let mut attr_v = Vec::new();
    let mut nh = None;
    let mut overhead_est = if fam == Family::IPV4 { 23 } else { 30 };
    if reach {
        let (n, shape) = nexthop(rng, fam);
        nh = n;
        if fam == Family::IPV4 && enh_ipv4(pool, li, ri) && rng.bool() {
            let ll = rng.bool();
            nh = Some(nexthop_v6(rng, ll));
            tags.push("nexthop:ipv4-over-v6(rfc8950)".into());
        } else {
            tags.push(format!("nexthop:{}", shape));
        }
        let mp_over = 9 + match nh {
            None => 0,
            Some(Nexthop::V4(_)) => 16,
            Some(Nexthop::V6(_)) => 24,
            Some(Nexthop::V6LinkLocal(..)) => 40,
        };
        let room = max - 23 - mp_over;
        let (target, cls) = match rng.below(20) {
            0..=8 => (12 + rng.usize(200), "typical"),
            9..=12 => (rng.usize(room / 2) + 12, "medium"),
            13..=18 => (room.saturating_sub(rng.usize(140)), "near-limit"),
            _ => (room + 1 + rng.usize(150), "over-limit"),
        };
        tags.push(format!("attr-block:{}", cls));
        let (a, shape) = attrs(rng, target, true);
        if shape.hops > 255 {
            tags.push("attr:as-path-over-255-hops".into());
        }
        if shape.communities >= 100 {
            tags.push("attr:100+communities".into());
        }
        if shape.opaque > 0 {
            tags.push("attr:opaque".into());
        }
        if shape.wide && model.two_byte {
            tags.push("attr:wide-as-on-2byte-session".into());
        }
        if shape.confed {
            tags.push("attr:confed-segments".into());
        }
        if shape.aggregator_wide == Some(true) && model.two_byte {
            tags.push("attr:wide-aggregator-on-2byte-session".into());
        }
        overhead_est = 23 + mp_over + target;
        attr_v = a;
    }
    // entry count
    let probe: Vec<usize> = (0..8).map(|_| nlri(rng, fam, size).encode_to_bytes().len() + if addpath { 4 } else { 0 }).collect();
    let avg = (probe.iter().sum::<usize>() / probe.len()).max(1);
    let fits = (max.saturating_sub(overhead_est) / avg).max(1);
    let count = match rng.below(20) {
        0 => 0,
        1 | 2 => 1,
        3..=5 => 2 + rng.usize(7),
        6..=10 => (fits + rng.usize(5)).saturating_sub(2),
        11..=13 => (2 * fits + rng.usize(5)).saturating_sub(2),
        _ => rng.usize(4 * fits + 1),
    }
    .min(ctx.max_entries);
    tags.push(
        match count {
            0 => "entries:0",
            1 => "entries:1",
            c if c < fits => "entries:below-one-frame",
            c if c <= 2 * fits => "entries:1-2-frames",
            _ => "entries:over-2-frames",
        }
        .into(),
    );
    let entries = distinct_entries(rng, fam, count, size, addpath, !reach);
    let msg = if reach {
        Message::Update(Update::Reach {
            family: fam,
            entries,
            nexthop: nh,
            attr: Arc::new(attr_v),
        })
    } else {
        Message::Update(Update::Unreach { family: fam, entries })
    };
    UpdateCase { li, ri, msg, tags }
}

fn run_open_case(ctx: &mut Ctx, case_seed: u64) {
    let mut rng = Rng::new(case_seed);
    let pool = ctx.pool.clone();
    let (li, ri, _) = pick_session(&mut rng, &pool, None);
    let s = Session::new(&pool[li], &pool[ri]);
    let base = &pool[rng.usize(pool.len())].caps;
    let (target, cls) = match rng.below(12) {
        0..=2 => (rng.usize(200), "below"),
        3 | 4 => (200 + rng.usize(50), "close"),
        5 => (250 + rng.usize(4), "at-limit"), // 250..253 all representable
        6 => (253, "at-limit"),
        7 => (254 + rng.usize(2), "just-above"),
        8 => (256 + rng.usize(4), "just-above"),
        9 => (260 + rng.usize(250), "above"),
        10 => (510 + rng.usize(6), "above-twice"),
        _ => (caps_tlv_sum(base), "pool-set"),
    };
    let mut capability = if cls == "pool-set" { base.clone() } else { open_caps(&mut rng, base, target) };
    if rng.chance(1, 40) {
        // a single capability whose value does not fit its one-octet length
        let n = 256 + rng.usize(200);
        capability.truncate(3);
        capability.push(rustybgp_packet::Capability::Unknown {
            code: 201,
            bin: rng.bytes(n),
        });
        ctx.rep.count("open:single-capability-over-255");
    }
    let as4 = capability.iter().find_map(|c| if let rustybgp_packet::Capability::FourOctetAsNumber(a) = c { Some(*a) } else { None });
    let as_number = match as4 {
        Some(a) => a,
        None => loop {
            let a = 1 + rng.below(65534) as u32;
            if a != 23456 {
                break a;
            }
        },
    };
    let router_id = loop {
        let r = rng.next_u32();
        let a = std::net::Ipv4Addr::from(r);
        if !a.is_unspecified() && !a.is_broadcast() && !a.is_multicast() {
            break r;
        }
    };
    let holdtime = HoldTime::new(*rng.pick(&[0u16, 3, 30, 90, 180, 65535])).unwrap();
    let open = Open {
        as_number,
        holdtime,
        router_id,
        capability,
    };
    let sum = caps_tlv_sum(&open.capability);
    let (fs, obs) = judge_open(&s, &open);
    ctx.rep.eval();
    ctx.rep.count("open");
    ctx.rep.count(&format!("open:tlv-sum:{}", cls));
    if sum > 253 {
        ctx.rep.count("open:tlv-sum>253");
    } else if sum >= 240 {
        ctx.rep.count("open:tlv-sum-240..253");
    }
    for c in &obs.counters {
        ctx.rep.count(c);
    }
    if !open.capability.is_empty() {
        let mut h = obs.bytes.clone();
        h.extend_from_slice(&(sum as u32).to_be_bytes());
        ctx.rep.nontrivial(fnv64(&h));
    }
    let input = Json::obj(vec![
        ("kind", Json::s("open")),
        ("as_number", Json::i(open.as_number as i64)),
        ("capability_tlv_sum", Json::i(sum as i64)),
        ("capabilities", Json::arr(open.capability.iter().map(|c| Json::s(format!("{:?}", c).chars().take(120).collect::<String>())))),
    ]);
    for f in fs {
        report(ctx, &s, f, input.clone(), &obs, case_seed, "open");
    }
}

fn run_simple_case(ctx: &mut Ctx, case_seed: u64) {
    let mut rng = Rng::new(case_seed);
    let pool = ctx.pool.clone();
    let (li, ri, model) = pick_session(&mut rng, &pool, None);
    let s = Session::new(&pool[li], &pool[ri]);
    let msg = match rng.below(8) {
        0 => Message::Keepalive,
        1 | 2 => Message::RouteRefresh {
            family: *rng.pick(families()),
        },
        3 | 4 => Message::Update(Update::EndOfRib(model.fams[rng.usize(model.fams.len())].0)),
        _ => {
            let n = match rng.below(6) {
                0 => 0,
                1 | 2 => rng.usize(64),
                3 => rng.usize(model.max_len - 21),
                4 => model.max_len - 21 - rng.usize(3),
                _ => model.max_len - 21 + 1 + rng.usize(40),
            };
            let code = 1 + rng.below(8) as u8;
            let sub = rng.below(12) as u8;
            Message::Notification(Notification::from_notification(code, sub, rng.bytes(n)))
        }
    };
    let kind = match &msg {
        Message::Keepalive => "keepalive",
        Message::RouteRefresh { .. } => "route-refresh",
        Message::Notification(_) => "notification",
        _ => "eor",
    };
    let (fs, obs) = judge_simple(&s, &msg);
    ctx.rep.eval();
    ctx.rep.count(kind);
    for c in &obs.counters {
        ctx.rep.count(c);
    }
    let input = Json::obj(vec![
        ("kind", Json::s(kind)),
        (
            "value",
            Json::s(match &msg {
                Message::Notification(n) => format!("code {} sub {} data {} bytes", n.notification_code(), n.notification_subcode(), n.notification_data().len()),
                Message::RouteRefresh { family } => family_name(*family),
                Message::Update(Update::EndOfRib(f)) => family_name(*f),
                _ => String::new(),
            }),
        ),
    ]);
    for f in fs {
        report(ctx, &s, f, input.clone(), &obs, case_seed, "simple");
    }
}

fn run_update(ctx: &mut Ctx, case_seed: u64) {
    let mut rng = Rng::new(case_seed);
    let case = gen_update_case(&mut rng, ctx);
    run_update_case(ctx, &case, case_seed, "update");
}

fn main() {
    let params = Params::from_args_env();
    let rep = Report::new("C04", &params);
    let mut ctx = Ctx {
        rep,
        pool: cap_pool(),
        max_entries: if params.thorough() { 120_000 } else { 30_000 },
    };
    assert!(ctx.pool.len() >= 12);
    let part = params.get("part").unwrap_or("all").to_string();
    if let Some(cs) = params.get("case").and_then(|s| s.parse::<u64>().ok()) {
        match part.as_str() {
            "open" => run_open_case(&mut ctx, cs),
            "simple" => run_simple_case(&mut ctx, cs),
            "wire" => wire::run_wire_case(&mut ctx, cs),
            _ => run_update(&mut ctx, cs),
        }
        println!("{}", ctx.rep.to_json().render());
        std::process::exit(if ctx.rep.violations.is_empty() { 0 } else { 1 });
    }
    let mut rng = Rng::new(params.seed ^ 0xC04C_04C0_4C04);
    // every ordered pair of capability sets is touched at least once (cheap check
    // of negotiate symmetry assumptions through a KEEPALIVE + EOR)
    let n_update = params.n(6_000, 400_000);
    let n_open = params.n(1_500, 60_000);
    let n_simple = params.n(1_000, 40_000);
    let n_wire = params.n(1_500, 80_000);
    let total = n_update + n_open + n_simple + n_wire;
    let mut done = 0u64;
    // interleave so that a budget stop still leaves every part exercised
    let mut i = 0u64;
    while i < total && ctx.rep.in_budget() {
        let r = rng.below(total);
        let cs = rng.next_u64();
        let which = if part != "all" {
            part.as_str()
        } else if r < n_update {
            "update"
        } else if r < n_update + n_open {
            "open"
        } else if r < n_update + n_open + n_simple {
            "simple"
        } else {
            "wire"
        };
        match which {
            "open" => run_open_case(&mut ctx, cs),
            "simple" => run_simple_case(&mut ctx, cs),
            "wire" => wire::run_wire_case(&mut ctx, cs),
            _ => run_update(&mut ctx, cs),
        }
        done += 1;
        i += 1;
    }
    ctx.rep.count_n("cases", done);
    if done < total {
        ctx.rep.count("stopped-by-budget");
    }
    std::process::exit(ctx.rep.finish());
}
