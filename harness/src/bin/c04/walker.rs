//! Independent BGP framer + structural walker for C04.
//!
//! Written from RFC 4271 §4 (header, OPEN, UPDATE, NOTIFICATION, KEEPALIVE),
//! RFC 2918 (ROUTE-REFRESH), RFC 4760 (MP_REACH / MP_UNREACH), RFC 7911
//! (path identifier), RFC 5492 (capability TLVs) and the per-SAFI NLRI
//! framings (RFC 8277, 4364, 7432, 8955, 9552, 9012/sr-policy, 4684,
//! draft-mpmz-bess-mup-safi).  It never calls into the code under test.

#![allow(dead_code)]
pub const HDR: usize = 19;

#[derive(Clone, Debug)]
pub struct Frame {
    pub off: usize,
    pub len: usize,
    pub typ: u8,
    /// diagnosis only: the header length field is `len` mod 65536 (the real
    /// frame is longer than 65535 bytes)
    pub wrapped: bool,
}

/// Split `buf` into frames by the 19-byte header only.  Returns the frames
/// found and, if the buffer is not an exact sequence of frames, the clause
/// that failed together with the offset.
pub fn split_frames(buf: &[u8]) -> (Vec<Frame>, Option<(usize, &'static str)>) {
    let mut out = Vec::new();
    let mut off = 0usize;
    while off < buf.len() {
        if buf.len() - off < HDR {
            return (out, Some((off, "trailing-bytes-shorter-than-header")));
        }
        if buf[off..off + 16].iter().any(|b| *b != 0xff) {
            return (out, Some((off, "marker")));
        }
        let mut len = u16::from_be_bytes([buf[off + 16], buf[off + 17]]) as usize;
        let typ = buf[off + 18];
        // Diagnosis aid (not part of the acceptance rule): a frame longer than
        // 65535 bytes whose 16-bit length field wrapped.  Reported as an
        // over-long frame instead of as a garbled stream.
        let next_ok = |l: usize| off + l == buf.len() || (off + l + 16 <= buf.len() && buf[off + l..off + l + 16].iter().all(|b| *b == 0xff));
        if (len < HDR || off + len > buf.len() || !next_ok(len)) && off + len + 65536 <= buf.len() && next_ok(len + 65536) && (1..=5).contains(&typ) {
            len += 65536;
            out.push(Frame {
                off,
                len,
                typ,
                wrapped: true,
            });
            off += len;
            continue;
        }
        if len < HDR {
            return (out, Some((off, "header-length-below-19")));
        }
        if off + len > buf.len() {
            return (out, Some((off, "header-length-beyond-buffer")));
        }
        if !(1..=5).contains(&typ) {
            return (out, Some((off, "message-type")));
        }
        out.push(Frame {
            off,
            len,
            typ,
            wrapped: false,
        });
        off += len;
    }
    (out, None)
}

#[derive(Clone, Debug, PartialEq, Eq, Hash, PartialOrd, Ord)]
pub struct WNlri {
    pub path_id: Option<u32>,
    pub raw: Vec<u8>,
}

impl WNlri {
    pub fn wire_len(&self) -> usize {
        self.raw.len() + if self.path_id.is_some() { 4 } else { 0 }
    }
}

#[derive(Clone, Debug)]
pub struct WAttr {
    pub flags: u8,
    pub code: u8,
    pub val: Vec<u8>,
}

#[derive(Clone, Debug)]
pub struct WMp {
    pub afi: u16,
    pub safi: u8,
    pub nh: Vec<u8>,
    pub nlri: Vec<WNlri>,
}

#[derive(Clone, Debug, Default)]
pub struct WUpdate {
    pub withdrawn: Vec<WNlri>,
    pub attrs: Vec<WAttr>,
    pub nlri: Vec<WNlri>,
    pub mp_reach: Option<WMp>,
    pub mp_unreach: Option<WMp>,
    /// bytes of the frame that are not NLRI (header, length fields, attributes,
    /// MP attribute headers, next hop)
    pub overhead: usize,
}

impl WUpdate {
    pub fn nlri_count(&self) -> usize {
        self.withdrawn.len()
            + self.nlri.len()
            + self.mp_reach.as_ref().map_or(0, |m| m.nlri.len())
            + self.mp_unreach.as_ref().map_or(0, |m| m.nlri.len())
    }
}

fn be16(b: &[u8], p: usize) -> usize {
    u16::from_be_bytes([b[p], b[p + 1]]) as usize
}

/// One NLRI of family (afi,safi) starting at `b[0]`; returns its byte length.
fn nlri_len(afi: u16, safi: u8, b: &[u8]) -> Result<usize, &'static str> {
    if b.is_empty() {
        return Err("nlri-empty");
    }
    match safi {
        // prefix-style: one length octet in bits
        1 | 2 | 4 | 128 | 132 | 73 => {
            let bits = b[0] as usize;
            let n = 1 + bits.div_ceil(8);
            let maxbits = match (afi, safi) {
                (1, 1) | (1, 2) => 32,
                (2, 1) | (2, 2) => 128,
                (_, 132) => 96,
                (_, 73) => 192,
                _ => 255,
            };
            if bits > maxbits {
                return Err("nlri-prefix-bits");
            }
            if n > b.len() {
                return Err("nlri-overrun");
            }
            Ok(n)
        }
        // EVPN: type(1) len(1)
        70 => {
            if b.len() < 2 {
                return Err("nlri-overrun");
            }
            let n = 2 + b[1] as usize;
            if n > b.len() {
                return Err("nlri-overrun");
            }
            Ok(n)
        }
        // BGP-LS: type(2) len(2)
        71 => {
            if b.len() < 4 {
                return Err("nlri-overrun");
            }
            let n = 4 + be16(b, 2);
            if n > b.len() {
                return Err("nlri-overrun");
            }
            Ok(n)
        }
        // MUP: arch(1) route-type(2) len(1)
        85 => {
            if b.len() < 4 {
                return Err("nlri-overrun");
            }
            let n = 4 + b[3] as usize;
            if n > b.len() {
                return Err("nlri-overrun");
            }
            Ok(n)
        }
        // Flowspec: 1- or 2-octet length (RFC 8955 §4.1)
        133 | 134 => {
            let (l, h) = if b[0] < 0xf0 {
                (b[0] as usize, 1)
            } else {
                if b.len() < 2 {
                    return Err("nlri-overrun");
                }
                ((((b[0] & 0x0f) as usize) << 8) | b[1] as usize, 2)
            };
            if h + l > b.len() {
                return Err("nlri-overrun");
            }
            Ok(h + l)
        }
        _ => Err("nlri-unknown-safi"),
    }
}

fn nlri_list(afi: u16, safi: u8, addpath: bool, mut b: &[u8]) -> Result<Vec<WNlri>, &'static str> {
    let mut out = Vec::new();
    while !b.is_empty() {
        let path_id = if addpath {
            if b.len() < 4 {
                return Err("nlri-pathid-overrun");
            }
            let id = u32::from_be_bytes([b[0], b[1], b[2], b[3]]);
            b = &b[4..];
            Some(id)
        } else {
            None
        };
        let n = nlri_len(afi, safi, b)?;
        out.push(WNlri {
            path_id,
            raw: b[..n].to_vec(),
        });
        b = &b[n..];
    }
    Ok(out)
}

/// Walk one UPDATE frame (`frame` includes the 19-byte header).
/// `addpath(afi,safi)` says whether NLRI of that family carry a path identifier
/// in this direction (from the harness' own reading of the capability sets).
pub fn walk_update(frame: &[u8], addpath: &dyn Fn(u16, u8) -> bool) -> Result<WUpdate, String> {
    let b = &frame[HDR..];
    let mut u = WUpdate::default();
    if b.len() < 4 {
        return Err("update-shorter-than-23".into());
    }
    let wlen = be16(b, 0);
    if 2 + wlen + 2 > b.len() {
        return Err("withdrawn-length-overrun".into());
    }
    let alen = be16(b, 2 + wlen);
    let attr_start = 2 + wlen + 2;
    if attr_start + alen > b.len() {
        return Err("total-path-attribute-length-overrun".into());
    }
    u.withdrawn = nlri_list(1, 1, addpath(1, 1), &b[2..2 + wlen]).map_err(|e| format!("withdrawn/{}", e))?;
    let attrs = &b[attr_start..attr_start + alen];
    let mut p = 0usize;
    let mut seen = [false; 256];
    let mut nlri_bytes = wlen;
    while p < attrs.len() {
        if attrs.len() - p < 3 {
            return Err("attribute-header-overrun".into());
        }
        let flags = attrs[p];
        let code = attrs[p + 1];
        let (l, h) = if flags & 0x10 != 0 {
            if attrs.len() - p < 4 {
                return Err("attribute-header-overrun".into());
            }
            (be16(attrs, p + 2), 4)
        } else {
            (attrs[p + 2] as usize, 3)
        };
        if p + h + l > attrs.len() {
            return Err(format!("attribute-length-overrun/{}", code));
        }
        if seen[code as usize] {
            return Err(format!("duplicate-attribute/{}", code));
        }
        seen[code as usize] = true;
        let val = &attrs[p + h..p + h + l];
        match code {
            14 => {
                if val.len() < 5 {
                    return Err("mp-reach-shorter-than-5".into());
                }
                let afi = be16(val, 0) as u16;
                let safi = val[2];
                let nhl = val[3] as usize;
                if 4 + nhl + 1 > val.len() {
                    return Err("mp-reach-nexthop-overrun".into());
                }
                let nh = val[4..4 + nhl].to_vec();
                // RFC 4760 / 2545 / 4364 / 4659 / 8950 next-hop lengths
                if ![0usize, 4, 12, 16, 24, 32, 48].contains(&nhl) {
                    return Err(format!("mp-reach-nexthop-length/{}", nhl));
                }
                if val[4 + nhl] != 0 {
                    return Err("mp-reach-reserved-octet".into());
                }
                let nl = &val[5 + nhl..];
                nlri_bytes += nl.len();
                let nlri = nlri_list(afi, safi, addpath(afi, safi), nl).map_err(|e| format!("mp-reach/{}", e))?;
                u.mp_reach = Some(WMp { afi, safi, nh, nlri });
            }
            15 => {
                if val.len() < 3 {
                    return Err("mp-unreach-shorter-than-3".into());
                }
                let afi = be16(val, 0) as u16;
                let safi = val[2];
                let nl = &val[3..];
                nlri_bytes += nl.len();
                let nlri = nlri_list(afi, safi, addpath(afi, safi), nl).map_err(|e| format!("mp-unreach/{}", e))?;
                u.mp_unreach = Some(WMp {
                    afi,
                    safi,
                    nh: vec![],
                    nlri,
                });
            }
            _ => {}
        }
        u.attrs.push(WAttr {
            flags,
            code,
            val: val.to_vec(),
        });
        p += h + l;
    }
    let tail = &b[attr_start + alen..];
    nlri_bytes += tail.len();
    u.nlri = nlri_list(1, 1, addpath(1, 1), tail).map_err(|e| format!("nlri/{}", e))?;
    u.overhead = frame.len() - nlri_bytes;
    Ok(u)
}

#[derive(Clone, Debug)]
pub struct WOpen {
    pub version: u8,
    pub my_as: u16,
    pub hold: u16,
    pub id: u32,
    pub opt_len: usize,
    /// (capability code, value)
    pub caps: Vec<(u8, Vec<u8>)>,
}

pub fn walk_open(frame: &[u8]) -> Result<WOpen, String> {
    if frame.len() < 29 {
        return Err("open-shorter-than-29".into());
    }
    let b = &frame[HDR..];
    let opt_len = b[9] as usize;
    if 10 + opt_len != b.len() {
        return Err("optional-parameters-length-does-not-fill-frame".into());
    }
    let mut caps = Vec::new();
    let mut p = 10usize;
    while p < b.len() {
        if b.len() - p < 2 {
            return Err("optional-parameter-header-overrun".into());
        }
        let t = b[p];
        let l = b[p + 1] as usize;
        if p + 2 + l > b.len() {
            return Err("optional-parameter-length-overrun".into());
        }
        if t != 2 {
            return Err(format!("optional-parameter-type/{}", t));
        }
        let v = &b[p + 2..p + 2 + l];
        let mut q = 0usize;
        while q < v.len() {
            if v.len() - q < 2 {
                return Err("capability-header-overrun".into());
            }
            let cl = v[q + 1] as usize;
            if q + 2 + cl > v.len() {
                return Err("capability-length-overrun".into());
            }
            caps.push((v[q], v[q + 2..q + 2 + cl].to_vec()));
            q += 2 + cl;
        }
        p += 2 + l;
    }
    Ok(WOpen {
        version: b[0],
        my_as: u16::from_be_bytes([b[1], b[2]]),
        hold: u16::from_be_bytes([b[3], b[4]]),
        id: u32::from_be_bytes([b[5], b[6], b[7], b[8]]),
        opt_len,
        caps,
    })
}
