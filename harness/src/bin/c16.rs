//! C16 (capability-mirror half) — the two OPENs yield mirror-image parameters.
//!
//! Workload: random pairs of capability lists (every family, add-path modes
//! 0-3 and invalid ones, duplicates, unknown codes, GR / LLGR lists with any
//! flags and times, extended message / next hop, 4-octet AS on one or both
//! sides) through the real `PeerCodec::negotiate` in both directions, raw and
//! after the real OPEN encode -> decode (what the other end actually sees).
//!
//! Oracle (from the statement): same family set on both ends; tx(L,R) ==
//! rx(R,L) per family; extended message / 4-octet AS / extended next hop in
//! force iff both advertised it; a family in force iff both advertised
//! MultiProtocol for it; an add-path direction in force iff the family is in
//! force and the sender advertised Send and the receiver Receive.
//!
//! GR / LLGR negotiation lives in the daemon (`PeerSession::negotiate_gr` /
//! `negotiate_llgr`) and is judged by the E2 half (harness/daemon/c16.rs).
use bytes::BytesMut;
use rbgp_verif::common::*;
use rustybgp_packet::bgp::{
    Capability, Family, HoldTime, Ipv4Net, Message, Nexthop, Open, ParsedMessage, PathNlri,
    PeerCodec, Update,
};
use rustybgp_packet::{Attribute, Nlri};
use std::collections::BTreeSet;
use std::net::{Ipv4Addr, Ipv6Addr};
use std::sync::Arc;

fn pool() -> Vec<Family> {
    vec![
        Family::IPV4,
        Family::IPV6,
        Family::IPV4_MC,
        Family::IPV6_MC,
        Family::IPV4_MPLS,
        Family::IPV6_MPLS,
        Family::LS,
        Family::IPV4_MUP,
        Family::IPV6_MUP,
        Family::IPV4_VPN,
        Family::IPV6_VPN,
        Family::IPV4_FLOWSPEC,
        Family::IPV6_FLOWSPEC,
        Family::IPV4_FLOWSPEC_VPN,
        Family::IPV6_FLOWSPEC_VPN,
        Family::IPV4_SRPOLICY,
        Family::IPV6_SRPOLICY,
        Family::L2VPN_EVPN,
        Family::RTC,
        Family::new(99, 99),
        Family::new(1, 200),
    ]
}

fn fid(f: Family) -> u32 {
    ((f.afi() as u32) << 16) | f.safi() as u32
}

const VALID_MODES: [u8; 3] = [1, 2, 3];
const INVALID_MODES: [u8; 8] = [0, 4, 5, 6, 7, 8, 128, 255];

fn gen_caps(rng: &mut Rng, universe: &[Family], outside: &[Family]) -> Vec<Capability> {
    let mut v: Vec<Capability> = Vec::new();
    for f in universe {
        if rng.chance(13, 20) {
            v.push(Capability::MultiProtocol(*f));
            if rng.chance(1, 12) {
                v.push(Capability::MultiProtocol(*f));
            }
        }
    }
    let n_ap = *rng.pick(&[0usize, 1, 1, 1, 2]);
    for _ in 0..n_ap {
        let mut e: Vec<(Family, u8)> = Vec::new();
        for f in universe.iter().chain(outside.iter()) {
            if rng.chance(11, 20) {
                let mode = if rng.chance(4, 5) { *rng.pick(&VALID_MODES) } else { *rng.pick(&INVALID_MODES) };
                e.push((*f, mode));
                if rng.chance(1, 10) {
                    let mode2 = if rng.chance(4, 5) { *rng.pick(&VALID_MODES) } else { *rng.pick(&INVALID_MODES) };
                    e.push((*f, mode2));
                }
            }
        }
        rng.shuffle(&mut e);
        v.push(Capability::AddPath(e));
    }
    if rng.chance(2, 5) {
        let mut e: Vec<(Family, u16)> = Vec::new();
        for f in universe.iter().chain(outside.iter()) {
            if rng.chance(1, 2) {
                let nh_afi = if rng.chance(5, 6) { Family::AFI_IP6 } else { *rng.pick(&[Family::AFI_IP, 25u16, 0]) };
                e.push((*f, nh_afi));
            }
        }
        v.push(Capability::ExtendedNexthop(e));
    }
    if rng.chance(1, 2) {
        v.push(Capability::ExtendedMessage);
        if rng.chance(1, 20) {
            v.push(Capability::ExtendedMessage);
        }
    }
    if rng.chance(7, 10) {
        v.push(Capability::FourOctetAsNumber(*rng.pick(&[65001u32, 4_200_000_000, 23456, 1])));
        if rng.chance(1, 20) {
            v.push(Capability::FourOctetAsNumber(70000));
        }
    }
    if rng.chance(1, 2) {
        v.push(Capability::RouteRefresh);
    }
    if rng.chance(1, 5) {
        v.push(Capability::EnhancedRouteRefresh);
    }
    if rng.chance(1, 10) {
        v.push(Capability::Fqdn { hostname: "r1".into(), domain: "example".into() });
    }
    if rng.chance(3, 10) {
        let code = *rng.pick(&[3u8, 4, 7, 66, 67, 68, 72, 128, 129, 200, 255]);
        let n = rng.usize(7);
        v.push(Capability::Unknown { code, bin: rng.bytes(n) });
    }
    let n_gr = *rng.pick(&[0usize, 0, 1, 1, 1, 2]);
    for _ in 0..n_gr {
        let mut fams: Vec<(Family, u8)> = Vec::new();
        for f in universe.iter().chain(outside.iter()) {
            if rng.chance(1, 2) {
                fams.push((*f, *rng.pick(&[0u8, 0x80, 0xff, 1])));
            }
        }
        v.push(Capability::GracefulRestart {
            flags: rng.below(16) as u8,
            restart_time: *rng.pick(&[0u16, 1, 120, 4095]),
            families: fams,
        });
    }
    let n_llgr = *rng.pick(&[0usize, 0, 1, 1, 2]);
    for _ in 0..n_llgr {
        let mut fams: Vec<(Family, u8, u32)> = Vec::new();
        for f in universe.iter().chain(outside.iter()) {
            if rng.chance(1, 2) {
                fams.push((*f, *rng.pick(&[0u8, 0x80, 0x7f]), *rng.pick(&[0u32, 1, 600, 0xff_ffff])));
            }
        }
        v.push(Capability::LongLivedGracefulRestart(fams));
    }
    rng.shuffle(&mut v);
    v
}

// ------------------------------------------------------------------ what a list advertises (from the RFCs)

fn mp_set(c: &[Capability]) -> BTreeSet<u32> {
    c.iter()
        .filter_map(|x| if let Capability::MultiProtocol(f) = x { Some(fid(*f)) } else { None })
        .collect()
}

#[derive(Default, Clone, Copy, Debug)]
struct ApAdv {
    /// every valid entry of the family carries the bit (and there is one)
    def_rx: bool,
    def_tx: bool,
    /// some valid entry carries the bit
    poss_rx: bool,
    poss_tx: bool,
    invalid: bool,
    entries: usize,
}

/// RFC 7911: Send/Receive 1 = receive, 2 = send, 3 = both; any other value is ignored.
fn ap_adv(c: &[Capability], f: Family) -> ApAdv {
    let mut a = ApAdv::default();
    let mut valid = 0usize;
    let mut all_rx = true;
    let mut all_tx = true;
    for x in c {
        if let Capability::AddPath(e) = x {
            for (ef, m) in e {
                if *ef != f {
                    continue;
                }
                a.entries += 1;
                if !(1..=3).contains(m) {
                    a.invalid = true;
                    continue;
                }
                valid += 1;
                if m & 1 != 0 {
                    a.poss_rx = true;
                } else {
                    all_rx = false;
                }
                if m & 2 != 0 {
                    a.poss_tx = true;
                } else {
                    all_tx = false;
                }
            }
        }
    }
    a.def_rx = valid > 0 && all_rx;
    a.def_tx = valid > 0 && all_tx;
    a
}

/// RFC 8950: the tuple (IPv4 unicast NLRI, IPv6 next hop) is advertised
fn enh_v4_adv(c: &[Capability]) -> bool {
    c.iter().any(|x| {
        if let Capability::ExtendedNexthop(e) = x {
            e.iter().any(|(f, afi)| *f == Family::IPV4 && *afi == Family::AFI_IP6)
        } else {
            false
        }
    })
}

fn enh_any_adv(c: &[Capability]) -> bool {
    c.iter().any(|x| matches!(x, Capability::ExtendedNexthop(e) if !e.is_empty()))
}

fn has_extmsg(c: &[Capability]) -> bool {
    c.iter().any(|x| matches!(x, Capability::ExtendedMessage))
}

fn has_as4(c: &[Capability]) -> bool {
    c.iter().any(|x| matches!(x, Capability::FourOctetAsNumber(_)))
}

// ------------------------------------------------------------------ observation of a negotiated codec

#[derive(Debug, Clone, PartialEq)]
struct View {
    families: BTreeSet<u32>,
    rx: BTreeSet<u32>,
    tx: BTreeSet<u32>,
    extmsg: bool,
    as4: bool,
    /// IPv4 unicast NLRI is sent with an IPv6 next hop in MP_REACH_NLRI (None: IPv4 unicast not negotiated / encoder refused)
    enh_v4: Option<bool>,
}

fn frame_has_mp_reach_v6_nexthop(buf: &[u8]) -> bool {
    // header(19) withdrawn_len(2) attr_len(2) attrs...
    if buf.len() < 23 {
        return false;
    }
    let wl = u16::from_be_bytes([buf[19], buf[20]]) as usize;
    let mut p = 21 + wl;
    if buf.len() < p + 2 {
        return false;
    }
    let al = u16::from_be_bytes([buf[p], buf[p + 1]]) as usize;
    p += 2;
    let end = (p + al).min(buf.len());
    while p + 3 <= end {
        let flags = buf[p];
        let code = buf[p + 1];
        let (len, hdr) = if flags & 0x10 != 0 {
            if p + 4 > end {
                return false;
            }
            (u16::from_be_bytes([buf[p + 2], buf[p + 3]]) as usize, 4)
        } else {
            (buf[p + 2] as usize, 3)
        };
        let body = p + hdr;
        if code == 14 && body + 4 <= end {
            let afi = u16::from_be_bytes([buf[body], buf[body + 1]]);
            let safi = buf[body + 2];
            let nhl = buf[body + 3];
            if afi == 1 && safi == 1 && (nhl == 16 || nhl == 32) {
                return true;
            }
        }
        p = body + len;
    }
    false
}

fn observe(codec: &mut PeerCodec) -> View {
    let families: BTreeSet<u32> = codec.families_iter().map(fid).collect();
    let mut rx = BTreeSet::new();
    let mut tx = BTreeSet::new();
    let fams: Vec<Family> = codec.families_iter().collect();
    for f in fams {
        if let Some(s) = codec.family_state(f) {
            if s.addpath_rx {
                rx.insert(fid(f));
            }
            if s.addpath_tx {
                tx.insert(fid(f));
            }
        }
    }
    let enh_v4 = if codec.has_family(Family::IPV4) {
        let origin = Attribute::new_with_value(Attribute::ORIGIN, 0).unwrap();
        let msg = Message::Update(Update::Reach {
            family: Family::IPV4,
            entries: vec![PathNlri { path_id: 0, nlri: Nlri::V4(Ipv4Net { addr: Ipv4Addr::new(10, 1, 0, 0), mask: 16 }) }],
            nexthop: Some(Nexthop::V6(Ipv6Addr::new(0x2001, 0xdb8, 0, 0, 0, 0, 0, 1))),
            attr: Arc::new(vec![origin, Attribute::empty_as_path()]),
        });
        let mut buf = BytesMut::new();
        match codec.encode_to(&msg, &mut buf) {
            Ok(_) => Some(frame_has_mp_reach_v6_nexthop(&buf)),
            Err(_) => None,
        }
    } else {
        None
    };
    View { families, rx, tx, extmsg: codec.extended_length, as4: !codec.two_byte_as, enh_v4 }
}

/// The capability list as the other end reads it: real OPEN encode -> decode.
fn wire(caps: &[Capability]) -> Result<Vec<Capability>, String> {
    let asn = caps
        .iter()
        .find_map(|c| if let Capability::FourOctetAsNumber(a) = c { Some(*a) } else { None })
        .unwrap_or(65000);
    let msg = Message::Open(Open {
        as_number: asn,
        holdtime: HoldTime::new(90).unwrap(),
        router_id: u32::from(Ipv4Addr::new(1, 1, 1, 1)),
        capability: caps.to_vec(),
    });
    let mut buf = BytesMut::new();
    PeerCodec::new().encode_to(&msg, &mut buf).map_err(|e| format!("encode: {:?}", e))?;
    match PeerCodec::new().try_parse(&mut buf) {
        Ok(Some(ParsedMessage::Open(o))) => Ok(o.capability),
        Ok(Some(_)) => Err("decode: not an OPEN".into()),
        Ok(None) => Err("decode: incomplete".into()),
        Err(n) => Err(format!("decode: {:?}", n)),
    }
}

fn caps_json(c: &[Capability]) -> Json {
    Json::strs(c.iter().map(|x| format!("{:?}", x)))
}

struct Case<'a> {
    view: &'static str,
    /// what each end negotiates with
    l_own: &'a [Capability],
    r_seen: &'a [Capability],
    r_own: &'a [Capability],
    l_seen: &'a [Capability],
    /// what each side advertised (validly, as the RFCs read it)
    l_adv: &'a [Capability],
    r_adv: &'a [Capability],
    raw_l: &'a [Capability],
    raw_r: &'a [Capability],
}

fn judge(rep: &mut Report, c: &Case, universe: &[Family]) {
    let neg = guard(|| {
        let mut a = PeerCodec::negotiate(c.l_own, c.r_seen);
        let mut b = PeerCodec::negotiate(c.r_own, c.l_seen);
        (observe(&mut a), observe(&mut b))
    });
    rep.eval();
    rep.count(&format!("view:{}", c.view));
    let (a, b) = match neg {
        Ok(x) => x,
        Err(p) => {
            rep.violation(
                &format!("C16/panic/{}:{}", p.location, panic_class(&p.message)),
                &format!("negotiate / encode panicked: {}", p.message),
                Json::obj(vec![("view", Json::s(c.view)), ("L", caps_json(c.raw_l)), ("R", caps_json(c.raw_r))]),
            );
            return;
        }
    };
    let witness = |what: &str, a: &View, b: &View| {
        Json::obj(vec![
            ("view", Json::s(c.view)),
            ("what", Json::s(what)),
            ("L", caps_json(c.raw_l)),
            ("R", caps_json(c.raw_r)),
            ("L_as_seen_by_R", caps_json(c.l_seen)),
            ("R_as_seen_by_L", caps_json(c.r_seen)),
            ("end_L", Json::s(format!("{:?}", a))),
            ("end_R", Json::s(format!("{:?}", b))),
        ])
    };
    // ---- mirror clauses
    if a.families != b.families {
        rep.violation("C16/mirror/family-set", "the two ends negotiate different family sets", witness("families", &a, &b));
    }
    if a.tx != b.rx || a.rx != b.tx {
        rep.violation(
            "C16/mirror/addpath-tx-rx",
            "add-path send negotiated at one end is not add-path receive at the other",
            witness("tx(L,R) != rx(R,L)", &a, &b),
        );
    }
    if a.extmsg != b.extmsg {
        rep.violation("C16/mirror/extended-message/asymmetric", "extended message in force at one end only", witness("extmsg", &a, &b));
    }
    if a.as4 != b.as4 {
        rep.violation("C16/mirror/four-octet-as/asymmetric", "4-octet AS in force at one end only", witness("as4", &a, &b));
    }
    if let (Some(x), Some(y)) = (a.enh_v4, b.enh_v4) {
        if x != y {
            rep.violation("C16/mirror/extended-nexthop/asymmetric", "extended next hop (IPv4 unicast) in force at one end only", witness("enh", &a, &b));
        }
    }
    // ---- in force iff both advertised
    let want_ext = has_extmsg(c.l_adv) && has_extmsg(c.r_adv);
    if a.extmsg != want_ext || b.extmsg != want_ext {
        rep.violation(
            if want_ext { "C16/mirror/extended-message/not-in-force" } else { "C16/mirror/extended-message/one-sided" },
            "extended message must be in force iff both advertised it",
            witness("extmsg iff both", &a, &b),
        );
    }
    if want_ext {
        rep.count("inforce:extended-message");
    } else if has_extmsg(c.l_adv) || has_extmsg(c.r_adv) {
        rep.count("one-sided:extended-message");
    }
    let want_as4 = has_as4(c.l_adv) && has_as4(c.r_adv);
    if a.as4 != want_as4 || b.as4 != want_as4 {
        rep.violation(
            if want_as4 { "C16/mirror/four-octet-as/not-in-force" } else { "C16/mirror/four-octet-as/one-sided" },
            "4-octet AS must be in force iff both advertised it",
            witness("as4 iff both", &a, &b),
        );
    }
    if want_as4 {
        rep.count("inforce:four-octet-as");
    } else if has_as4(c.l_adv) || has_as4(c.r_adv) {
        rep.count("one-sided:four-octet-as");
    }
    let lm = mp_set(c.l_adv);
    let rm = mp_set(c.r_adv);
    let want_f: BTreeSet<u32> = lm.intersection(&rm).copied().collect();
    if a.families != want_f || b.families != want_f {
        let extra = a.families.difference(&want_f).next().is_some() || b.families.difference(&want_f).next().is_some();
        rep.violation(
            if extra { "C16/mirror/family/one-sided" } else { "C16/mirror/family/not-in-force" },
            "a family must be in force iff both advertised MultiProtocol for it",
            witness(&format!("families want {:?}", want_f), &a, &b),
        );
    }
    rep.count_n("inforce:family", want_f.len() as u64);
    rep.count_n("one-sided:family", lm.symmetric_difference(&rm).count() as u64);
    // add-path only families (AddPath without MultiProtocol on one side)
    for f in universe {
        let id = fid(*f);
        let la = ap_adv(c.l_adv, *f);
        let ra = ap_adv(c.r_adv, *f);
        if !want_f.contains(&id) {
            if la.entries > 0 || ra.entries > 0 {
                rep.count("shape:addpath-for-family-not-in-force");
            }
            continue; // membership already judged above
        }
        if la.invalid || ra.invalid {
            // an invalid Send/Receive value is "ignored" by RFC 7911; the lists of this
            // view did not pass the decoder that drops them, so what the code makes of
            // the raw value is not judged (it cannot arrive from the wire)
            rep.count("unjudged:addpath-invalid-mode-in-raw-list");
            continue;
        }
        // L -> R direction: L sends, R receives
        for (dir, s, r, got_s, got_r) in [
            ("L->R", la, ra, a.tx.contains(&id), b.rx.contains(&id)),
            ("R->L", ra, la, b.tx.contains(&id), a.rx.contains(&id)),
        ] {
            let must = s.def_tx && r.def_rx;
            let may = s.poss_tx && r.poss_rx;
            if must {
                rep.count("inforce:addpath-direction");
            } else if s.poss_tx != r.poss_rx {
                rep.count("one-sided:addpath-direction");
            }
            if may && !must {
                rep.count("unjudged:addpath-conflicting-duplicates");
            }
            for (end, got) in [("sender", got_s), ("receiver", got_r)] {
                if must && !got {
                    rep.violation(
                        "C16/mirror/addpath/not-in-force",
                        "an add-path direction both ends advertised (Send at the sender, Receive at the receiver) is not in force",
                        witness(&format!("family {:#x} {} at the {}", id, dir, end), &a, &b),
                    );
                } else if !may && got {
                    rep.violation(
                        "C16/mirror/addpath/one-sided",
                        "an add-path direction is in force although the matching half was not advertised",
                        witness(&format!("family {:#x} {} at the {}", id, dir, end), &a, &b),
                    );
                }
            }
        }
    }
    // extended next hop for IPv4 unicast
    if want_f.contains(&fid(Family::IPV4)) {
        let want = enh_v4_adv(c.l_adv) && enh_v4_adv(c.r_adv);
        for (end, got) in [("L", a.enh_v4), ("R", b.enh_v4)] {
            match got {
                Some(g) if g != want => {
                    let other = enh_any_adv(c.l_adv) && enh_any_adv(c.r_adv);
                    rep.violation(
                        if want {
                            "C16/mirror/extended-nexthop/not-in-force"
                        } else if other {
                            "C16/mirror/extended-nexthop/ipv4-unicast-via-other-family"
                        } else {
                            "C16/mirror/extended-nexthop/one-sided"
                        },
                        "IPv4 unicast with an IPv6 next hop (RFC 8950) must be in force iff both advertised that tuple",
                        witness(&format!("end {} enh={} want={}", end, g, want), &a, &b),
                    );
                }
                Some(_) => {}
                None => rep.count("unjudged:enh-encoder-refused"),
            }
        }
        if want {
            rep.count("inforce:extended-nexthop");
        } else if enh_v4_adv(c.l_adv) || enh_v4_adv(c.r_adv) {
            rep.count("one-sided:extended-nexthop");
        }
    }
}

fn has_invalid_mode(c: &[Capability]) -> bool {
    c.iter().any(|x| matches!(x, Capability::AddPath(e) if e.iter().any(|(_, m)| !(1..=3).contains(m))))
}

fn main() {
    let params = Params::from_args_env();
    let mut rep = Report::new("C16", &params);
    let mut rng = Rng::new(params.seed ^ 0xC16_E1);
    let all = pool();
    let n = params.n(200_000, 4_000_000);
    for i in 0..n {
        if i % 256 == 0 && !rep.in_budget() {
            break;
        }
        // a small universe so that the two lists overlap
        let k = rng.range(1, 5) as usize;
        let mut idx: Vec<usize> = (0..all.len()).collect();
        rng.shuffle(&mut idx);
        let mut universe: Vec<Family> = idx[..k].iter().map(|i| all[*i]).collect();
        if rng.chance(1, 2) && !universe.contains(&Family::IPV4) {
            universe[0] = Family::IPV4;
        }
        let outside: Vec<Family> = if rng.chance(1, 3) { vec![all[idx[k]]] } else { vec![] };
        let l = gen_caps(&mut rng, &universe, &outside);
        let r = gen_caps(&mut rng, &universe, &outside);
        let mut all_f = universe.clone();
        all_f.extend(outside.iter().copied());
        rep.count("pairs");
        let h = fnv64(format!("{:?}|{:?}", l, r).as_bytes());
        let common = mp_set(&l).intersection(&mp_set(&r)).count();
        let any_opt = |c: &[Capability]| {
            c.iter().any(|x| {
                matches!(
                    x,
                    Capability::AddPath(_) | Capability::ExtendedNexthop(_) | Capability::ExtendedMessage | Capability::FourOctetAsNumber(_)
                )
            })
        };
        if common > 0 && (any_opt(&l) || any_opt(&r)) {
            rep.nontrivial(h);
        }
        if has_invalid_mode(&l) || has_invalid_mode(&r) {
            rep.count("shape:invalid-addpath-mode");
        }
        // view 1: raw lists both ways
        judge(
            &mut rep,
            &Case { view: "raw", l_own: &l, r_seen: &r, r_own: &r, l_seen: &l, l_adv: &l, r_adv: &r, raw_l: &l, raw_r: &r },
            &all_f,
        );
        // views 2/3: through the real OPEN encode -> decode
        let lw = guard(|| wire(&l));
        let rw = guard(|| wire(&r));
        let (lw, rw) = match (lw, rw) {
            (Ok(a), Ok(b)) => (a, b),
            (Err(p), _) | (_, Err(p)) => {
                rep.violation(
                    &format!("C16/panic/{}:{}", p.location, panic_class(&p.message)),
                    &format!("OPEN encode/decode panicked: {}", p.message),
                    Json::obj(vec![("L", caps_json(&l)), ("R", caps_json(&r))]),
                );
                continue;
            }
        };
        let (lw, rw) = match (lw, rw) {
            (Ok(a), Ok(b)) => (a, b),
            (Err(e), _) | (_, Err(e)) => {
                // too long for one OPEN, or a list the decoder refuses: C04 judges the codec
                rep.count(&format!("wire-skipped:{}", e.split(':').next().unwrap_or("?")));
                continue;
            }
        };
        rep.count("wire:pairs");
        if lw.len() != l.len() || rw.len() != r.len() {
            rep.count("wire:capability-count-changed");
        }
        // each end: its own list as configured, the other's as decoded from the wire
        if !has_invalid_mode(&l) && !has_invalid_mode(&r) {
            judge(
                &mut rep,
                &Case { view: "own-raw/peer-wire", l_own: &l, r_seen: &rw, r_own: &r, l_seen: &lw, l_adv: &lw, r_adv: &rw, raw_l: &l, raw_r: &r },
                &all_f,
            );
        }
        judge(
            &mut rep,
            &Case { view: "wire", l_own: &lw, r_seen: &rw, r_own: &rw, l_seen: &lw, l_adv: &lw, r_adv: &rw, raw_l: &l, raw_r: &r },
            &all_f,
        );
        if rep.want_sample() && common > 0 {
            rep.sample(Json::obj(vec![("L", caps_json(&l)), ("R", caps_json(&r)), ("L_wire", caps_json(&lw)), ("R_wire", caps_json(&rw))]));
        }
    }
    std::process::exit(rep.finish());
}
