//! C12 — RPKI origin validation returns exactly the RFC 6811 state.
//!
//! Workload: real `table::RpkiTable` driven with (a) exhaustive small bit-width
//! sub-spaces, (b) random VRP sets over the real address space, (c) histories of
//! insert / remove / drop_source / reset.  Oracle: brute-force RFC 6811 over the
//! VRP list, written from the statement.
use rbgp_verif::common::*;
use rustybgp_packet::bgp::{Ipv4Net, Ipv6Net};
use rustybgp_packet::{Attribute, IpNet, Nlri};
use rustybgp_table as table;
use std::collections::BTreeSet;
use std::net::{IpAddr, Ipv4Addr, Ipv6Addr};
use std::sync::Arc;
use table::{PeerRole, Roa, RpkiTable, RpkiValidationState, Source};

const AS_A: u32 = 65001;
const AS_B: u32 = 65002;
const LOCAL_AS: u32 = 65000;

/// A VRP of the model: address as u128 left-aligned in `bits` (32 or 128).
#[derive(Clone, Copy, Debug, PartialEq, Eq, PartialOrd, Ord, Hash)]
struct Vrp {
    cache: u8,
    v6: bool,
    addr: u128, // left-aligned to 128 bits for v6, value in low 32 bits for v4
    len: u8,
    maxlen: u8,
    asn: u32,
}

#[derive(Clone, Copy, Debug, PartialEq, Eq, Hash)]
struct Route {
    v6: bool,
    addr: u128,
    len: u8,
}

fn width(v6: bool) -> u32 {
    if v6 { 128 } else { 32 }
}

fn mask_to(addr: u128, len: u8, v6: bool) -> u128 {
    let w = width(v6);
    if len == 0 {
        0
    } else if len as u32 >= w {
        addr
    } else {
        let shift = w - len as u32;
        (addr >> shift) << shift
    }
}

/// RFC 6811: VRP prefix covers route prefix iff vrp.len <= route.len and the
/// first vrp.len bits are equal.
fn covers(v: &Vrp, r: &Route) -> bool {
    v.v6 == r.v6 && v.len <= r.len && mask_to(r.addr, v.len, r.v6) == mask_to(v.addr, v.len, v.v6)
}

#[derive(Clone, Copy, Debug, PartialEq, Eq)]
enum St {
    NotFound,
    Valid,
    Invalid,
}

/// origin: None = "NONE" (RFC 6811 for AS_SET tails), Some(asn) otherwise
fn reference(vrps: &[Vrp], r: &Route, origin: Option<u32>) -> St {
    let mut any_cover = false;
    for v in vrps {
        if covers(v, r) {
            any_cover = true;
            if let Some(o) = origin {
                if v.asn != 0 && v.asn == o && r.len <= v.maxlen {
                    return St::Valid;
                }
            }
        }
    }
    if any_cover { St::Invalid } else { St::NotFound }
}

fn to_ipnet(v6: bool, addr: u128, len: u8) -> IpNet {
    if v6 {
        IpNet::new(IpAddr::V6(Ipv6Addr::from(addr)), len)
    } else {
        IpNet::new(IpAddr::V4(Ipv4Addr::from(addr as u32)), len)
    }
}

fn to_nlri(r: &Route) -> Nlri {
    if r.v6 {
        Nlri::V6(Ipv6Net {
            addr: Ipv6Addr::from(r.addr),
            mask: r.len,
        })
    } else {
        Nlri::V4(Ipv4Net {
            addr: Ipv4Addr::from(r.addr as u32),
            mask: r.len,
        })
    }
}

fn ipnet_str(n: &IpNet) -> String {
    format!("{}", n)
}

#[derive(Clone, Copy, Debug, PartialEq, Eq, Hash)]
enum Origin {
    SeqTail(u32),
    SetTail(u32),
    Empty,
    NoAttr,
}

fn as_path(segs: &[(u8, Vec<u32>)]) -> Attribute {
    let mut b = Vec::new();
    for (t, asns) in segs {
        b.push(*t);
        b.push(asns.len() as u8);
        for a in asns {
            b.extend_from_slice(&a.to_be_bytes());
        }
    }
    Attribute::new_with_bin(Attribute::AS_PATH, b).unwrap()
}

fn origin_attrs(o: Origin) -> Arc<Vec<Attribute>> {
    let origin = Attribute::new_with_value(Attribute::ORIGIN, 0).unwrap();
    match o {
        Origin::SeqTail(a) => Arc::new(vec![origin, as_path(&[(2, vec![64999, a])])]),
        Origin::SetTail(a) => Arc::new(vec![origin, as_path(&[(2, vec![64999]), (1, vec![a, 64998])])]),
        Origin::Empty => Arc::new(vec![origin, Attribute::empty_as_path()]),
        Origin::NoAttr => Arc::new(vec![origin]),
    }
}

/// The origin AS(es) the statement permits for this derivation.  For an AS_SET
/// tail RFC 6811 says NONE; the statement does not fix it, so the code's choice
/// (local AS) is accepted as well — the oracle must not demand more.
fn permitted_origins(o: Origin) -> Vec<Option<u32>> {
    match o {
        Origin::SeqTail(a) => vec![Some(a)],
        Origin::SetTail(_) => vec![None, Some(LOCAL_AS)],
        Origin::Empty | Origin::NoAttr => vec![Some(LOCAL_AS)],
    }
}

fn st_of(s: RpkiValidationState) -> St {
    match s {
        RpkiValidationState::NotFound => St::NotFound,
        RpkiValidationState::Valid => St::Valid,
        RpkiValidationState::Invalid => St::Invalid,
    }
}

struct Ctx {
    rep: Report,
    src: Arc<Source>,
    caches: Vec<Arc<IpAddr>>,
}

fn vrp_json(v: &Vrp) -> Json {
    Json::s(format!(
        "cache{} {}-{} AS{}",
        v.cache,
        ipnet_str(&to_ipnet(v.v6, v.addr, v.len)),
        v.maxlen,
        v.asn
    ))
}

fn build_table(ctx: &Ctx, vrps: &[Vrp]) -> RpkiTable {
    let mut t = RpkiTable::new();
    for v in vrps {
        t.insert(
            to_ipnet(v.v6, v.addr, v.len),
            Arc::new(Roa::new(v.maxlen, v.asn, ctx.caches[v.cache as usize].clone())),
        );
    }
    t
}

fn classify_shape(vrps: &[Vrp], r: &Route) -> &'static str {
    // which relation the VRPs have to the route — for signatures and coverage counters
    let mut cover = false;
    let mut more_specific = false;
    let mut sibling = false;
    for v in vrps {
        if covers(v, r) {
            cover = true;
        } else if v.len > r.len && mask_to(v.addr, r.len, v.v6) == mask_to(r.addr, r.len, r.v6) {
            more_specific = true;
        } else {
            sibling = true;
        }
    }
    match (cover, more_specific, sibling) {
        (true, false, false) => "cover",
        (true, true, _) => "cover+more-specific",
        (true, false, true) => "cover+sibling",
        (false, true, _) => "more-specific-only",
        (false, false, true) => "sibling-only",
        (false, false, false) => "empty",
    }
}

/// Evaluate one (VRP set, route, origin) case against the real table.
fn check_case(ctx: &mut Ctx, t: &RpkiTable, vrps: &[Vrp], r: &Route, o: Origin, via_policy: Option<&PolicyProbe>) {
    ctx.rep.eval();
    let attrs = origin_attrs(o);
    let nlri = to_nlri(r);
    let got = match guard(|| t.validate(&ctx.src, &nlri, &attrs)) {
        Ok(g) => g,
        Err(p) => {
            let sig = format!("C12/panic/{}:{}", p.location, panic_class(&p.message));
            let w = witness(vrps, r, o, "panic", &p.message);
            ctx.rep.violation(&sig, &format!("RpkiTable::validate panicked at {}: {}", p.location, p.message), w);
            return;
        }
    };
    let same_family: Vec<Vrp> = vrps.iter().filter(|v| v.v6 == r.v6).cloned().collect();
    let expected: Vec<St> = permitted_origins(o)
        .into_iter()
        .map(|po| reference(&same_family, r, po))
        .collect();
    let shape = classify_shape(&same_family, r);
    ctx.rep.count(&format!("shape:{}", shape));
    let byte_aligned = r.len % 8 == 0;
    ctx.rep.count(if byte_aligned { "route:byte-aligned" } else { "route:off-byte" });

    let got_state = match &got {
        None => {
            // `validate` returns None when the family's table is empty: that is NotFound.
            if same_family.is_empty() {
                St::NotFound
            } else {
                let w = witness(vrps, r, o, "None", "validate returned None with VRPs installed");
                ctx.rep.violation("C12/state/none-with-vrps", "validate returned None although VRPs of that family are installed", w);
                return;
            }
        }
        Some(v) => st_of(v.state),
    };
    ctx.rep.count(&format!("expected:{:?}", expected[0]));
    if !expected.contains(&got_state) {
        let sig = format!("C12/state/expected-{:?}-got-{:?}/{}", expected[0], got_state, shape);
        let w = witness(vrps, r, o, &format!("{:?}", got_state), &format!("expected {:?}", expected));
        ctx.rep.violation(
            &sig,
            &format!(
                "validate gives {:?} where RFC 6811 gives {:?} (VRPs relate to the route as: {})",
                got_state, expected[0], shape
            ),
            w,
        );
    } else if let Some(v) = &got {
        // matched/unmatched lists must be exactly the covering VRPs, partitioned
        let mut listed: Vec<(String, u8, u32, bool)> = Vec::new();
        for (n, roa) in v.matched.iter() {
            listed.push((ipnet_str(n), roa.max_length, roa.as_number, true));
        }
        for (n, roa) in v.unmatched_asn.iter().chain(v.unmatched_length.iter()) {
            listed.push((ipnet_str(n), roa.max_length, roa.as_number, false));
        }
        listed.sort();
        // only judged when the origin derivation is unambiguous
        let pos = permitted_origins(o);
        if pos.len() == 1 {
            let org = pos[0];
            let mut want: Vec<(String, u8, u32, bool)> = same_family
                .iter()
                .filter(|v| covers(v, r))
                .map(|v| {
                    let m = org.is_some_and(|a| v.asn != 0 && v.asn == a && r.len <= v.maxlen);
                    (ipnet_str(&to_ipnet(v.v6, v.addr, v.len)), v.maxlen, v.asn, m)
                })
                .collect();
            want.sort();
            // duplicates across caches are legitimate distinct VRPs: compare as multisets
            if listed != want {
                let sig = format!("C12/lists/{}", shape);
                let w = witness(vrps, r, o, &format!("{:?}", listed), &format!("want {:?}", want));
                ctx.rep.violation(&sig, "matched/unmatched lists are not exactly the covering VRPs", w);
            }
        }
    }
    if same_family.is_empty() && via_policy.is_some() {
        // No VRP of this family installed: `validate` reports "no result" and the
        // condition cannot match any state.  The statement quantifies over VRP sets;
        // whether an empty per-family table means NotFound or "validation not
        // performed" is not fixed by it, so the policy clause is not judged here.
        ctx.rep.count("policy-skip-empty-family");
    } else if let Some(pp) = via_policy {
        // Condition::Rpki through apply_import with the same table
        for (st, asg) in pp.assignments.iter() {
            let mut nh = None;
            // as TableManager::apply_import does: `policy.needs_rpki.then(|| rpki table)`
            let rpki_arg = if asg.needs_rpki { Some(t) } else { None };
            if asg.policies.len() > 1 {
                ctx.rep.count("policy-condition-evals-accumulated-assignment");
            }
            let res = guard(|| table::apply_import(asg, rpki_arg, &ctx.src, &nlri, &attrs, &mut nh));
            match res {
                Ok((filtered, _)) => {
                    ctx.rep.count("policy-condition-evals");
                    // policy: "reject if rpki == st", default accept
                    let expect_any: Vec<bool> = expected.iter().map(|e| e == st).collect();
                    if !expect_any.contains(&filtered) {
                        let sig = format!("C12/policy/{:?}", st);
                        let w = witness(vrps, r, o, &format!("filtered={}", filtered), &format!("expected state {:?}", expected));
                        ctx.rep.violation(&sig, "Condition::Rpki disagrees with RFC 6811 state", w);
                    }
                }
                Err(p) => {
                    let sig = format!("C12/panic/{}:{}", p.location, panic_class(&p.message));
                    let w = witness(vrps, r, o, "panic", &p.message);
                    ctx.rep.violation(&sig, "apply_import with Condition::Rpki panicked", w);
                }
            }
        }
    }
    // distinct non-trivial: at least one VRP of the route's family is installed
    if !same_family.is_empty() {
        let mut key = Vec::new();
        for v in &same_family {
            key.extend_from_slice(&v.addr.to_be_bytes());
            key.extend_from_slice(&[v.len, v.maxlen, v.cache]);
            key.extend_from_slice(&v.asn.to_be_bytes());
        }
        key.extend_from_slice(&r.addr.to_be_bytes());
        key.push(r.len);
        key.extend_from_slice(format!("{:?}", o).as_bytes());
        ctx.rep.nontrivial(fnv64(&key));
    }
    if ctx.rep.want_sample() && shape != "empty" && ctx.rep.evaluations % 97 == 3 {
        let w = witness(vrps, r, o, &format!("{:?}", got_state), &format!("expected {:?}", expected));
        ctx.rep.sample(w);
    }
}

fn witness(vrps: &[Vrp], r: &Route, o: Origin, got: &str, note: &str) -> Json {
    Json::obj(vec![
        ("vrps", Json::arr(vrps.iter().map(vrp_json))),
        ("route", Json::s(ipnet_str(&to_ipnet(r.v6, r.addr, r.len)))),
        ("origin", Json::s(format!("{:?}", o))),
        ("observed", Json::s(got)),
        ("note", Json::s(note)),
    ])
}

struct PolicyProbe {
    assignments: Vec<(St, Arc<table::PolicyAssignment>)>,
}

fn build_policy_probe() -> PolicyProbe {
    let mut assignments = Vec::new();
    for (i, (st, cfg)) in [
        (St::Valid, RpkiValidationState::Valid),
        (St::Invalid, RpkiValidationState::Invalid),
        (St::NotFound, RpkiValidationState::NotFound),
    ]
    .into_iter()
    .enumerate()
    {
        let mut pt = table::PolicyTable::new();
        let sname = format!("s{}", i);
        pt.add_statement(
            &sname,
            vec![table::ConditionConfig::Rpki(cfg)],
            Some(table::Disposition::Reject),
            table::Actions::default(),
        )
        .expect("add_statement");
        pt.add_policy("p", vec![sname]).expect("add_policy");
        let a = pt
            .build_assignment(None, "a", table::PolicyDirection::Import, table::Disposition::Accept, vec!["p".into()])
            .expect("build_assignment");
        assignments.push((st, a.clone()));
        // the same condition inside an assignment built by accumulation (AddPolicyAssignment
        // called twice), in both orders, with a second policy that has no RPKI condition and
        // never decides (it matches nothing): the daemon hands the VRP table to the policy
        // only when the assignment says it needs it
        pt.add_statement("never", vec![table::ConditionConfig::Origin(77)], Some(table::Disposition::Reject), table::Actions::default())
            .expect("add_statement");
        pt.add_policy("q", vec!["never".into()]).expect("add_policy");
        let rpki_then_plain = pt
            .build_assignment(Some(&a), "a", table::PolicyDirection::Import, table::Disposition::Accept, vec!["q".into()])
            .expect("build_assignment (accumulate q)");
        assignments.push((st, rpki_then_plain));
        let plain = pt
            .build_assignment(None, "a", table::PolicyDirection::Import, table::Disposition::Accept, vec!["q".into()])
            .expect("build_assignment q");
        let plain_then_rpki = pt
            .build_assignment(Some(&plain), "a", table::PolicyDirection::Import, table::Disposition::Accept, vec!["p".into()])
            .expect("build_assignment (accumulate p)");
        assignments.push((st, plain_then_rpki));
    }
    PolicyProbe { assignments }
}

/// Small bit-width sub-space: prefixes under `stem/stem_len` with lengths
/// stem_len+1 ..= stem_len+span.
struct SubSpace {
    v6: bool,
    stem: u128,
    stem_len: u8,
    span: u8,
    name: &'static str,
}

impl SubSpace {
    fn prefixes(&self) -> Vec<(u128, u8)> {
        let w = width(self.v6);
        let mut out = Vec::new();
        for l in self.stem_len..=self.stem_len + self.span {
            let extra = l - self.stem_len;
            for bits in 0..(1u128 << extra) {
                let addr = if l == 0 { 0 } else { self.stem | (bits << (w - l as u32)) };
                out.push((addr, l));
            }
        }
        out
    }
}

fn subspaces() -> Vec<SubSpace> {
    vec![
        // 8.0.0.0/5 .. lengths 5..9 : straddles the first byte boundary
        SubSpace { v6: false, stem: 0x0800_0000, stem_len: 5, span: 4, name: "v4-5..9" },
        // 10.1.80.0/21 .. lengths 21..25 : straddles the third byte boundary
        SubSpace { v6: false, stem: 0x0A01_5000, stem_len: 21, span: 4, name: "v4-21..25" },
        // 2001:db8:0:8000::/61 .. lengths 61..65 : straddles the 8th byte boundary
        SubSpace {
            v6: true,
            stem: 0x2001_0db8_0000_0008_0000_0000_0000_0000u128,
            stem_len: 61,
            span: 4,
            name: "v6-61..65",
        },
    ]
}

fn all_origins() -> Vec<Origin> {
    vec![
        Origin::SeqTail(AS_A),
        Origin::SeqTail(AS_B),
        Origin::SeqTail(LOCAL_AS),
        Origin::SetTail(AS_A),
        Origin::Empty,
        Origin::NoAttr,
    ]
}

fn vrps_of_space(sp: &SubSpace) -> Vec<Vrp> {
    let top = sp.stem_len + sp.span;
    let mut out = Vec::new();
    for (addr, l) in sp.prefixes() {
        let mut mls = vec![l, top];
        if l + 1 < top {
            mls.push(l + 1);
        }
        mls.sort();
        mls.dedup();
        for ml in mls {
            for asn in [AS_A, AS_B, 0, LOCAL_AS] {
                out.push(Vrp { cache: 0, v6: sp.v6, addr, len: l, maxlen: ml, asn });
            }
        }
    }
    out
}

fn run_exhaustive(ctx: &mut Ctx, pp: &PolicyProbe, pairs_budget: u64, rng: &mut Rng) {
    for sp in subspaces() {
        let routes: Vec<Route> = sp.prefixes().into_iter().map(|(a, l)| Route { v6: sp.v6, addr: a, len: l }).collect();
        let vrps = vrps_of_space(&sp);
        ctx.rep.count_n(&format!("space:{}:routes", sp.name), routes.len() as u64);
        ctx.rep.count_n(&format!("space:{}:vrps", sp.name), vrps.len() as u64);
        // every single-VRP table × every route × every origin derivation: complete
        for v in &vrps {
            let set = [*v];
            let t = build_table(ctx, &set);
            for r in &routes {
                for o in all_origins() {
                    // AS0/LOCAL VRPs only matter with matching origins, but all are cheap
                    check_case(ctx, &t, &set, r, o, None);
                }
            }
        }
        ctx.rep.count(&format!("space:{}:singles-complete", sp.name));
        // pairs of VRPs (second possibly from another cache): sampled
        let mut done = 0u64;
        while done < pairs_budget && ctx.rep.in_budget() {
            let a = *rng.pick(&vrps);
            let mut b = *rng.pick(&vrps);
            b.cache = rng.below(2) as u8;
            let set: Vec<Vrp> = if a == b { vec![a] } else { vec![a, b] };
            let t = build_table(ctx, &[a, b]);
            for _ in 0..8 {
                let r = *rng.pick(&routes);
                let o = *rng.pick(&all_origins());
                check_case(ctx, &t, &set, &r, o, if done % 16 == 0 { Some(pp) } else { None });
            }
            done += 1;
        }
    }
}

fn random_prefix(rng: &mut Rng, v6: bool) -> (u128, u8) {
    let w = width(v6) as u64;
    // cluster addresses so that covering relations are common
    let pool: [u128; 4] = if v6 {
        [
            0x2001_0db8_0000_0000_0000_0000_0000_0000,
            0x2001_0db8_ffff_0000_0000_0000_0000_0000,
            0x2a00_0000_0000_0000_0000_0000_0000_0000,
            0x2001_0db8_0000_00ff_ff00_0000_0000_0000,
        ]
    } else {
        [0x0A00_0000, 0x0A00_FF00, 0xC0A8_0000, 0x0A80_0000]
    };
    let base = *rng.pick(&pool);
    let len = rng.range(0, w) as u8;
    let noise: u128 = ((rng.next_u64() as u128) << 64 | rng.next_u64() as u128) & if v6 { u128::MAX } else { 0xffff_ffff };
    // keep the top bits of base, randomise a window of low bits
    let keep = rng.range(0, w) as u32;
    let a = if keep == 0 {
        noise
    } else if keep as u64 >= w {
        base
    } else {
        let sh = w as u32 - keep;
        ((base >> sh) << sh) | (noise & ((1u128 << sh) - 1))
    };
    (mask_to(a, len, v6), len)
}

fn run_random(ctx: &mut Ctx, pp: &PolicyProbe, sets: u64, rng: &mut Rng) {
    for i in 0..sets {
        if !ctx.rep.in_budget() {
            break;
        }
        let n = rng.range(1, 40) as usize;
        let mut vrps = Vec::new();
        for _ in 0..n {
            let v6 = rng.chance(1, 3);
            let (addr, len) = random_prefix(rng, v6);
            let w = width(v6) as u64;
            let extra = rng.range(0, 8);
            let maxlen = rng.range(len as u64, (len as u64 + extra).min(w)) as u8;
            let asn = *rng.pick(&[AS_A, AS_B, 0, LOCAL_AS, 64999]);
            vrps.push(Vrp { cache: rng.below(2) as u8, v6, addr, len, maxlen, asn });
        }
        // model is a set keyed (cache, prefix, maxlen, asn)
        let mut dedup = vrps.clone();
        dedup.sort();
        dedup.dedup();
        let t = build_table(ctx, &vrps);
        for _ in 0..24 {
            let v6 = rng.chance(1, 3);
            // derive the route from a VRP half of the time so covered cases are frequent
            let r = if rng.bool() {
                let fam: Vec<&Vrp> = dedup.iter().filter(|v| v.v6 == v6).collect();
                if fam.is_empty() {
                    let (a, l) = random_prefix(rng, v6);
                    Route { v6, addr: a, len: l }
                } else {
                    let v = **rng.pick(&fam);
                    let w = width(v6) as u64;
                    let delta = rng.range(0, 6) as i64 - 2;
                    let l = (v.len as i64 + delta).clamp(0, w as i64) as u8;
                    let noise: u128 = (rng.next_u64() as u128) << 64 | rng.next_u64() as u128;
                    let a = if l > v.len {
                        let sh = w as u32 - v.len as u32;
                        let low = if sh >= 128 { noise } else { noise & ((1u128 << sh) - 1) };
                        mask_to(v.addr | if v6 { low } else { low & 0xffff_ffff }, l, v6)
                    } else {
                        mask_to(v.addr, l, v6)
                    };
                    Route { v6, addr: a, len: l }
                }
            } else {
                let (a, l) = random_prefix(rng, v6);
                Route { v6, addr: a, len: l }
            };
            let o = *rng.pick(&all_origins());
            check_case(ctx, &t, &dedup, &r, o, if i % 8 == 0 { Some(pp) } else { None });
        }
    }
}

/// Set-semantics histories: insert / remove / drop_source / reset with two caches.
fn run_histories(ctx: &mut Ctx, count: u64, rng: &mut Rng) {
    for _ in 0..count {
        if !ctx.rep.in_budget() {
            break;
        }
        let mut t = RpkiTable::new();
        let mut model: BTreeSet<Vrp> = BTreeSet::new();
        let mut ops: Vec<String> = Vec::new();
        // small universe so that duplicates / re-inserts / removals collide
        let uni: Vec<Vrp> = {
            let mut u = Vec::new();
            for _ in 0..6 {
                let v6 = rng.chance(1, 3);
                let (addr, len) = random_prefix(rng, v6);
                let w = width(v6) as u64;
                for ml in [len, ((len as u64 + 2).min(w)) as u8] {
                    for asn in [AS_A, AS_B] {
                        u.push(Vrp { cache: 0, v6, addr, len, maxlen: ml, asn });
                    }
                }
            }
            u
        };
        let steps = rng.range(5, 40);
        let mut nontrivial = false;
        for _ in 0..steps {
            let k = rng.below(10);
            if k < 5 {
                let mut v = *rng.pick(&uni);
                v.cache = rng.below(2) as u8;
                ops.push(format!("insert {}", vrp_json(&v).render()));
                if model.contains(&v) {
                    nontrivial = true; // duplicate insert
                }
                t.insert(to_ipnet(v.v6, v.addr, v.len), Arc::new(Roa::new(v.maxlen, v.asn, ctx.caches[v.cache as usize].clone())));
                model.insert(v);
            } else if k < 8 {
                let mut v = *rng.pick(&uni);
                v.cache = rng.below(2) as u8;
                ops.push(format!("remove {}", vrp_json(&v).render()));
                let roa = Roa::new(v.maxlen, v.asn, ctx.caches[v.cache as usize].clone());
                t.remove(to_ipnet(v.v6, v.addr, v.len), &roa);
                if model.remove(&v) {
                    nontrivial = true;
                }
            } else if k < 9 {
                let c = rng.below(2) as u8;
                ops.push(format!("drop_source cache{}", c));
                t.drop_source(ctx.caches[c as usize].clone());
                model.retain(|v| v.cache != c);
            } else {
                // reset = drop_source + insert of a fresh snapshot (what rpki_reset does)
                let c = rng.below(2) as u8;
                let n = rng.range(0, 5);
                let mut snap = Vec::new();
                for _ in 0..n {
                    let mut v = *rng.pick(&uni);
                    v.cache = c;
                    snap.push(v);
                }
                ops.push(format!("reset cache{} with {} VRPs", c, snap.len()));
                t.drop_source(ctx.caches[c as usize].clone());
                model.retain(|v| v.cache != c);
                for v in snap {
                    t.insert(to_ipnet(v.v6, v.addr, v.len), Arc::new(Roa::new(v.maxlen, v.asn, ctx.caches[v.cache as usize].clone())));
                    model.insert(v);
                }
            }
            ctx.rep.eval();
            // compare iter() (as a multiset) with the model set
            let mut got: Vec<(bool, String, u8, u32, u8)> = Vec::new();
            for (fam, v6) in [(rustybgp_packet::Family::IPV4, false), (rustybgp_packet::Family::IPV6, true)] {
                for (n, roa) in t.iter(fam) {
                    let c = if Arc::ptr_eq(&roa.source, &ctx.caches[0]) { 0 } else { 1 };
                    got.push((v6, ipnet_str(&n), roa.max_length, roa.as_number, c));
                }
            }
            got.sort();
            let mut want: Vec<(bool, String, u8, u32, u8)> = model
                .iter()
                .map(|v| (v.v6, ipnet_str(&to_ipnet(v.v6, v.addr, v.len)), v.maxlen, v.asn, v.cache))
                .collect();
            want.sort();
            if got != want {
                let kind = if got.len() > want.len() { "extra" } else if got.len() < want.len() { "missing" } else { "different" };
                let sig = format!("C12/set/{}", kind);
                ctx.rep.violation(
                    &sig,
                    "RpkiTable contents differ from the set model keyed (cache, prefix, max-length, AS)",
                    Json::obj(vec![
                        ("ops", Json::strs(ops.clone())),
                        ("got", Json::s(format!("{:?}", got))),
                        ("want", Json::s(format!("{:?}", want))),
                    ]),
                );
                break;
            }
            // and the validation of a probe route still equals the model's
            if !model.is_empty() {
                let v = *model.iter().nth(rng.usize(model.len())).unwrap();
                let r = Route { v6: v.v6, addr: v.addr, len: v.len };
                let set: Vec<Vrp> = model.iter().cloned().collect();
                check_case(ctx, &t, &set, &r, Origin::SeqTail(AS_A), None);
            }
        }
        if nontrivial {
            ctx.rep.count("histories-with-duplicate-or-effective-remove");
            ctx.rep.nontrivial(fnv64(ops.join("|").as_bytes()));
        }
        ctx.rep.count("histories");
    }
}

fn main() {
    let params = Params::from_args_env();
    let rule = "cases = (VRP set, route prefix, origin derivation); non-trivial = at least one VRP of the route's family installed (histories: a duplicate insert or an effective remove occurred); distinct by hash of (VRP set, route, origin) / of the op list";
    let mut rep = Report::new("C12", &params);
    rep.extra("rule", Json::s(rule));
    let src = Arc::new(Source::new(
        IpAddr::V4(Ipv4Addr::new(192, 0, 2, 1)),
        IpAddr::V4(Ipv4Addr::new(192, 0, 2, 254)),
        AS_A,
        LOCAL_AS,
        Ipv4Addr::new(1, 1, 1, 1),
        PeerRole::Ebgp,
    ));
    let caches = vec![
        Arc::new(IpAddr::V4(Ipv4Addr::new(198, 51, 100, 1))),
        Arc::new(IpAddr::V4(Ipv4Addr::new(198, 51, 100, 2))),
    ];
    let mut ctx = Ctx { rep, src, caches };
    let mut rng = Rng::new(params.seed ^ 0xC12);
    let pp = build_policy_probe();

    let part = params.get("part").unwrap_or("all").to_string();
    if part == "all" || part == "exhaustive" {
        run_exhaustive(&mut ctx, &pp, params.n(3_000, 150_000), &mut rng);
        ctx.rep.exhaustive = Some(false); // exhaustive only for the single-VRP sub-space, see counters
    }
    if part == "all" || part == "random" {
        run_random(&mut ctx, &pp, params.n(1_500, 60_000), &mut rng);
    }
    if part == "all" || part == "history" {
        run_histories(&mut ctx, params.n(600, 40_000), &mut rng);
    }
    if ctx.rep.evaluations < 1000 && params.scale >= 1.0 {
        ctx.rep.inconclusive("fewer than 1000 evaluations");
    }
    std::process::exit(ctx.rep.finish());
}
