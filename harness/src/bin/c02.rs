//! C02 — selected and ranked paths are always maximal under the stated decision order.
//!
//! Workload: the real `rustybgp_table::Table` with one IPv4 prefix and one EVPN
//! type-2 NLRI, driven through (a) an exhaustive step matrix, (b) all arrival
//! orders of small path sets, (c) random histories following the daemon's call
//! protocol (per-family `Source`, restale -> restale_llgr+drop_no_llgr -> purge,
//! reconnect with a fresh `Source`, next-hop validity flips).
//! Oracle: a reference strict weak order written from the property statement
//! (`ref_key`), never from the comparator under test.
use rbgp_verif::common::*;
use rustybgp_packet::bgp::{Ipv4Net, Nexthop};
use rustybgp_packet::evpn::{Esi, EvpnNlri, MacIpAdvertisement};
use rustybgp_packet::rd::RouteDistinguisher;
use rustybgp_packet::{Attribute, Family, Nlri};
use rustybgp_table as table;
use std::cell::Cell;
use std::collections::BTreeSet;
use std::net::{IpAddr, Ipv4Addr};
use std::rc::Rc;
use std::sync::Arc;
use table::{InsertResult, NlriChange, PeerRole, Source, Table, TableQuery};

const V4: usize = 0;
const EVPN: usize = 1;
const FAM_NAME: [&str; 2] = ["ipv4", "evpn-type2"];
const LOCAL_AS: u32 = 65000;
const LLGR_STALE: u32 = 0xffff_0006;
const NO_LLGR: u32 = 0xffff_0007;

fn family(f: usize) -> Family {
    if f == V4 { Family::IPV4 } else { Family::L2VPN_EVPN }
}

fn net(f: usize) -> Nlri {
    if f == V4 {
        Nlri::V4(Ipv4Net { addr: Ipv4Addr::new(10, 0, 0, 0), mask: 24 })
    } else {
        Nlri::Evpn(EvpnNlri::MacIpAdvertisement(MacIpAdvertisement {
            rd: RouteDistinguisher::TwoOctetAs { admin: 1, assigned: 1 },
            esi: Esi::ZERO,
            etag: 0,
            mac: [0xaa, 0xbb, 0xcc, 0xdd, 0xee, 0xff],
            ip: None,
            label1: 100,
            label2: None,
        }))
    }
}

fn nh_addr(i: u8) -> Ipv4Addr {
    Ipv4Addr::new(10, 9, 9, i + 1)
}

// ---------------------------------------------------------------- path description

/// AS_PATH shapes: list of (segment type, number of ASNs).  1=SET 2=SEQ 3=CONFED_SEQ 4=CONFED_SET
const ASPATHS: &[(&str, &[(u8, u8)])] = &[
    ("absent", &[]),
    ("empty", &[]),
    ("seq1", &[(2, 1)]),
    ("seq2", &[(2, 2)]),
    ("seq3", &[(2, 3)]),
    ("set3", &[(1, 3)]),
    ("confedseq2+seq1", &[(3, 2), (2, 1)]),
    ("seq1+set2", &[(2, 1), (1, 2)]),
    ("set2+set2", &[(1, 2), (1, 2)]),
    ("confedset2", &[(4, 2)]),
    ("seq255", &[(2, 255)]),
    ("seq255+seq1", &[(2, 255), (2, 1)]),
    ("seq255+seq45", &[(2, 255), (2, 45)]),
    ("seq255+seq255", &[(2, 255), (2, 255)]),
];
const ASP_SHORT: usize = 10; // indices < ASP_SHORT have <= 3 hops
const ASP_ABSENT: usize = 0;

/// Hop count exactly as the statement says: AS_SET counts one, confed segments zero.
fn ref_hops(asp: usize) -> u32 {
    ASPATHS[asp].1.iter().map(|(t, n)| match t {
        2 => *n as u32,
        1 => 1,
        _ => 0,
    }).sum()
}

#[derive(Clone, Copy, Debug, PartialEq, Eq, Hash)]
struct Spec {
    lp: Option<u32>,
    asp: usize,
    origin: u8,
    cluster: u8,
    originator: Option<u32>,
    llgr_comm: bool,
    no_llgr_comm: bool,
    mm: Option<u32>,
    /// layout of the EXTENDED_COMMUNITIES attribute (index into EC_LAYOUTS): which other
    /// communities sit before / between / after MAC Mobility
    ec: u8,
    /// MAC Mobility sticky/static flag (RFC 7432 7.7); not part of the stated order
    sticky: bool,
    /// 0 = one MAC Mobility community, 1 = the same community twice (same sequence number),
    /// 2 = a second MAC Mobility community with a different sequence number (order undefined: not judged)
    mm_dup: u8,
}

/// Extended-community tokens.  M = MAC Mobility (type 0x06 sub-type 0x00), M2 = the second one.
#[derive(Clone, Copy, PartialEq)]
enum Ec {
    Rt0,   // 0x00/0x02 two-octet-AS route target
    Rt2,   // 0x02/0x02 four-octet-AS route target
    Encap, // 0x03/0x0c opaque: encapsulation
    Esi,   // 0x06/0x01 ESI label
    EsImp, // 0x06/0x02 ES-import route target
    Rmac,  // 0x06/0x03 router's MAC
    L2,    // 0x06/0x04 layer-2 attributes
    M,
    M2,
}

const EC_LAYOUTS: &[(&str, &[Ec])] = &[
    ("rt,MM", &[Ec::Rt0, Ec::M, Ec::M2]),
    ("MM", &[Ec::M, Ec::M2]),
    ("rmac,MM", &[Ec::Rmac, Ec::M, Ec::M2]),
    ("rt,esi,MM", &[Ec::Rt0, Ec::Esi, Ec::M, Ec::M2]),
    ("esimp,rt4,l2,MM", &[Ec::EsImp, Ec::Rt2, Ec::L2, Ec::M, Ec::M2]),
    ("MM,rmac", &[Ec::M, Ec::Rmac, Ec::M2]),
    ("rt,rmac,MM,encap", &[Ec::Rt0, Ec::Rmac, Ec::M, Ec::Encap, Ec::M2]),
    ("encap,l2,rmac,esi,MM", &[Ec::Encap, Ec::L2, Ec::Rmac, Ec::Esi, Ec::M, Ec::M2]),
    ("rt,MM,esi,rt4", &[Ec::Rt0, Ec::M, Ec::Esi, Ec::Rt2, Ec::M2]),
    ("esi,MM,rmac,MM2", &[Ec::Esi, Ec::M, Ec::Rmac, Ec::M2]),
    ("encap,rt4,MM", &[Ec::Encap, Ec::Rt2, Ec::M, Ec::M2]),
];

impl Spec {
    /// true when a type-0x06 community other than MAC Mobility precedes MAC Mobility
    fn mm_not_first_type6(&self) -> bool {
        self.mm.is_some()
            && EC_LAYOUTS[self.ec as usize].1.iter().take_while(|t| **t != Ec::M).any(|t| matches!(t, Ec::Esi | Ec::EsImp | Ec::Rmac | Ec::L2))
    }
    fn ext_communities(&self) -> Vec<u8> {
        let mut b = Vec::new();
        let mm = |b: &mut Vec<u8>, seq: u32, sticky: bool| {
            b.extend_from_slice(&[0x06, 0x00, sticky as u8, 0x00]);
            b.extend_from_slice(&seq.to_be_bytes());
        };
        for t in EC_LAYOUTS[self.ec as usize].1 {
            match t {
                Ec::Rt0 => b.extend_from_slice(&[0x00, 0x02, 0xfd, 0xe8, 0, 0, 0, 1]),
                Ec::Rt2 => b.extend_from_slice(&[0x02, 0x02, 0x00, 0x01, 0x00, 0x00, 0x00, 0x64]),
                Ec::Encap => b.extend_from_slice(&[0x03, 0x0c, 0, 0, 0, 0, 0, 8]),
                Ec::Esi => b.extend_from_slice(&[0x06, 0x01, 0x00, 0x00, 0x00, 0x00, 0x00, 0x10]),
                Ec::EsImp => b.extend_from_slice(&[0x06, 0x02, 0x02, 0x00, 0x00, 0x00, 0x00, 0x02]),
                Ec::Rmac => b.extend_from_slice(&[0x06, 0x03, 0x02, 0x00, 0x00, 0x00, 0x00, 0x01]),
                Ec::L2 => b.extend_from_slice(&[0x06, 0x04, 0x00, 0x03, 0x05, 0xdc, 0x00, 0x00]),
                Ec::M => {
                    if let Some(seq) = self.mm {
                        mm(&mut b, seq, self.sticky);
                    }
                }
                Ec::M2 => {
                    if let (Some(seq), d @ 1..=2) = (self.mm, self.mm_dup) {
                        mm(&mut b, if d == 1 { seq } else { seq + 3 }, self.sticky);
                    }
                }
            }
        }
        b
    }

    fn attrs(&self, tag: u32) -> Arc<Vec<Attribute>> {
        let mut v = Vec::new();
        v.push(Attribute::new_with_value(Attribute::ORIGIN, self.origin as u32).unwrap());
        if self.asp != ASP_ABSENT {
            let mut b = Vec::new();
            let mut asn = 64512u32;
            for (t, n) in ASPATHS[self.asp].1 {
                b.push(*t);
                b.push(*n);
                for _ in 0..*n {
                    b.extend_from_slice(&asn.to_be_bytes());
                    asn += 1;
                }
            }
            v.push(Attribute::new_with_bin(Attribute::AS_PATH, b).unwrap());
        }
        // unique tag of this write (MED is not a step of the stated decision order)
        v.push(Attribute::new_with_value(Attribute::MULTI_EXIT_DESC, tag).unwrap());
        if let Some(lp) = self.lp {
            v.push(Attribute::new_with_value(Attribute::LOCAL_PREF, lp).unwrap());
        }
        let mut comm = Vec::new();
        comm.extend_from_slice(&0xfde8_0001u32.to_be_bytes());
        if self.llgr_comm {
            comm.extend_from_slice(&LLGR_STALE.to_be_bytes());
        }
        if self.no_llgr_comm {
            comm.extend_from_slice(&NO_LLGR.to_be_bytes());
        }
        if self.llgr_comm || self.no_llgr_comm || tag % 3 == 0 {
            v.push(Attribute::new_with_bin(Attribute::COMMUNITY, comm).unwrap());
        }
        if let Some(o) = self.originator {
            v.push(Attribute::new_with_value(Attribute::ORIGINATOR_ID, o).unwrap());
        }
        if self.cluster > 0 {
            let b: Vec<u8> = (0..self.cluster).flat_map(|i| [0u8, 0, 0, 10 + i]).collect();
            v.push(Attribute::new_with_bin(Attribute::CLUSTER_LIST, b).unwrap());
        }
        // extended communities in the layout of this path (route targets, EVPN communities of
        // other sub-types, MAC Mobility wherever the layout puts it)
        let ec = self.ext_communities();
        if !ec.is_empty() && (self.mm.is_some() || self.ec != 0) {
            v.push(Attribute::new_with_bin(Attribute::EXTENDED_COMMUNITY, ec).unwrap());
        }
        Arc::new(v)
    }
}

/// One BGP session of a peer for one family (the daemon keeps one `Source` per family).
struct Sess {
    src: Arc<Source>,
    role: PeerRole,
    rid: u32,
    gr: Cell<bool>,
    llgr: Cell<bool>,
}

#[derive(Clone)]
struct MPath {
    tag: u32,
    fam: usize,
    peer: usize,
    addr: IpAddr,
    path_id: u32,
    spec: Spec,
    filtered: bool,
    nh: Option<u8>,
    nh_invalid: bool,
    sess: Rc<Sess>,
}

impl MPath {
    fn eligible(&self) -> bool {
        !self.filtered && !self.nh_invalid
    }
    fn llgr_stale(&self) -> bool {
        self.sess.llgr.get() || self.spec.llgr_comm
    }
    fn desc(&self) -> String {
        format!(
            "tag={} peer={}({:?},rid={},gr-stale={},llgr-stale={}) pid={} lp={:?} aspath={}({} hops) origin={} cluster={} originator={:?} llgr-comm={} no-llgr-comm={} mm={:?}{}{} ext-communities=[{}] filtered={} nh={:?} nh-invalid={}",
            self.tag, self.peer, self.sess.role, self.sess.rid, self.sess.gr.get() as u8, self.sess.llgr.get() as u8,
            self.path_id, self.spec.lp, ASPATHS[self.spec.asp].0, ref_hops(self.spec.asp), self.spec.origin,
            self.spec.cluster, self.spec.originator, self.spec.llgr_comm as u8, self.spec.no_llgr_comm as u8,
            self.spec.mm, if self.spec.sticky { "(sticky)" } else { "" },
            match self.spec.mm_dup { 1 => "(twice)", 2 => "(+second MM, other seq)", _ => "" },
            EC_LAYOUTS[self.spec.ec as usize].0, self.filtered as u8, self.nh, self.nh_invalid as u8
        )
    }
}

// ---------------------------------------------------------------- reference order

const STEPS: [&str; 9] = [
    "mac-mobility", "llgr-stale", "local-pref", "as-path", "origin", "ebgp", "gr-stale", "cluster-list", "router-id",
];
const S_ASPATH: usize = 3;
const S_RID: usize = 8;

/// The decision order of the statement, one component per step, each normalised
/// so that a smaller value is preferred.  Lexicographic comparison = the order.
fn ref_key(p: &MPath) -> [i64; 9] {
    [
        // EVPN MAC-mobility sequence number ahead of everything, type-2 routes only (higher wins; absent = none)
        if p.fam == EVPN { -(p.spec.mm.unwrap_or(0) as i64) } else { 0 },
        // not LLGR-stale over LLGR-stale
        p.llgr_stale() as i64,
        // higher LOCAL_PREF (absent = 100)
        -(p.spec.lp.unwrap_or(100) as i64),
        // shorter AS_PATH (AS_SET one, confed zero)
        ref_hops(p.spec.asp) as i64,
        // lower ORIGIN
        p.spec.origin as i64,
        // eBGP over iBGP / confed-eBGP
        if matches!(p.sess.role, PeerRole::Ebgp | PeerRole::RsClient) { 0 } else { 1 },
        // not graceful-restart-stale over stale
        p.sess.gr.get() as i64,
        // shorter CLUSTER_LIST
        p.spec.cluster as i64,
        // lower ORIGINATOR_ID / router-id
        p.spec.originator.unwrap_or(p.sess.rid) as i64,
    ]
}

/// Some(k) when `a` is strictly better than `b`, decided at step k.
fn better_at(a: &[i64; 9], b: &[i64; 9]) -> Option<usize> {
    for k in 0..9 {
        if a[k] != b[k] {
            return if a[k] < b[k] { Some(k) } else { None };
        }
    }
    None
}

fn first_diff(a: &[i64; 9], b: &[i64; 9]) -> Option<usize> {
    (0..9).find(|&k| a[k] != b[k])
}

// ---------------------------------------------------------------- world = real table + model

#[derive(Clone, Debug)]
enum Op {
    Insert { peer: usize, fam: usize, path_id: u32, spec: Spec, filtered: bool, nh: Option<u8> },
    /// the peer's current session announces again exactly what this (peer, path id) announced
    /// last: same attributes (the same Arc or an equal-content copy), same next hop, same policy result
    Reannounce { peer: usize, fam: usize, path_id: u32, same_arc: bool },
    Remove { peer: usize, fam: usize, path_id: u32 },
    Drop { peer: usize, fam: usize },
    Restale { peer: usize, fam: usize },
    /// always followed by DropNoLlgr, as TableManager::mark_llgr_stale does
    RestaleLlgr { peer: usize, fam: usize },
    DropNoLlgr { peer: usize, fam: usize },
    DropStale { peer: usize, fam: usize },
    DropLlgrStale { peer: usize, fam: usize },
    /// the peer re-established: later inserts use a fresh `Source`
    NewSession { peer: usize, fam: usize },
    NhFlip { nh: u8, reachable: bool },
}

impl Op {
    fn kind(&self) -> &'static str {
        match self {
            Op::Insert { .. } => "insert",
            Op::Reannounce { .. } => "reannounce",
            Op::Remove { .. } => "remove",
            Op::Drop { .. } => "drop",
            Op::Restale { .. } => "restale",
            Op::RestaleLlgr { .. } => "restale_llgr",
            Op::DropNoLlgr { .. } => "drop_no_llgr",
            Op::DropStale { .. } => "drop_stale",
            Op::DropLlgrStale { .. } => "drop_llgr_stale",
            Op::NewSession { .. } => "new-session",
            Op::NhFlip { .. } => "nexthop-validity",
        }
    }
}

#[derive(Clone, Copy)]
struct PeerCfg {
    role: PeerRole,
    rid: u32,
    local: bool,
}

struct World {
    t: Table,
    peers: Vec<PeerCfg>,
    sess: Vec<[Option<Rc<Sess>>; 2]>,
    paths: Vec<MPath>,
    unreachable: BTreeSet<u8>,
    log: Vec<String>,
    next_tag: u32,
    /// what each (peer, family, path id) announced last: (tag, spec, filtered, nh, attribute Arc)
    last: std::collections::BTreeMap<(usize, usize, u32), (u32, Spec, bool, Option<u8>, Arc<Vec<Attribute>>)>,
    resorted: [bool; 2],
    /// the internal EVPN list was seen out of MAC-mobility order (sticky)
    mm_broken: bool,
    /// ... and the misplaced path had MAC Mobility behind another type-0x06 community (sticky)
    mm_pos_broken: bool,
    dead: bool,
}

fn peer_addr(i: usize) -> IpAddr {
    IpAddr::V4(Ipv4Addr::new(192, 0, 2, 1 + i as u8))
}

impl World {
    fn new(peers: Vec<PeerCfg>) -> World {
        let n = peers.len();
        World {
            t: Table::new(0),
            peers,
            sess: (0..n).map(|_| [None, None]).collect(),
            paths: Vec::new(),
            unreachable: BTreeSet::new(),
            log: Vec::new(),
            next_tag: 1,
            last: Default::default(),
            resorted: [false, false],
            mm_broken: false,
            mm_pos_broken: false,
            dead: false,
        }
    }

    fn addr(&self, peer: usize) -> IpAddr {
        if self.peers[peer].local { Source::local().remote_addr } else { peer_addr(peer) }
    }

    fn new_sess(&self, peer: usize) -> Rc<Sess> {
        let c = self.peers[peer];
        let src = if c.local {
            Source::local()
        } else {
            let remote_as = match c.role {
                PeerRole::Ebgp | PeerRole::RsClient => 65001 + peer as u32,
                PeerRole::ConfedEbgp => 64600 + peer as u32,
                _ => LOCAL_AS,
            };
            Arc::new(Source::new(
                peer_addr(peer),
                IpAddr::V4(Ipv4Addr::new(192, 0, 2, 254)),
                remote_as,
                LOCAL_AS,
                Ipv4Addr::from(c.rid),
                c.role,
            ))
        };
        Rc::new(Sess { src, role: c.role, rid: c.rid, gr: Cell::new(false), llgr: Cell::new(false) })
    }

    fn session(&mut self, peer: usize, fam: usize) -> Rc<Sess> {
        if self.sess[peer][fam].is_none() {
            self.sess[peer][fam] = Some(self.new_sess(peer));
        }
        self.sess[peer][fam].clone().unwrap()
    }

    fn fam_paths(&self, fam: usize) -> Vec<&MPath> {
        self.paths.iter().filter(|p| p.fam == fam).collect()
    }

    fn state_desc(&self, fam: usize) -> String {
        let mut s = String::new();
        for p in self.fam_paths(fam) {
            s.push_str(&format!(
                "{}|{:?}|{}|{}|{}|{:?}|{}|{}|{};",
                p.peer, p.sess.role, p.sess.rid, p.sess.gr.get() as u8, p.sess.llgr.get() as u8, p.spec, p.filtered as u8,
                p.nh_invalid as u8, p.path_id
            ));
        }
        s
    }
}

struct Ctx {
    rep: Report,
}

fn jlist(v: &[String]) -> Json {
    Json::strs(v.iter().cloned())
}

/// Apply one op to the real table and the model.  Returns the changes the table
/// reported for this op, as (family index, NlriChange, context name).
fn apply(ctx: &mut Ctx, w: &mut World, op: &Op) -> Vec<(usize, NlriChange, &'static str)> {
    let mut out: Vec<(usize, NlriChange, &'static str)> = Vec::new();
    ctx.rep.count(&format!("op:{}", op.kind()));
    let r = match op.clone() {
        Op::Insert { peer, fam, path_id, spec, filtered, nh } => {
            let sess = w.session(peer, fam);
            let tag = w.next_tag;
            w.next_tag += 1;
            let nh_invalid = nh.is_some_and(|n| w.unreachable.contains(&n));
            let addr = w.addr(peer);
            let mp = MPath { tag, fam, peer, addr, path_id, spec, filtered, nh, nh_invalid, sess: sess.clone() };
            w.log.push(format!("insert[{}] {}", FAM_NAME[fam], mp.desc()));
            let attrs = spec.attrs(tag);
            w.last.insert((peer, fam, path_id), (tag, spec, filtered, nh, attrs.clone()));
            let nexthop = nh.map(|n| Nexthop::V4(nh_addr(n)));
            let t = &mut w.t;
            let r = guard(|| t.insert(sess.src.clone(), family(fam), net(fam), path_id, nexthop, attrs, None, filtered, nh_invalid, None, 0));
            w.paths.retain(|p| !(p.fam == fam && p.addr == addr && p.path_id == path_id));
            w.paths.push(mp);
            r.map(|res| {
                if let InsertResult::Changed(c) = res {
                    out.push((fam, c, "insert"));
                }
            })
        }
        Op::Reannounce { peer, fam, path_id, same_arc } => {
            let Some((tag, spec, filtered, nh, old_attrs)) = w.last.get(&(peer, fam, path_id)).cloned() else {
                return out;
            };
            let sess = w.session(peer, fam);
            let nh_invalid = nh.is_some_and(|n| w.unreachable.contains(&n));
            let addr = w.addr(peer);
            let was_present = w.paths.iter().find(|p| p.fam == fam && p.addr == addr && p.path_id == path_id).map(|p| (p.sess.gr.get(), p.sess.llgr.get()));
            match was_present {
                Some((true, _)) | Some((_, true)) => ctx.rep.count("reannounce:over-stale-entry"),
                Some(_) => ctx.rep.count("reannounce:over-fresh-entry"),
                None => ctx.rep.count("reannounce:after-purge"),
            }
            ctx.rep.count(if same_arc { "reannounce:same-arc" } else { "reannounce:equal-content-new-arc" });
            // the tag stays the same: the entry it replaces (same address + path id) is the only other holder
            let mp = MPath { tag, fam, peer, addr, path_id, spec, filtered, nh, nh_invalid, sess: sess.clone() };
            w.log.push(format!("reannounce[{}] ({}) {}", FAM_NAME[fam], if same_arc { "same attribute Arc" } else { "equal attributes, new Arc" }, mp.desc()));
            let attrs = if same_arc { old_attrs } else { spec.attrs(tag) };
            w.last.insert((peer, fam, path_id), (tag, spec, filtered, nh, attrs.clone()));
            let nexthop = nh.map(|n| Nexthop::V4(nh_addr(n)));
            let t = &mut w.t;
            let r = guard(|| t.insert(sess.src.clone(), family(fam), net(fam), path_id, nexthop, attrs, None, filtered, nh_invalid, None, 0));
            w.paths.retain(|p| !(p.fam == fam && p.addr == addr && p.path_id == path_id));
            w.paths.push(mp);
            r.map(|res| {
                if let InsertResult::Changed(c) = res {
                    out.push((fam, c, "insert"));
                }
            })
        }
        Op::Remove { peer, fam, path_id } => {
            let sess = w.session(peer, fam);
            let addr = w.addr(peer);
            w.log.push(format!("remove[{}] peer={} pid={}", FAM_NAME[fam], peer, path_id));
            let t = &mut w.t;
            let r = guard(|| t.remove(sess.src.clone(), family(fam), net(fam), path_id, None));
            w.paths.retain(|p| !(p.fam == fam && p.addr == addr && p.path_id == path_id));
            r.map(|(c, _)| {
                if let Some(c) = c {
                    out.push((fam, c, "remove"));
                }
            })
        }
        Op::Drop { peer, fam } => {
            let addr = w.addr(peer);
            w.log.push(format!("drop[{}] peer={}", FAM_NAME[fam], peer));
            let t = &mut w.t;
            let r = guard(|| t.drop(addr, family(fam)));
            w.paths.retain(|p| !(p.fam == fam && p.addr == addr));
            w.sess[peer][fam] = None;
            r.map(|(cs, _)| out.extend(cs.into_iter().map(|c| (fam, c, "drop"))))
        }
        Op::Restale { peer, fam } => {
            let addr = w.addr(peer);
            w.log.push(format!("restale[{}] peer={}", FAM_NAME[fam], peer));
            let t = &mut w.t;
            let r = guard(|| t.restale(addr, family(fam)));
            for p in w.paths.iter().filter(|p| p.fam == fam && p.addr == addr) {
                p.sess.gr.set(true);
            }
            w.resorted[fam] = true;
            r.map(|cs| out.extend(cs.into_iter().map(|c| (fam, c, "restale"))))
        }
        Op::RestaleLlgr { peer, fam } => {
            let addr = w.addr(peer);
            w.log.push(format!("restale_llgr[{}] peer={}", FAM_NAME[fam], peer));
            let t = &mut w.t;
            let r = guard(|| t.restale_llgr(addr, family(fam)));
            for p in w.paths.iter().filter(|p| p.fam == fam && p.addr == addr) {
                p.sess.llgr.set(true);
            }
            w.resorted[fam] = true;
            r.map(|cs| out.extend(cs.into_iter().map(|c| (fam, c, "restale_llgr"))))
        }
        Op::DropNoLlgr { peer, fam } => {
            let addr = w.addr(peer);
            w.log.push(format!("drop_no_llgr[{}] peer={}", FAM_NAME[fam], peer));
            let t = &mut w.t;
            let r = guard(|| t.drop_no_llgr(addr, family(fam), None));
            w.paths.retain(|p| !(p.fam == fam && p.addr == addr && p.spec.no_llgr_comm));
            r.map(|(cs, _)| out.extend(cs.into_iter().map(|c| (fam, c, "drop_no_llgr"))))
        }
        Op::DropStale { peer, fam } => {
            let addr = w.addr(peer);
            w.log.push(format!("drop_stale[{}] peer={}", FAM_NAME[fam], peer));
            let t = &mut w.t;
            let r = guard(|| t.drop_stale(addr, family(fam), None));
            w.paths.retain(|p| !(p.fam == fam && p.addr == addr && p.sess.gr.get()));
            r.map(|(cs, _)| out.extend(cs.into_iter().map(|c| (fam, c, "drop_stale"))))
        }
        Op::DropLlgrStale { peer, fam } => {
            let addr = w.addr(peer);
            w.log.push(format!("drop_llgr_stale[{}] peer={}", FAM_NAME[fam], peer));
            let t = &mut w.t;
            let r = guard(|| t.drop_llgr_stale(addr, family(fam), None));
            // (since /repo 279814e) only entries whose *session* is LLGR-stale are purged; a fresh
            // path that merely carries the LLGR_STALE community stays
            w.paths.retain(|p| !(p.fam == fam && p.addr == addr && p.sess.llgr.get()));
            r.map(|(cs, _)| out.extend(cs.into_iter().map(|c| (fam, c, "drop_llgr_stale"))))
        }
        Op::NewSession { peer, fam } => {
            w.log.push(format!("new-session[{}] peer={}", FAM_NAME[fam], peer));
            w.sess[peer][fam] = Some(w.new_sess(peer));
            Ok(())
        }
        Op::NhFlip { nh, reachable } => {
            w.log.push(format!("update_nexthop_validity nh={} reachable={}", nh, reachable));
            let t = &mut w.t;
            let r = guard(|| t.update_nexthop_validity(IpAddr::V4(nh_addr(nh)), reachable));
            if reachable {
                w.unreachable.remove(&nh);
            } else {
                w.unreachable.insert(nh);
            }
            for p in w.paths.iter_mut() {
                if p.nh == Some(nh) {
                    p.nh_invalid = !reachable;
                }
            }
            r.map(|cs| {
                for c in cs {
                    let f = if c.family == Family::IPV4 { V4 } else { EVPN };
                    out.push((f, c, "nexthop-validity"));
                }
            })
        }
    };
    if let Err(p) = r {
        report_panic(ctx, w, &p, op.kind());
    }
    out
}

fn report_panic(ctx: &mut Ctx, w: &mut World, p: &PanicInfo, during: &str) {
    w.dead = true;
    let sig = format!("C02/panic/{}:{}", p.location, panic_class(&p.message));
    ctx.rep.count("panics");
    ctx.rep.violation(
        &sig,
        &format!("table operation `{}` panicked at {}: {}", during, p.location, p.message),
        Json::obj(vec![("ops", jlist(&w.log)), ("during", Json::s(during)), ("message", Json::s(p.message.clone()))]),
    );
}

// ---------------------------------------------------------------- oracle

fn tag_of(attr: &[Attribute]) -> Option<u32> {
    attr.iter().find(|a| a.code() == Attribute::MULTI_EXIT_DESC).and_then(|a| a.value())
}

fn describe(w: &World, fam: usize, tags: &[u32]) -> Json {
    Json::arr(tags.iter().map(|t| match w.paths.iter().find(|p| p.fam == fam && p.tag == *t) {
        Some(p) => Json::s(p.desc()),
        None => Json::s(format!("tag={} (not in the current path set)", t)),
    }))
}

fn witness(w: &World, fam: usize, what: &str, obs: &[u32], note: String) -> Json {
    Json::obj(vec![
        ("family", Json::s(FAM_NAME[fam])),
        ("observed_at", Json::s(what)),
        ("ops", jlist(&w.log)),
        ("observed_list", describe(w, fam, obs)),
        ("current_paths_of_model", Json::arr(w.fam_paths(fam).iter().map(|p| Json::s(p.desc())))),
        ("note", Json::s(note)),
    ])
}

/// Classification aid only: what the packet crate's own `mac_mobility()` reads from this path's
/// attributes.  Never used for a verdict -- only to name the root cause when it disagrees with what
/// the generator put there.
fn code_misreads_mm(p: &MPath) -> bool {
    let attrs = p.spec.attrs(p.tag);
    match guard(|| rustybgp_packet::evpn::mac_mobility(&attrs).map(|x| x.0)) {
        Ok(seq) => seq != p.spec.mm,
        Err(_) => true,
    }
}

/// Signature of a mis-ordering: `better` beats `above` under the reference order
/// although the code ranked `above` first.
fn order_sig(w: &World, fam: usize, better: &MPath, above: &MPath) -> String {
    let kb = ref_key(better);
    let ka = ref_key(above);
    let k = better_at(&kb, &ka).expect("order_sig called on a non-violation");
    // Classification only (which known root cause explains the mis-ordering); the verdict
    // itself never depends on anything below.
    let (hb, ha) = (ref_hops(better.spec.asp), ref_hops(above.spec.asp));
    let (wb, wa) = (hb % 256, ha % 256);
    // ... or one of the two paths of this very pair has a sequence number the code does not read
    let pair_unread = fam == EVPN && (code_misreads_mm(better) || code_misreads_mm(above));
    if fam == EVPN && (w.mm_pos_broken || pair_unread) {
        // the internal EVPN list has been seen out of MAC-mobility order with the misplaced path carrying
        // MAC Mobility behind another EVPN-type (0x06) extended community: its sequence number was not read
        return "C02/order/evpn-mac-mobility-unread-behind-other-type6-community".into();
    }
    if fam == EVPN && w.resorted[EVPN] && w.mm_broken {
        // restale/restale_llgr re-sorted the EVPN list and it has been seen out of MAC-mobility order since:
        // nothing about the order of this list can be trusted any more
        return "C02/order/evpn-mac-mobility-lost-after-restale".into();
    }
    // a hop count above 255 whose value modulo 256 favours `above` although the true count does not
    if (hb > 255 || ha > 255) && ((k == S_ASPATH && wa <= wb) || (k < S_ASPATH && ka[2] == kb[2] && wa < wb && ha >= hb)) {
        return "C02/order/as-path-hop-count-over-255".into();
    }
    // `better` wins at the LLGR step but `above` wins the first differing step among
    // LOCAL_PREF .. GR-stale: the LLGR step was evaluated after that step
    if k == 1 {
        // (hop counts as a u8 accumulator sees them, so that a case mixing both defects is
        // still attributed to one of the two known causes; classification only)
        let (mut ka, mut kb) = (ka, kb);
        if hb > 255 || ha > 255 {
            ka[S_ASPATH] = wa as i64;
            kb[S_ASPATH] = wb as i64;
        }
        if let Some(j) = (2..=6).find(|&j| ka[j] != kb[j]) {
            if ka[j] < kb[j] {
                return format!("C02/order/llgr-stale-after-{}", STEPS[j]);
            }
        }
    }
    match (k + 1..9).find(|&j| ka[j] < kb[j]) {
        Some(j) => format!("C02/order/{}-after-{}", STEPS[k], STEPS[j]),
        None => format!("C02/order/{}-ignored", STEPS[k]),
    }
}

fn order_violation(ctx: &mut Ctx, w: &World, fam: usize, what: &str, obs: &[u32], better: &MPath, above: &MPath, clause: &str) {
    let sig = order_sig(w, fam, better, above);
    let k = better_at(&ref_key(better), &ref_key(above)).unwrap();
    ctx.rep.count(&format!("violated:{}", clause));
    ctx.rep.violation(
        &sig,
        &format!(
            "[{}] path tag={} is ranked above tag={} although the latter wins at decision step `{}` with all earlier steps equal",
            clause, above.tag, better.tag, STEPS[k]
        ),
        witness(w, fam, what, obs, format!(
            "clause={} reference step={} ranked-above: {} || strictly better: {} || keys {:?} vs {:?}",
            clause, STEPS[k], above.desc(), better.desc(), ref_key(above), ref_key(better)
        )),
    );
}

/// Judge one reported list (best first).  `limit` = Some(N) for a top-N list.
/// Returns the reference key of the reported best.
fn judge_list(ctx: &mut Ctx, w: &World, fam: usize, what: &str, obs: &[u32], limit: Option<usize>) -> (Option<[i64; 9]>, bool) {
    let model = w.fam_paths(fam);
    let elig: Vec<&MPath> = model.iter().copied().filter(|p| p.eligible()).collect();
    let mut listed: Vec<&MPath> = Vec::new();
    for t in obs {
        match model.iter().find(|p| p.tag == *t) {
            Some(p) => listed.push(p),
            None => {
                ctx.rep.violation(
                    &format!("C02/ranked/path-not-in-current-set/{}", what),
                    "a reported list contains a path that is not in the current set of paths",
                    witness(w, fam, what, obs, format!("tag {} is not present", t)),
                );
                return (None, false);
            }
        }
    }
    let mut clean = true;
    for (i, p) in listed.iter().enumerate() {
        if p.filtered {
            clean = false;
            ctx.rep.violation(
                &format!("C02/ranked/filtered-in-list/{}", what),
                "a reported list contains a path rejected by import policy",
                witness(w, fam, what, obs, format!("position {} is filtered: {}", i, p.desc())),
            );
        } else if p.nh_invalid {
            clean = false;
            ctx.rep.violation(
                &format!("C02/ranked/nexthop-invalid-in-list/{}", what),
                "a reported list of selected paths contains a path whose next hop is unreachable",
                witness(w, fam, what, obs, format!("position {} has an unreachable next hop: {}", i, p.desc())),
            );
        }
    }
    let ls: Vec<&MPath> = listed.iter().copied().filter(|p| p.eligible()).collect();
    // maximal: nothing eligible strictly better than the reported best (ties are legal)
    let mut best_key = None;
    let mut sorted = clean;
    if let Some(b) = ls.first() {
        let bk = ref_key(b);
        best_key = Some(bk);
        let mut ch: Option<&MPath> = None;
        for p in &elig {
            if better_at(&ref_key(p), &bk).is_some() && ch.is_none_or(|c| better_at(&ref_key(p), &ref_key(c)).is_some()) {
                ch = Some(p);
            }
        }
        if let Some(p) = ch {
            sorted = false;
            order_violation(ctx, w, fam, what, obs, p, b, "maximal");
        } else {
            ctx.rep.count("held:maximal");
        }
    } else if !elig.is_empty() && clean {
        ctx.rep.violation(
            &format!("C02/maximal/no-best-reported/{}", what),
            "eligible paths exist but no best path is reported",
            witness(w, fam, what, obs, format!("{} eligible paths", elig.len())),
        );
    }
    // ranked: non-decreasing under the reference order
    for i in 0..ls.len().saturating_sub(1) {
        let (a, b) = (ref_key(ls[i]), ref_key(ls[i + 1]));
        if better_at(&b, &a).is_some() {
            sorted = false;
            order_violation(ctx, w, fam, what, obs, ls[i + 1], ls[i], if i == 0 { "maximal" } else { "ranked" });
            break;
        }
        if fam == EVPN && first_diff(&a, &b) == Some(0) && ls[i].spec.mm_not_first_type6() {
            // the MAC-mobility step decided in favour of a path whose MAC Mobility community is
            // preceded by another EVPN-type (0x06) community
            ctx.rep.count("decided:mac-mobility:winner-mm-not-first-among-type6");
        }
        match first_diff(&a, &b) {
            Some(k) => ctx.rep.count(&format!("decided:{}", STEPS[k])),
            None => ctx.rep.count("decided:tie"),
        }
    }
    // prefix / completeness
    if clean {
        let want = limit.unwrap_or(usize::MAX).min(elig.len());
        if ls.len() != want {
            let sig = match limit {
                Some(_) => "C02/prefix/topn-length".to_string(),
                None if ls.len() < want => format!("C02/ranked/eligible-path-missing/{}", what),
                None => format!("C02/ranked/list-too-long/{}", what),
            };
            ctx.rep.violation(
                &sig,
                "a reported list does not have the length of the corresponding prefix of the ranking",
                witness(w, fam, what, obs, format!("listed {} paths, limit {:?}, eligible {}", ls.len(), limit, elig.len())),
            );
        } else if let (Some(last), Some(_), true) = (ls.last(), limit, sorted) {
            let lk = ref_key(last);
            if let Some(p) = elig.iter().find(|p| !ls.iter().any(|q| q.tag == p.tag) && better_at(&ref_key(p), &lk).is_some()) {
                ctx.rep.violation(
                    "C02/prefix/topn-skips-better-path",
                    "a top-N list omits a path that is strictly better than one it contains",
                    witness(w, fam, what, obs, format!("omitted: {}", p.desc())),
                );
            }
        }
        if limit.is_some() {
            ctx.rep.count("held:prefix-topn");
        }
    }
    if ls.len() >= 3 {
        ctx.rep.count("list:len>=3");
    }
    (best_key, sorted)
}

/// ECMP run of a change = leading run equal to the best on every step before router-id.
fn judge_ecmp(ctx: &mut Ctx, w: &mut World, fam: usize, what: &str, c: &NlriChange) {
    if fam != V4 {
        ctx.rep.count("unjudged:ecmp-on-evpn");
        return;
    }
    let cur: Vec<u32> = c.current_paths.iter().filter_map(|p| tag_of(&p.attr)).collect();
    let e: Vec<u32> = match guard(|| c.ecmp_paths().iter().filter_map(|p| tag_of(&p.attr)).collect::<Vec<u32>>()) {
        Ok(e) => e,
        Err(p) => {
            report_panic(ctx, w, &p, "ecmp_paths");
            return;
        }
    };
    if e.len() > cur.len() || e[..] != cur[..e.len()] {
        ctx.rep.violation("C02/ecmp/not-a-prefix", "ecmp_paths is not a prefix of current_paths", witness(w, fam, what, &e, format!("current_paths tags {:?}", cur)));
        return;
    }
    let model = w.fam_paths(fam);
    let listed: Vec<&MPath> = cur.iter().filter_map(|t| model.iter().copied().find(|p| p.tag == *t)).collect();
    if listed.len() != cur.len() || listed.is_empty() || !listed[0].eligible() {
        return; // judged elsewhere
    }
    let bk = ref_key(listed[0]);
    let run = listed.iter().take_while(|p| ref_key(p)[..S_RID] == bk[..S_RID]).count();
    if run >= 2 {
        ctx.rep.count("ecmp:expected-run>=2");
    }
    if e.len() > run {
        let off = listed[run];
        let k = first_diff(&ref_key(off), &bk).unwrap();
        let sig = if k == S_ASPATH && (ref_hops(off.spec.asp) > 255 || ref_hops(listed[0].spec.asp) > 255) {
            "C02/ecmp/as-path-hop-count-over-255".to_string()
        } else {
            format!("C02/ecmp/includes-path-differing-at-{}", STEPS[k])
        };
        ctx.rep.violation(
            &sig,
            &format!("ecmp_paths contains a path that differs from the best at step `{}` (before the router-id step)", STEPS[k]),
            witness(w, fam, what, &e, format!("best: {} || offending: {}", listed[0].desc(), off.desc())),
        );
    } else if e.len() < run {
        ctx.rep.violation(
            "C02/ecmp/excludes-path-equal-before-router-id",
            "ecmp_paths stops before a path that equals the best on every step before router-id",
            witness(w, fam, what, &e, format!("expected run of {} paths, current_paths tags {:?}", run, cur)),
        );
    } else {
        ctx.rep.count("held:ecmp");
    }
}

/// Everything observable for one family after one op.  Returns Some(best key or
/// None when nothing is eligible); outer None when the world died (panic / model mismatch).
fn check_state(ctx: &mut Ctx, w: &mut World, fam: usize, changes: &[(usize, NlriChange, &'static str)]) -> Option<Option<[i64; 9]>> {
    if w.dead {
        return None;
    }
    ctx.rep.eval();
    ctx.rep.count(if fam == V4 { "fam:ipv4" } else { "fam:evpn-type2" });
    let n_elig = w.fam_paths(fam).iter().filter(|p| p.eligible()).count();
    let desc = w.state_desc(fam);
    if n_elig >= 2 {
        ctx.rep.nontrivial(fnv64(format!("{}#{}", fam, desc).as_bytes()));
        ctx.rep.count("state:eligible>=2");
    }
    {
        let fp = w.fam_paths(fam);
        if fp.iter().any(|p| p.filtered) {
            ctx.rep.count("state:has-filtered");
        }
        if fp.iter().any(|p| p.nh_invalid) {
            ctx.rep.count("state:has-nexthop-invalid");
        }
        if fp.iter().any(|p| p.sess.gr.get()) {
            ctx.rep.count("state:has-gr-stale");
        }
        if fp.iter().any(|p| p.sess.llgr.get()) {
            ctx.rep.count("state:has-llgr-stale-source");
        }
        if fp.iter().any(|p| p.spec.llgr_comm) {
            ctx.rep.count("state:has-llgr-stale-community");
        }
        if fp.iter().any(|p| ref_hops(p.spec.asp) > 255) {
            ctx.rep.count("state:has-aspath-over-255");
        }
        if fp.iter().any(|p| p.eligible()) && fp.first().is_some_and(|_| n_elig < fp.len()) {
            ctx.rep.count("state:mixed-eligible-ineligible");
        }
    }
    // 0. ListPath view (all paths incl. filtered) first: it is also the harness' own sanity check
    //    and shows whether the internal EVPN list is still ordered by MAC mobility
    let t = &w.t;
    let g = match guard(|| {
        t.destinations(TableQuery::Global, family(fam), vec![], true)
            .filter(|d| d.net == net(fam))
            .flat_map(|d| d.paths.into_iter().map(|p| (tag_of(&p.attr), p.filtered, p.stale, p.source.is_stale(), p.source.is_llgr_stale())))
            .collect::<Vec<_>>()
    }) {
        Ok(v) => v,
        Err(p) => {
            report_panic(ctx, w, &p, "destinations");
            return None;
        }
    };
    let mut got: Vec<u32> = g.iter().filter_map(|x| x.0).collect();
    got.sort();
    let mut want: Vec<u32> = w.fam_paths(fam).iter().map(|p| p.tag).collect();
    want.sort();
    let mut model_ok = got == want && got.len() == g.len();
    if model_ok {
        for (tag, filtered, stale, s_gr, s_llgr) in &g {
            let p = w.paths.iter().find(|p| p.fam == fam && Some(p.tag) == *tag).unwrap();
            if p.filtered != *filtered || p.sess.gr.get() != *stale || p.sess.gr.get() != *s_gr || p.sess.llgr.get() != *s_llgr {
                model_ok = false;
            }
        }
    }
    if !model_ok {
        // the harness model and the table disagree about *which* paths exist or their
        // marks: not a C02 judgement (C06/C10/C15 territory) -- stop judging this history
        ctx.rep.count("model-mismatch");
        ctx.rep.inconclusive(&format!("model/table path-set mismatch after `{}`", w.log.last().cloned().unwrap_or_default()));
        eprintln!("[C02] model mismatch: got {:?} want {:?}\n  ops: {:#?}", g, want, w.log);
        w.dead = true;
        return None;
    }
    if fam == EVPN {
        let fp = w.fam_paths(fam);
        if fp.iter().any(|p| p.spec.mm_dup == 2) {
            // two MAC Mobility communities with different sequence numbers in one route: neither
            // RFC 7432 nor the statement says which one counts, so no order is demanded here
            ctx.rep.count("unjudged:evpn-two-mac-mobility-different-seq");
            return Some(None);
        }
        if fp.iter().any(|p| p.spec.mm_not_first_type6()) {
            ctx.rep.count("state:evpn-mm-not-first-among-type6");
        }
        if fp.iter().any(|p| p.spec.mm.is_some() && p.spec.sticky) {
            ctx.rep.count("state:evpn-mm-sticky");
        }
        if fp.iter().any(|p| p.spec.mm.is_some() && p.spec.mm_dup == 1) {
            ctx.rep.count("state:evpn-mm-community-twice");
        }
        let mms: Vec<(u32, bool)> = g.iter().filter_map(|x| x.0).filter_map(|t| w.paths.iter().find(|p| p.fam == fam && p.tag == t)).map(|p| (p.spec.mm.unwrap_or(0), p.spec.mm_not_first_type6())).collect();
        if let Some(x) = mms.windows(2).find(|x| x[0].0 < x[1].0) {
            w.mm_broken = true;
            if x[1].1 {
                // the path with the higher sequence number that sits too low has another EVPN-type
                // community in front of its MAC Mobility community: see whether the code reads it at all
                let misread = g.iter().filter_map(|x| x.0).filter_map(|t| w.paths.iter().find(|p| p.fam == fam && p.tag == t))
                    .any(|p| p.spec.mm_not_first_type6() && code_misreads_mm(p));
                if misread {
                    w.mm_pos_broken = true;
                }
            }
            ctx.rep.count("state:evpn-list-not-in-mac-mobility-order");
        }
    }
    // 1. the change(s) the op itself returned
    for (f, c, what) in changes {
        if *f != fam || c.net != net(fam) {
            continue;
        }
        let obs: Vec<u32> = c.current_paths.iter().filter_map(|p| tag_of(&p.attr)).collect();
        ctx.rep.count(&format!("observed:change:{}", what));
        judge_list(ctx, w, fam, what, &obs, None);
        judge_ecmp(ctx, w, fam, what, c);
        if w.dead {
            return None;
        }
    }
    // 2. Loc-RIB dump
    let t = &w.t;
    let full = match guard(|| t.collect_loc_rib_paths(&family(fam))) {
        Ok(v) => v,
        Err(p) => {
            report_panic(ctx, w, &p, "collect_loc_rib_paths");
            return None;
        }
    };
    let full_c = full.into_iter().find(|c| c.net == net(fam));
    let full_tags: Vec<u32> = full_c.as_ref().map(|c| c.current_paths.iter().filter_map(|p| tag_of(&p.attr)).collect()).unwrap_or_default();
    let (best, full_sorted) = judge_list(ctx, w, fam, "loc-rib", &full_tags, None);
    if let Some(c) = &full_c {
        judge_ecmp(ctx, w, fam, "loc-rib", c);
        if w.dead {
            return None;
        }
        if let Some(p) = c.new_best() {
            if tag_of(&p.attr) != full_tags.first().copied() {
                ctx.rep.violation("C02/maximal/new-best-not-first", "new_best() is not the head of current_paths", witness(w, fam, "loc-rib", &full_tags, String::new()));
            }
        }
    }
    // 3. add-path top-N
    for n in 1..=3usize {
        let t = &w.t;
        let lim = match guard(|| t.collect_loc_rib_paths_limited(&family(fam), n)) {
            Ok(v) => v,
            Err(p) => {
                report_panic(ctx, w, &p, "collect_loc_rib_paths_limited");
                return None;
            }
        };
        let tags: Vec<u32> = lim.into_iter().find(|c| c.net == net(fam)).map(|c| c.current_paths.iter().filter_map(|p| tag_of(&p.attr)).collect()).unwrap_or_default();
        if tags.len() > full_tags.len() || tags[..] != full_tags[..tags.len()] {
            ctx.rep.violation(
                "C02/prefix/topn-not-prefix-of-full-list",
                "the top-N list is not a prefix of the full ranking reported for the same state",
                witness(w, fam, "loc-rib-top-n", &tags, format!("N={} full list tags {:?}", n, full_tags)),
            );
        }
        if !full_sorted {
            // the ranking itself is already reported as broken; judging a prefix of it adds nothing
            ctx.rep.count("skipped:topn-of-misordered-list");
            continue;
        }
        judge_list(ctx, w, fam, "loc-rib-top-n", &tags, Some(n));
    }
    // 4. order of the eligible paths in the ListPath view
    let elig_seq: Vec<u32> = g.iter().filter_map(|x| x.0).filter(|t| w.paths.iter().any(|p| p.fam == fam && p.tag == *t && p.eligible())).collect();
    judge_list(ctx, w, fam, "list-path", &elig_seq, None);
    if w.paths.iter().any(|p| p.fam == fam && p.nh_invalid && !p.filtered) {
        ctx.rep.count("unjudged:list-path-shows-nexthop-invalid-unmarked");
    }
    // 5. route-server local RIB view (ListPath TABLE_TYPE_LOCAL of an RS client)
    judge_rs_local(ctx, w, fam)?;
    if ctx.rep.want_sample() && n_elig >= 3 && ctx.rep.evaluations % 211 == 7 {
        ctx.rep.sample(witness(w, fam, "loc-rib", &full_tags, "sample: judged state, all clauses held or as reported".into()));
    }
    Some(best)
}

/// `destinations(TableQuery::RsLocal(peer))` shows one path: the best among the unfiltered
/// paths of the *other* route-server clients.  Judged: no such path with a reachable next
/// hop beats the shown one under the reference order (ties legal).
fn judge_rs_local(ctx: &mut Ctx, w: &mut World, fam: usize) -> Option<()> {
    let rs_peers: Vec<usize> = (0..w.peers.len()).filter(|&i| !w.peers[i].local && w.peers[i].role == PeerRole::RsClient).collect();
    if rs_peers.is_empty() {
        return Some(());
    }
    // every RS client as the querying peer, plus one address that is nobody's
    let mut queries: Vec<(String, IpAddr)> = rs_peers.iter().map(|&i| (format!("peer {}", i), peer_addr(i))).collect();
    queries.push(("no peer".into(), IpAddr::V4(Ipv4Addr::new(198, 51, 100, 99))));
    for (who, qaddr) in queries {
        let t = &w.t;
        let got = match guard(|| {
            t.destinations(TableQuery::RsLocal(qaddr), family(fam), vec![], false)
                .filter(|d| d.net == net(fam))
                .flat_map(|d| d.paths.into_iter().map(|p| tag_of(&p.attr)))
                .collect::<Vec<_>>()
        }) {
            Ok(v) => v,
            Err(p) => {
                report_panic(ctx, w, &p, "destinations(RsLocal)");
                return None;
            }
        };
        let cands: Vec<&MPath> = w.paths.iter().filter(|p| p.fam == fam && p.sess.role == PeerRole::RsClient && !p.sess.src.is_local() && p.addr != qaddr && !p.filtered).collect();
        let obs: Vec<u32> = got.iter().filter_map(|t| *t).collect();
        if cands.is_empty() && got.is_empty() {
            continue;
        }
        ctx.rep.count("rs-local:queries-with-candidates");
        let shown = if got.len() == 1 { cands.iter().copied().find(|p| Some(p.tag) == got[0]) } else { None };
        let Some(shown) = shown else {
            ctx.rep.violation(
                "C02/maximal/rs-local-not-one-candidate",
                "the RS-local view does not show exactly one of the other RS clients' unfiltered paths",
                witness(w, fam, "rs-local", &obs, format!("query for {}: {} paths shown, {} candidates", who, got.len(), cands.len())),
            );
            continue;
        };
        if cands.len() >= 2 {
            ctx.rep.count("rs-local:judged-with>=2-candidates");
        }
        if shown.nh_invalid {
            ctx.rep.count("unjudged:rs-local-shows-nexthop-invalid");
        }
        let sk = ref_key(shown);
        let mut ch: Option<&MPath> = None;
        for p in cands.iter().copied().filter(|p| !p.nh_invalid) {
            if better_at(&ref_key(p), &sk).is_some() && ch.is_none_or(|c| better_at(&ref_key(p), &ref_key(c)).is_some()) {
                ch = Some(p);
            }
        }
        match ch {
            Some(p) => {
                let k = better_at(&ref_key(p), &sk).unwrap();
                ctx.rep.count("violated:rs-local");
                ctx.rep.violation(
                    "C02/maximal/rs-local",
                    "the path shown as the route-server local RIB best of an RS client is beaten by another RS client's unfiltered path",
                    witness(w, fam, "rs-local", &obs, format!(
                        "query for {} ({}) || shown: {} || strictly better at step `{}`: {} || {} candidates",
                        who, qaddr, shown.desc(), STEPS[k], p.desc(), cands.len()
                    )),
                );
            }
            None => ctx.rep.count("held:rs-local"),
        }
    }
    Some(())
}

fn step(ctx: &mut Ctx, w: &mut World, op: Op, check: bool) -> Option<()> {
    if w.dead {
        return None;
    }
    let changes = apply(ctx, w, &op);
    if w.dead {
        return None;
    }
    if check {
        match op {
            Op::NhFlip { .. } => {
                check_state(ctx, w, V4, &changes)?;
                check_state(ctx, w, EVPN, &changes)?;
            }
            Op::NewSession { .. } => {}
            Op::Insert { fam, .. } | Op::Reannounce { fam, .. } | Op::Remove { fam, .. } | Op::Drop { fam, .. } | Op::Restale { fam, .. }
            | Op::RestaleLlgr { fam, .. } | Op::DropNoLlgr { fam, .. } | Op::DropStale { fam, .. } | Op::DropLlgrStale { fam, .. } => {
                check_state(ctx, w, fam, &changes)?;
            }
        }
    }
    Some(())
}

// ---------------------------------------------------------------- generators

const ROLES: [PeerRole; 5] = [PeerRole::Ebgp, PeerRole::RsClient, PeerRole::Ibgp, PeerRole::IbgpRrClient, PeerRole::ConfedEbgp];
const LPS: [Option<u32>; 4] = [None, Some(100), Some(200), Some(50)];
const MMS: [Option<u32>; 4] = [None, Some(1), Some(2), Some(256)];
const ORIGINATORS: [Option<u32>; 4] = [None, Some(1), Some(2), Some(9)];

/// All decision-relevant facts of one candidate path, one field group per step.
#[derive(Clone, Copy, Debug)]
struct Flat {
    mm: Option<u32>,
    llgr_src: bool,
    llgr_comm: bool,
    lp: Option<u32>,
    asp: usize,
    origin: u8,
    role: PeerRole,
    gr: bool,
    cluster: u8,
    originator: Option<u32>,
    rid: u32,
    filtered: bool,
    nh: Option<u8>,
    ec: u8,
    sticky: bool,
    mm_dup: u8,
}

fn n_variants(k: usize) -> usize {
    match k {
        0 => MMS.len(),
        1 => 4,
        2 => LPS.len(),
        3 => ASPATHS.len(),
        4 => 3,
        5 => ROLES.len(),
        6 => 2,
        7 => 4,
        _ => ORIGINATORS.len() * 3,
    }
}

fn set_step(f: &mut Flat, k: usize, v: usize) {
    match k {
        0 => f.mm = MMS[v],
        1 => {
            f.llgr_src = v & 1 != 0;
            f.llgr_comm = v & 2 != 0;
        }
        2 => f.lp = LPS[v],
        3 => f.asp = v,
        4 => f.origin = v as u8,
        5 => f.role = ROLES[v],
        6 => f.gr = v != 0,
        7 => f.cluster = v as u8,
        _ => {
            f.originator = ORIGINATORS[v / 3];
            f.rid = 1 + (v % 3) as u32;
        }
    }
}

fn random_asp(rng: &mut Rng, long_ok: bool) -> usize {
    if long_ok && rng.chance(1, 8) { rng.range(ASP_SHORT as u64, ASPATHS.len() as u64 - 1) as usize } else { rng.usize(ASP_SHORT) }
}

fn random_flat(rng: &mut Rng, long_ok: bool) -> Flat {
    let mut f = Flat {
        mm: None, llgr_src: false, llgr_comm: false, lp: None, asp: 2, origin: 0, role: PeerRole::Ebgp, gr: false,
        cluster: 0, originator: None, rid: 1, filtered: false, nh: Some(0), ec: 0, sticky: false, mm_dup: 0,
    };
    for k in 0..9 {
        if k == 3 {
            f.asp = random_asp(rng, long_ok);
        } else if k == 1 || k == 6 {
            // staleness is the rarer state
            set_step(&mut f, k, if rng.chance(1, 3) { rng.usize(n_variants(k)) } else { 0 });
        } else {
            set_step(&mut f, k, rng.usize(n_variants(k)));
        }
    }
    f.nh = Some(rng.below(3) as u8);
    // representation of the extended communities: never part of the order
    f.ec = rng.usize(EC_LAYOUTS.len()) as u8;
    f.sticky = rng.chance(1, 6);
    f.mm_dup = if rng.chance(1, 8) { 1 } else { 0 };
    f
}

struct Case {
    fam: usize,
    peers: Vec<(PeerCfg, bool, bool)>, // cfg, gr-stale, llgr-stale (source flag)
    paths: Vec<(usize, u32, Spec, bool, Option<u8>)>, // peer, path_id, spec, filtered, nh
    unreachable: Vec<u8>,
}

fn spec_of(f: &Flat) -> Spec {
    Spec { lp: f.lp, asp: f.asp, origin: f.origin, cluster: f.cluster, originator: f.originator, llgr_comm: f.llgr_comm, no_llgr_comm: false, mm: f.mm, ec: f.ec, sticky: f.sticky, mm_dup: f.mm_dup }
}

/// one peer per path
fn case_from_flats(fam: usize, flats: &[Flat], unreachable: Vec<u8>) -> Case {
    Case {
        fam,
        peers: flats.iter().map(|f| (PeerCfg { role: f.role, rid: f.rid, local: false }, f.gr, f.llgr_src)).collect(),
        paths: flats.iter().enumerate().map(|(i, f)| (i, 0, spec_of(f), f.filtered, f.nh)).collect(),
        unreachable,
    }
}

/// Run one arrival order of a case.  `early` bit i: peer i is re-marked right after
/// its last insert instead of after all inserts.
fn run_case(ctx: &mut Ctx, case: &Case, order: &[usize], early: u32, check_every: bool) -> Option<(Option<[i64; 9]>, World)> {
    let mut w = World::new(case.peers.iter().map(|p| p.0).collect());
    for nh in &case.unreachable {
        step(ctx, &mut w, Op::NhFlip { nh: *nh, reachable: false }, false)?;
    }
    let fam = case.fam;
    let marks = |ctx: &mut Ctx, w: &mut World, peer: usize, last: bool| -> Option<()> {
        let (_, gr, llgr) = case.peers[peer];
        if gr {
            step(ctx, w, Op::Restale { peer, fam }, check_every || (last && !llgr))?;
        }
        if llgr {
            step(ctx, w, Op::RestaleLlgr { peer, fam }, check_every)?;
            step(ctx, w, Op::DropNoLlgr { peer, fam }, check_every || last)?;
        }
        Some(())
    };
    let late: Vec<usize> = (0..case.peers.len()).filter(|p| early & (1 << p) == 0 && (case.peers[*p].1 || case.peers[*p].2)).collect();
    for (pos, &i) in order.iter().enumerate() {
        let (peer, path_id, spec, filtered, nh) = case.paths[i];
        let last_insert = pos + 1 == order.len();
        let peer_done = !order[pos + 1..].iter().any(|&j| case.paths[j].0 == peer);
        let marks_now = peer_done && early & (1 << peer) != 0 && (case.peers[peer].1 || case.peers[peer].2);
        step(ctx, &mut w, Op::Insert { peer, fam, path_id, spec, filtered, nh }, check_every || (last_insert && late.is_empty() && !marks_now))?;
        if marks_now {
            marks(ctx, &mut w, peer, last_insert && late.is_empty())?;
        }
    }
    for (n, &peer) in late.iter().enumerate() {
        marks(ctx, &mut w, peer, n + 1 == late.len())?;
    }
    // final judgement (the last step above was checked; recompute the best key cheaply)
    let best = {
        let t = &w.t;
        let tags: Vec<u32> = guard(|| t.collect_loc_rib_paths_limited(&family(fam), 1)).ok()?
            .into_iter().find(|c| c.net == net(fam)).map(|c| c.current_paths.iter().filter_map(|p| tag_of(&p.attr)).collect()).unwrap_or_default();
        tags.first().and_then(|t| w.paths.iter().find(|p| p.fam == fam && p.tag == *t)).map(ref_key)
    };
    Some((best, w))
}

// ---------------------------------------------------------------- (a) step matrix

fn run_matrix(ctx: &mut Ctx, rng: &mut Rng, reps: u64) {
    let mut complete = true;
    for fam in [V4, EVPN] {
        for k in 0..9 {
            for va in 0..n_variants(k) {
                for vb in 0..n_variants(k) {
                    if va == vb {
                        continue;
                    }
                    for _ in 0..reps {
                        if !ctx.rep.in_budget() {
                            complete = false;
                            break;
                        }
                        let long_ok = rng.chance(1, 12);
                        let base = random_flat(rng, long_ok);
                        let mut a = random_flat(rng, long_ok);
                        let mut b = random_flat(rng, long_ok);
                        for j in 0..k {
                            // all earlier steps equal
                            let src = base;
                            match j {
                                0 => { a.mm = src.mm; b.mm = src.mm; }
                                1 => { a.llgr_src = src.llgr_src; a.llgr_comm = src.llgr_comm; b.llgr_src = src.llgr_src; b.llgr_comm = src.llgr_comm; }
                                2 => { a.lp = src.lp; b.lp = src.lp; }
                                3 => { a.asp = src.asp; b.asp = src.asp; }
                                4 => { a.origin = src.origin; b.origin = src.origin; }
                                5 => { a.role = src.role; b.role = src.role; }
                                6 => { a.gr = src.gr; b.gr = src.gr; }
                                _ => { a.cluster = src.cluster; b.cluster = src.cluster; }
                            }
                        }
                        if rng.chance(1, 3) {
                            // later steps equal up to router-id: the ECMP / tie region
                            for j in k + 1..8 {
                                match j {
                                    1 => { b.llgr_src = a.llgr_src; b.llgr_comm = a.llgr_comm; }
                                    2 => b.lp = a.lp,
                                    3 => b.asp = a.asp,
                                    4 => b.origin = a.origin,
                                    5 => b.role = a.role,
                                    6 => b.gr = a.gr,
                                    _ => b.cluster = a.cluster,
                                }
                            }
                            if rng.bool() {
                                b.originator = a.originator;
                            }
                        }
                        set_step(&mut a, k, va);
                        set_step(&mut b, k, vb);
                        if a.rid == b.rid {
                            if k == 8 {
                                continue; // two peers never share a router-id
                            }
                            b.rid = 1 + (a.rid % 3);
                        }
                        a.nh = Some(0);
                        b.nh = Some(1);
                        let mut flats = vec![a, b];
                        let mut unreachable = vec![];
                        if rng.chance(1, 4) {
                            // bystander, possibly ineligible and at the head of the internal list
                            let mut c = random_flat(rng, false);
                            c.rid = 4;
                            c.nh = Some(2);
                            match rng.below(3) {
                                0 => c.filtered = true,
                                1 => unreachable.push(2),
                                _ => {}
                            }
                            flats.push(c);
                        }
                        let case = case_from_flats(fam, &flats, unreachable);
                        let n = flats.len();
                        let mut order: Vec<usize> = (0..n).collect();
                        for rev in [false, true] {
                            if rev {
                                order.swap(0, 1);
                                if n == 3 && rng.bool() {
                                    order.swap(1, 2);
                                }
                            }
                            let early = rng.below(8) as u32;
                            ctx.rep.count(&format!("matrix:{}", STEPS[k]));
                            let _ = run_case(ctx, &case, &order, early, false);
                        }
                    }
                }
            }
        }
    }
    ctx.rep.count(if complete { "matrix:complete-passes" } else { "matrix:cut-by-budget" });
}

// ---------------------------------------------------------------- (b) arrival orders

fn permutations(n: usize) -> Vec<Vec<usize>> {
    fn rec(cur: &mut Vec<usize>, used: &mut Vec<bool>, n: usize, out: &mut Vec<Vec<usize>>) {
        if cur.len() == n {
            out.push(cur.clone());
            return;
        }
        for i in 0..n {
            if !used[i] {
                used[i] = true;
                cur.push(i);
                rec(cur, used, n, out);
                cur.pop();
                used[i] = false;
            }
        }
    }
    let mut out = Vec::new();
    rec(&mut Vec::new(), &mut vec![false; n], n, &mut out);
    out
}

fn random_case(rng: &mut Rng, fam: usize, n: usize, long_ok: bool) -> Case {
    // collapse the domains further so several steps tie at once
    let narrow = rng.bool();
    let mut flats: Vec<Flat> = Vec::new();
    let mut peer_of: Vec<usize> = Vec::new();
    let mut peers: Vec<(PeerCfg, bool, bool)> = Vec::new();
    let mut paths = Vec::new();
    for i in 0..n {
        let mut f = random_flat(rng, long_ok);
        if narrow {
            f.lp = *rng.pick(&[None, Some(100)]);
            f.origin = rng.below(2) as u8;
            f.cluster = rng.below(2) as u8;
            if !long_ok {
                f.asp = *rng.pick(&[1usize, 2, 5, 6]);
            }
        }
        f.filtered = rng.chance(1, 8);
        let share = i > 0 && rng.chance(1, 5);
        if share {
            // add-path: a second path of the previous path's peer
            let p = peer_of[i - 1];
            peer_of.push(p);
            let pid = paths.iter().filter(|x: &&(usize, u32, Spec, bool, Option<u8>)| x.0 == p).count() as u32;
            paths.push((p, pid, spec_of(&f), f.filtered, f.nh));
        } else {
            f.rid = 1 + peers.len() as u32;
            peers.push((PeerCfg { role: f.role, rid: f.rid, local: false }, f.gr, f.llgr_src));
            peer_of.push(peers.len() - 1);
            paths.push((peers.len() - 1, 0, spec_of(&f), f.filtered, f.nh));
        }
        flats.push(f);
    }
    let unreachable = if rng.bool() { vec![2] } else { vec![] };
    Case { fam, peers, paths, unreachable }
}

fn history_free(ctx: &mut Ctx, case: &Case, evpn_resorted: bool, evpn_pos: bool, bests: &[(Vec<usize>, u32, Option<[i64; 9]>, Vec<String>)]) {
    let Some(first) = bests.first() else { return };
    for b in bests.iter().skip(1) {
        if b.2 != first.2 {
            let step = match (&first.2, &b.2) {
                (Some(x), Some(y)) => STEPS[first_diff(x, y).unwrap()].to_string(),
                _ => "no-best".to_string(),
            };
            ctx.rep.count("violated:history-free");
            let over255 = |k: &Option<[i64; 9]>| k.is_some_and(|k| k[S_ASPATH] > 255);
            let sig = if case.fam == EVPN && evpn_pos {
                "C02/history-free/evpn-mac-mobility-unread-behind-other-type6-community".to_string()
            } else if case.fam == EVPN && evpn_resorted {
                "C02/history-free/evpn-mac-mobility-lost-after-restale".to_string()
            } else if step == "as-path" && (over255(&first.2) || over255(&b.2)) {
                // a hop count that wraps to the other one's value ties with it, so arrival order decides
                "C02/history-free/as-path-hop-count-over-255".to_string()
            } else {
                format!("C02/history-free/{}", step)
            };
            ctx.rep.violation(
                &sig,
                &format!("two arrival / re-marking orders of the same path set give best paths that differ at step `{}`", step),
                Json::obj(vec![
                    ("family", Json::s(FAM_NAME[case.fam])),
                    ("order_1", Json::s(format!("{:?} early-marks={:#b} best-key={:?}", first.0, first.1, first.2))),
                    ("ops_1", jlist(&first.3)),
                    ("order_2", Json::s(format!("{:?} early-marks={:#b} best-key={:?}", b.0, b.1, b.2))),
                    ("ops_2", jlist(&b.3)),
                ]),
            );
            return;
        }
    }
    ctx.rep.count("held:history-free");
}

fn run_perms(ctx: &mut Ctx, rng: &mut Rng, sets: u64) {
    for i in 0..sets {
        if !ctx.rep.in_budget() {
            break;
        }
        let fam = if i % 3 == 2 { EVPN } else { V4 };
        let n = match rng.below(10) {
            0..=2 => 3,
            3..=6 => 4,
            7..=8 => 5,
            _ => rng.range(6, 8) as usize,
        };
        let long_ok = rng.chance(1, 10);
        let case = random_case(rng, fam, n, long_ok);
        let orders: Vec<Vec<usize>> = if n <= 5 {
            permutations(n)
        } else {
            (0..40).map(|_| {
                let mut o: Vec<usize> = (0..n).collect();
                rng.shuffle(&mut o);
                o
            }).collect()
        };
        ctx.rep.count(if n <= 5 { "perm:sets-all-orders" } else { "perm:sets-sampled-orders" });
        let mut bests = Vec::new();
        let mut evpn_resorted = false;
        let mut evpn_pos = false;
        for o in orders {
            let early = rng.below(1 << case.peers.len()) as u32;
            ctx.rep.count("perm:orders");
            match run_case(ctx, &case, &o, early, false) {
                Some((b, w)) => {
                    evpn_resorted |= w.resorted[EVPN] && w.mm_broken;
                    evpn_pos |= w.mm_pos_broken;
                    bests.push((o, early, b, w.log))
                }
                None => break,
            }
        }
        ctx.rep.eval();
        history_free(ctx, &case, evpn_resorted, evpn_pos, &bests);
    }
}

// ---------------------------------------------------------------- (c) histories

#[derive(Clone, Copy, PartialEq, Debug)]
enum Phase {
    Idle,
    Up,
    GrStale,
    LlgrStale,
}

fn random_spec(rng: &mut Rng, long_ok: bool) -> Spec {
    let f = random_flat(rng, long_ok);
    let mut s = spec_of(&f);
    s.no_llgr_comm = rng.chance(1, 10);
    if s.mm.is_some() && rng.chance(1, 30) {
        s.mm_dup = 2;
    }
    s
}

/// What a re-established session typically does first: announce again exactly what the
/// previous session had (same path ids, same attributes), before or after the End-of-RIB
/// purge of the still-stale entries.
fn reannounce_ops(rng: &mut Rng, w: &World, peer: usize, fam: usize, pending: &mut Option<Phase>, ops: &mut Vec<Op>) {
    if rng.chance(1, 3) {
        return;
    }
    let purge_first = rng.chance(1, 4);
    let purge = |pending: &mut Option<Phase>, ops: &mut Vec<Op>| {
        if let Some(ph) = pending.take() {
            ops.push(if ph == Phase::GrStale { Op::DropStale { peer, fam } } else { Op::DropLlgrStale { peer, fam } });
        }
    };
    if purge_first {
        purge(pending, ops);
    }
    let pids: Vec<u32> = w.last.keys().filter(|k| k.0 == peer && k.1 == fam).map(|k| k.2).collect();
    for path_id in pids {
        if rng.chance(4, 5) {
            ops.push(Op::Reannounce { peer, fam, path_id, same_arc: rng.bool() });
        }
    }
    if !purge_first && rng.chance(1, 3) {
        purge(pending, ops);
    }
}

fn run_histories(ctx: &mut Ctx, rng: &mut Rng, count: u64) {
    const NP: usize = 6; // 5 remote peers + the local source
    for _ in 0..count {
        if !ctx.rep.in_budget() {
            break;
        }
        let mut rids: Vec<u32> = vec![1, 2, 3, 4, 5];
        rng.shuffle(&mut rids);
        let mut peers: Vec<PeerCfg> = (0..5).map(|i| PeerCfg { role: *rng.pick(&ROLES), rid: rids[i], local: false }).collect();
        peers.push(PeerCfg { role: PeerRole::Ibgp, rid: 0, local: true });
        let mut w = World::new(peers);
        let mut phase = [[Phase::Idle; 2]; NP];
        let mut pending: [[Option<Phase>; 2]; NP] = [[None; 2]; NP];
        phase[NP - 1] = [Phase::Up, Phase::Up];
        let long_ok = rng.chance(1, 6);
        let evpn_share = rng.range(1, 4); // out of 8
        let steps = rng.range(15, 50);
        ctx.rep.count("histories");
        let mut alive = true;
        let mut n = 0;
        while n < steps && alive {
            n += 1;
            let fam = if rng.below(8) < evpn_share { EVPN } else { V4 };
            if rng.chance(1, 14) {
                let nh = rng.below(3) as u8;
                let reachable = w.unreachable.contains(&nh) || rng.chance(1, 4);
                alive = step(ctx, &mut w, Op::NhFlip { nh, reachable }, true).is_some();
                continue;
            }
            let peer = rng.usize(NP);
            let local = peer == NP - 1;
            let insert = |rng: &mut Rng| Op::Insert {
                peer,
                fam,
                path_id: *rng.pick(&[0u32, 0, 0, 1, 2]),
                spec: random_spec(rng, long_ok),
                filtered: rng.chance(1, 6),
                nh: if local && rng.bool() { None } else { Some(rng.below(3) as u8) },
            };
            let mut ops: Vec<Op> = Vec::new();
            match phase[peer][fam] {
                Phase::Idle => {
                    ops.push(insert(rng));
                    phase[peer][fam] = Phase::Up;
                }
                Phase::Up => {
                    let r = rng.below(100);
                    if !local && pending[peer][fam].is_some() && rng.chance(1, 4) {
                        // End-of-RIB of the re-established session: purge what is still stale
                        let ph = pending[peer][fam].take().unwrap();
                        ctx.rep.count("proto:eor-purge");
                        ops.push(if ph == Phase::GrStale { Op::DropStale { peer, fam } } else { Op::DropLlgrStale { peer, fam } });
                    } else if local || r < 55 {
                        ops.push(if local && r >= 75 { Op::Remove { peer, fam, path_id: *rng.pick(&[0u32, 0, 1, 2]) } } else { insert(rng) });
                    } else if r < 67 {
                        ops.push(Op::Remove { peer, fam, path_id: *rng.pick(&[0u32, 0, 1, 2]) });
                    } else if r < 79 {
                        ctx.rep.count("proto:gr-down");
                        ops.push(Op::Restale { peer, fam });
                        phase[peer][fam] = Phase::GrStale;
                    } else if r < 84 {
                        ctx.rep.count("proto:llgr-only-down");
                        ops.push(Op::RestaleLlgr { peer, fam });
                        ops.push(Op::DropNoLlgr { peer, fam });
                        phase[peer][fam] = Phase::LlgrStale;
                    } else if r < 90 {
                        ctx.rep.count("proto:hard-down");
                        ops.push(Op::Drop { peer, fam });
                        phase[peer][fam] = Phase::Idle;
                        pending[peer][fam] = None;
                    } else if let Some(ph) = pending[peer][fam].take() {
                        ctx.rep.count("proto:eor-purge");
                        ops.push(if ph == Phase::GrStale { Op::DropStale { peer, fam } } else { Op::DropLlgrStale { peer, fam } });
                    } else {
                        ops.push(insert(rng));
                    }
                }
                Phase::GrStale => {
                    if rng.bool() {
                        // the peer stays down for a while: somebody else acts
                        continue;
                    }
                    let r = rng.below(10);
                    if r < 4 {
                        ctx.rep.count("proto:reconnect-from-gr");
                        ops.push(Op::NewSession { peer, fam });
                        pending[peer][fam] = Some(Phase::GrStale);
                        phase[peer][fam] = Phase::Up;
                        reannounce_ops(rng, &w, peer, fam, &mut pending[peer][fam], &mut ops);
                    } else if r < 6 {
                        ctx.rep.count("proto:gr-expire-drop");
                        ops.push(Op::Drop { peer, fam });
                        phase[peer][fam] = Phase::Idle;
                        pending[peer][fam] = None;
                    } else {
                        ctx.rep.count("proto:gr-expire-llgr");
                        ops.push(Op::RestaleLlgr { peer, fam });
                        ops.push(Op::DropNoLlgr { peer, fam });
                        phase[peer][fam] = Phase::LlgrStale;
                    }
                }
                Phase::LlgrStale => {
                    if rng.bool() {
                        continue;
                    }
                    if rng.bool() {
                        ctx.rep.count("proto:reconnect-from-llgr");
                        ops.push(Op::NewSession { peer, fam });
                        pending[peer][fam] = Some(Phase::LlgrStale);
                        phase[peer][fam] = Phase::Up;
                        reannounce_ops(rng, &w, peer, fam, &mut pending[peer][fam], &mut ops);
                    } else {
                        ctx.rep.count("proto:llgr-expire");
                        ops.push(Op::DropLlgrStale { peer, fam });
                        phase[peer][fam] = Phase::Idle;
                        pending[peer][fam] = None;
                        w.sess[peer][fam] = None;
                    }
                }
            }
            for op in ops {
                if step(ctx, &mut w, op, true).is_none() {
                    alive = false;
                    break;
                }
            }
        }
        if alive {
            ctx.rep.count("histories-completed");
        }
    }
}

// ---------------------------------------------------------------- (d) tie histories
//
// Histories in which almost every path ties with the others on all steps but the last
// ones (CLUSTER_LIST length / ORIGINATOR_ID / router-id), with filtered and
// next-hop-invalid paths sitting mid-rank.  After every disturbance of the internal list
// (restale, restale_llgr, next-hop flip, replacement that toggles `filtered`) new tying
// paths are inserted and the current best is removed, so that an entry left at a wrong
// internal position (invisible while a better path hides it) becomes the reported best.
// Only the usual clauses are judged; the order of ineligible entries is never judged.
fn run_tie_histories(ctx: &mut Ctx, rng: &mut Rng, count: u64) {
    const NP: usize = 8;
    for _ in 0..count {
        if !ctx.rep.in_budget() {
            break;
        }
        ctx.rep.count("tie-histories");
        let mut rids: Vec<u32> = (1..=NP as u32).collect();
        rng.shuffle(&mut rids);
        let class: &[PeerRole] = match rng.below(3) {
            0 => &[PeerRole::RsClient],
            1 => &[PeerRole::Ebgp, PeerRole::RsClient],
            _ => &[PeerRole::Ibgp, PeerRole::IbgpRrClient, PeerRole::ConfedEbgp],
        };
        let peers: Vec<PeerCfg> = (0..NP).map(|i| PeerCfg { role: *rng.pick(class), rid: rids[i], local: false }).collect();
        let mut w = World::new(peers);
        let fam = if rng.chance(1, 4) { EVPN } else { V4 };
        let mut base = random_spec(rng, false);
        base.no_llgr_comm = false;
        if base.mm_dup == 2 {
            base.mm_dup = 1;
        }
        base.llgr_comm = rng.chance(1, 6);
        base.originator = None;
        base.cluster = 1 + rng.below(2) as u8;
        let tie_spec = |rng: &mut Rng| {
            let mut s = base;
            s.ec = rng.usize(EC_LAYOUTS.len()) as u8;
            s.sticky = rng.chance(1, 6);
            match rng.below(12) {
                0..=1 => s.cluster = base.cluster + 1,
                2 => s.cluster = base.cluster - 1,
                3 => s.originator = Some(rng.range(1, 9) as u32),
                4 => s.origin = (base.origin + 1) % 3, // an occasional non-tie
                5 => s.mm = Some(base.mm.unwrap_or(0) + 1), // (EVPN type-2: decided by MAC mobility)
                _ => {}
            }
            s
        };
        // Idle / Up / GrStale / LlgrStale per peer (one family per history)
        let mut phase = [Phase::Idle; NP];
        let mut pending: [Option<Phase>; NP] = [None; NP];
        if rng.bool() {
            let _ = step(ctx, &mut w, Op::NhFlip { nh: 2, reachable: false }, false);
        }
        let mut alive = true;
        macro_rules! go {
            ($op:expr) => {
                if alive && step(ctx, &mut w, $op, true).is_none() {
                    alive = false;
                }
            };
        }
        let tie_insert = |rng: &mut Rng, w: &World, phase: &mut [Phase; NP], prefer_new: bool| -> Option<Op> {
            let usable: Vec<usize> = (0..NP).filter(|&i| matches!(phase[i], Phase::Idle | Phase::Up)).collect();
            let fresh: Vec<usize> = usable.iter().copied().filter(|&i| !w.paths.iter().any(|p| p.fam == fam && p.peer == i)).collect();
            let peer = if prefer_new && !fresh.is_empty() { *rng.pick(&fresh) } else if !usable.is_empty() { *rng.pick(&usable) } else { return None };
            phase[peer] = Phase::Up;
            Some(Op::Insert {
                peer,
                fam,
                path_id: if rng.chance(1, 8) { 1 } else { 0 },
                spec: tie_spec(rng),
                filtered: rng.chance(1, 5),
                nh: Some(rng.below(3) as u8),
            })
        };
        for _ in 0..rng.range(3, 5) {
            if let Some(op) = tie_insert(rng, &w, &mut phase, true) {
                go!(op);
            }
        }
        let rounds = rng.range(3, 8);
        for _ in 0..rounds {
            if !alive {
                break;
            }
            // ---- one disturbance
            let with_path = |w: &World, ph: &[Phase; NP], want: &[Phase]| -> Vec<usize> {
                (0..NP).filter(|&i| want.contains(&ph[i]) && w.paths.iter().any(|p| p.fam == fam && p.peer == i)).collect()
            };
            match rng.below(100) {
                0..=29 => {
                    let c = with_path(&w, &phase, &[Phase::Up]);
                    if !c.is_empty() {
                        let peer = *rng.pick(&c);
                        ctx.rep.count("tie:disturb:restale");
                        phase[peer] = Phase::GrStale;
                        go!(Op::Restale { peer, fam });
                    }
                }
                30..=44 => {
                    let c = with_path(&w, &phase, &[Phase::Up, Phase::GrStale]);
                    if !c.is_empty() {
                        let peer = *rng.pick(&c);
                        ctx.rep.count("tie:disturb:restale_llgr");
                        phase[peer] = Phase::LlgrStale;
                        go!(Op::RestaleLlgr { peer, fam });
                        go!(Op::DropNoLlgr { peer, fam });
                    }
                }
                45..=56 => {
                    let nh = rng.below(3) as u8;
                    let reachable = w.unreachable.contains(&nh);
                    ctx.rep.count("tie:disturb:nexthop-flip");
                    go!(Op::NhFlip { nh, reachable });
                }
                57..=71 => {
                    // replacement that only toggles `filtered`
                    let c: Vec<MPath> = w.paths.iter().filter(|p| p.fam == fam && phase[p.peer] == Phase::Up).cloned().collect();
                    if !c.is_empty() {
                        let p = rng.pick(&c).clone();
                        ctx.rep.count("tie:disturb:filtered-replacement");
                        go!(Op::Insert { peer: p.peer, fam, path_id: p.path_id, spec: p.spec, filtered: !p.filtered, nh: p.nh });
                    }
                }
                _ => {
                    // a stale peer comes back (fresh Source), re-announces and sends End-of-RIB; or its timer expires
                    let c: Vec<usize> = (0..NP).filter(|&i| matches!(phase[i], Phase::GrStale | Phase::LlgrStale)).collect();
                    if !c.is_empty() {
                        let peer = *rng.pick(&c);
                        if rng.chance(7, 10) {
                            ctx.rep.count("tie:disturb:reconnect");
                            pending[peer] = Some(phase[peer]);
                            phase[peer] = Phase::Up;
                            go!(Op::NewSession { peer, fam });
                            if rng.chance(1, 4) {
                                // something new instead of the old announcement
                                go!(Op::Insert { peer, fam, path_id: 0, spec: tie_spec(rng), filtered: rng.chance(1, 5), nh: Some(rng.below(3) as u8) });
                                if rng.bool() {
                                    let ph = pending[peer].take().unwrap();
                                    go!(if ph == Phase::GrStale { Op::DropStale { peer, fam } } else { Op::DropLlgrStale { peer, fam } });
                                }
                            } else {
                                // exactly the old announcement again, before or after the End-of-RIB purge
                                let mut ops = Vec::new();
                                let mut pend = pending[peer];
                                reannounce_ops(rng, &w, peer, fam, &mut pend, &mut ops);
                                pending[peer] = pend;
                                for op in ops {
                                    go!(op);
                                }
                            }
                        } else {
                            ctx.rep.count("tie:disturb:stale-expiry");
                            let op = if phase[peer] == Phase::LlgrStale { Op::DropLlgrStale { peer, fam } } else { Op::Drop { peer, fam } };
                            phase[peer] = Phase::Idle;
                            pending[peer] = None;
                            go!(op);
                            w.sess[peer][fam] = None;
                        }
                    }
                }
            }
            if !alive || rng.chance(3, 20) {
                continue;
            }
            // ---- follow-up: tying inserts, then the best goes away (possibly twice)
            for _ in 0..rng.range(1, 2) {
                let prefer_new = rng.chance(3, 4);
                if let Some(op) = tie_insert(rng, &w, &mut phase, prefer_new) {
                    ctx.rep.count("tie:follow-up-insert");
                    go!(op);
                }
            }
            for _ in 0..rng.range(1, 2) {
                let best = w.paths.iter().filter(|p| p.fam == fam && p.eligible()).min_by_key(|p| ref_key(p)).cloned();
                let Some(b) = best else { break };
                ctx.rep.count("tie:remove-best");
                if phase[b.peer] == Phase::Up && !b.sess.gr.get() && !b.sess.llgr.get() {
                    go!(Op::Remove { peer: b.peer, fam, path_id: b.path_id });
                } else if phase[b.peer] == Phase::Up {
                    // a still-stale path of a re-established peer: purged by its End-of-RIB
                    pending[b.peer] = None;
                    go!(if b.sess.llgr.get() { Op::DropLlgrStale { peer: b.peer, fam } } else { Op::DropStale { peer: b.peer, fam } });
                } else {
                    // the best belongs to a peer that is down: its restart / LLGR timer expires
                    let op = if phase[b.peer] == Phase::LlgrStale { Op::DropLlgrStale { peer: b.peer, fam } } else { Op::Drop { peer: b.peer, fam } };
                    phase[b.peer] = Phase::Idle;
                    pending[b.peer] = None;
                    go!(op);
                    w.sess[b.peer][fam] = None;
                }
            }
        }
        if alive {
            ctx.rep.count("tie-histories-completed");
        }
    }
}

fn main() {
    let params = Params::from_args_env();
    let rule = "case = one judged state of one prefix (after one op of a history / at the end of one arrival order); non-trivial = at least two eligible (unfiltered, next-hop-valid) paths compete; distinct by hash of (family, paths in arrival order with all decision-relevant attributes and marks)";
    let mut rep = Report::new("C02", &params);
    rep.extra("rule", Json::s(rule));
    rep.max_samples = 3;
    let release = !cfg!(debug_assertions);
    rep.count(if release { "profile:release" } else { "profile:debug" });
    let mut ctx = Ctx { rep };
    let mut rng = Rng::new(params.seed ^ 0xC02_C02);
    let part = params.get("part").unwrap_or("all").to_string();
    if part == "all" || part == "matrix" {
        run_matrix(&mut ctx, &mut rng.fork(), params.n(6, 600));
        ctx.rep.exhaustive = Some(false);
    }
    if part == "all" || part == "perm" {
        run_perms(&mut ctx, &mut rng.fork(), params.n(700, 20_000));
    }
    if part == "all" || part == "history" {
        run_histories(&mut ctx, &mut rng.fork(), params.n(3_000, 50_000));
    }
    if part == "all" || part == "history" || part == "tie" {
        run_tie_histories(&mut ctx, &mut rng.fork(), params.n(3_000, 50_000));
    }
    if ctx.rep.evaluations < 200 && params.scale >= 1.0 {
        ctx.rep.inconclusive("fewer than 200 evaluations");
    }
    std::process::exit(ctx.rep.finish());
}
