//! C19 — every emitted BMP / MRT record is well-formed and carries the intended
//! BGP data (packet-level half, engine E1).
//!
//! Workload: generated monitoring events pushed through the real `BmpCodec`,
//! `MrtCodec` and `encode_table_dump`.  Oracle: independent structural readers
//! written from RFC 7854 / 8671 / 9069 and RFC 6396 / 8050 (this file); the
//! embedded BGP PDUs are then parsed with the repository's own `PeerCodec`
//! (configured with the add-path / AS-size setting the record states) and must
//! give back the monitored prefixes, attributes and next hop.
//!
//! Scoping: an event is only judged when a plain BGP session codec of the
//! repository can carry it faithfully (reference round trip through
//! `PeerCodec::encode_to` / `parse_message`); asymmetries of the BGP codec
//! itself belong to C04 and are counted as `unjudged:*`.
use bytes::BytesMut;
use rbgp_verif::common::*;
use rustybgp_packet::bgp::{
    self, Attribute, Capability, Family, FamilyState, HoldTime, Ipv4Net, Ipv6Net, Nexthop, Nlri,
    Notification, Open, ParsedMessage, ParsedUpdate, PathNlri, PeerCodec, Update,
};
use rustybgp_packet::rd::RouteDistinguisher;
use rustybgp_packet::{bmp, evpn, flowspec, labeled, ls, mpls, mrt, mup, rtc, sr_policy, vpn};
use std::collections::{BTreeSet, HashMap};
use std::net::{IpAddr, Ipv4Addr, Ipv6Addr};
use std::sync::Arc;
use tokio_util::codec::Encoder;

// ------------------------------------------------------------------ families

const FAMILIES: &[(Family, &str)] = &[
    (Family::IPV4, "ipv4"),
    (Family::IPV6, "ipv6"),
    (Family::IPV4_MC, "ipv4-mc"),
    (Family::IPV6_MC, "ipv6-mc"),
    (Family::IPV4_MPLS, "ipv4-mpls"),
    (Family::IPV6_MPLS, "ipv6-mpls"),
    (Family::IPV4_VPN, "ipv4-vpn"),
    (Family::IPV6_VPN, "ipv6-vpn"),
    (Family::RTC, "rtc"),
    (Family::L2VPN_EVPN, "evpn"),
    (Family::IPV4_FLOWSPEC, "ipv4-flowspec"),
    (Family::IPV6_FLOWSPEC, "ipv6-flowspec"),
    (Family::IPV4_FLOWSPEC_VPN, "ipv4-flowspec-vpn"),
    (Family::IPV6_FLOWSPEC_VPN, "ipv6-flowspec-vpn"),
    (Family::IPV4_SRPOLICY, "ipv4-srpolicy"),
    (Family::IPV6_SRPOLICY, "ipv6-srpolicy"),
    (Family::IPV4_MUP, "ipv4-mup"),
    (Family::IPV6_MUP, "ipv6-mup"),
    (Family::LS, "ls"),
];

fn fam_name(f: Family) -> &'static str {
    FAMILIES.iter().find(|(g, _)| *g == f).map(|(_, n)| *n).unwrap_or("other")
}

fn is_flowspec(f: Family) -> bool {
    f == Family::IPV4_FLOWSPEC
        || f == Family::IPV6_FLOWSPEC
        || f == Family::IPV4_FLOWSPEC_VPN
        || f == Family::IPV6_FLOWSPEC_VPN
}

// ------------------------------------------------------------------ event model

#[derive(Clone, Copy, PartialEq, Eq, Debug)]
enum Kind {
    Reach,
    Unreach,
    Eor,
}

/// One monitored routing event (what the daemon puts into a RouteMonitoring /
/// BGP4MP record).
#[derive(Clone)]
struct Ev {
    family: Family,
    kind: Kind,
    entries: Vec<PathNlri>,
    nexthop: Option<Nexthop>,
    attrs: Arc<Vec<Attribute>>,
    addpath: bool,
}

impl Ev {
    fn msg(&self) -> bgp::Message {
        match self.kind {
            Kind::Reach => bgp::Message::Update(Update::Reach {
                family: self.family,
                entries: self.entries.clone(),
                nexthop: self.nexthop,
                attr: self.attrs.clone(),
            }),
            Kind::Unreach => bgp::Message::Update(Update::Unreach {
                family: self.family,
                entries: self.entries.clone(),
            }),
            Kind::Eor => bgp::Message::Update(Update::EndOfRib(self.family)),
        }
    }
    fn attr_bytes(&self) -> usize {
        self.attrs.iter().map(|a| a.encode_to_bytes().len()).sum()
    }
    fn v6_nexthop(&self) -> bool {
        matches!(self.nexthop, Some(Nexthop::V6(_)) | Some(Nexthop::V6LinkLocal(_, _)))
    }
    /// coarse class of the event for signatures (no values), chosen per clause so
    /// that one root cause keeps one signature
    fn shape_for(&self, clause: &str) -> &'static str {
        let reach = self.kind == Kind::Reach;
        if reach && clause.starts_with("nexthop") && self.family == Family::IPV4 && self.v6_nexthop() {
            "ipv4-unicast-v6-nexthop"
        } else if reach && (clause.starts_with("nlri-lost") || clause.starts_with("pdu-without-nlri")) && self.attr_bytes() > 4000 {
            "attrs-exceed-4096-frame"
        } else {
            self.shape()
        }
    }
    fn shape(&self) -> &'static str {
        if self.family == Family::IPV4 {
            "ipv4-unicast"
        } else if self.family == Family::IPV6 {
            "ipv6-unicast"
        } else {
            "mp-family"
        }
    }
}

fn attr_canon(a: &Attribute) -> String {
    // content, not representation: code, the flag bits that matter, value
    let v = match a.value() {
        Some(v) => format!("v{}", v),
        None => hex(a.binary().map(|b| b.as_slice()).unwrap_or(&[])),
    };
    format!("{}/{:02x}/{}", a.code(), a.flags() & 0xE0, v)
}

fn attrs_canon(attrs: &[Attribute]) -> String {
    let mut v: Vec<String> = attrs.iter().map(attr_canon).collect();
    v.sort();
    v.join(",")
}

fn nh_str(n: &Option<Nexthop>) -> String {
    match n {
        None => "none".into(),
        Some(n) => format!("{:?}", n),
    }
}

fn short(s: &str, n: usize) -> String {
    if s.len() <= n {
        s.to_string()
    } else {
        format!("{}…({} chars)", &s[..n], s.len())
    }
}

fn ev_json(ev: &Ev) -> Json {
    Json::obj(vec![
        ("family", Json::s(fam_name(ev.family))),
        ("kind", Json::s(format!("{:?}", ev.kind))),
        ("addpath", Json::Bool(ev.addpath)),
        ("n_entries", Json::Int(ev.entries.len() as i128)),
        (
            "entries_first",
            Json::strs(ev.entries.iter().take(6).map(|e| format!("{}#{}", e.nlri, e.path_id))),
        ),
        ("nexthop", Json::s(nh_str(&ev.nexthop))),
        (
            "attrs",
            Json::strs(ev.attrs.iter().map(|a| short(&attr_canon(a), 100))),
        ),
        ("attr_bytes", Json::Int(ev.attr_bytes() as i128)),
    ])
}

// ------------------------------------------------------------------ generators

fn rand_v4(rng: &mut Rng) -> Ipv4Addr {
    Ipv4Addr::new(rng.range(1, 223) as u8, rng.next_u32() as u8, rng.next_u32() as u8, rng.range(1, 254) as u8)
}

fn rand_v6(rng: &mut Rng) -> Ipv6Addr {
    let lo = rng.next_u64();
    let mid = rng.next_u32() as u128;
    Ipv6Addr::from((0x2001_0db8u128 << 96) | (mid << 64) | lo as u128)
}

/// `unit` * (lo..=hi) random bytes (for igp ids: lo or hi when unit == 2)
fn rbytes(rng: &mut Rng, lo: u64, hi: u64, unit: usize) -> Vec<u8> {
    if unit == 2 {
        let n = if rng.bool() { lo } else { hi } as usize;
        return rng.bytes(n);
    }
    let n = rng.range(lo, hi) as usize * unit;
    rng.bytes(n)
}

fn rand_ll(rng: &mut Rng) -> Ipv6Addr {
    Ipv6Addr::from((0xfe80u128 << 112) | rng.next_u64() as u128 | 1)
}

fn v4net(rng: &mut Rng) -> Ipv4Net {
    let mask = if rng.chance(1, 10) { rng.range(0, 32) as u8 } else { rng.range(8, 32) as u8 };
    let a = rng.next_u32();
    let m = if mask == 0 { 0 } else { a & (u32::MAX << (32 - mask as u32)) };
    Ipv4Net { addr: Ipv4Addr::from(m), mask }
}

fn v6net(rng: &mut Rng) -> Ipv6Net {
    let mask = if rng.chance(1, 10) { rng.range(0, 128) as u8 } else { rng.range(16, 64) as u8 };
    let a = ((rng.next_u64() as u128) << 64) | rng.next_u64() as u128;
    let m = if mask == 0 { 0 } else { a & (u128::MAX << (128 - mask as u32)) };
    Ipv6Net { addr: Ipv6Addr::from(m), mask }
}

fn rand_rd(rng: &mut Rng) -> RouteDistinguisher {
    match rng.below(3) {
        0 => RouteDistinguisher::TwoOctetAs { admin: rng.next_u32() as u16, assigned: rng.next_u32() },
        1 => RouteDistinguisher::Ipv4 { admin: rand_v4(rng), assigned: rng.next_u32() as u16 },
        _ => RouteDistinguisher::FourOctetAs { admin: rng.next_u32(), assigned: rng.next_u32() as u16 },
    }
}

fn labels(rng: &mut Rng, reach: bool, labeled_unicast: bool) -> mpls::MplsLabelStack {
    if !reach && labeled_unicast {
        // what the parser produces for a withdraw of a labeled prefix
        return mpls::MplsLabelStack::new(vec![mpls::MplsLabel::new(0)]);
    }
    let n = if rng.chance(1, 6) { 2 } else { 1 };
    mpls::MplsLabelStack::new((0..n).map(|_| mpls::MplsLabel::new(rng.range(16, 0xFFFFF) as u32)).collect())
}

fn fs_ops(rng: &mut Rng) -> Vec<flowspec::Op> {
    let n = rng.range(1, 3) as usize;
    (0..n)
        .map(|i| flowspec::Op {
            bits: flowspec::Op::EQ | if i + 1 == n { flowspec::Op::END } else { 0 },
            value: match rng.below(3) {
                0 => rng.below(256),
                1 => rng.below(65536),
                _ => rng.below(1 << 20),
            },
        })
        .collect()
}

fn fs_v4(rng: &mut Rng) -> Vec<flowspec::FlowspecV4Component> {
    let mut c = vec![flowspec::FlowspecV4Component::DstPrefix(v4net(rng))];
    if rng.bool() {
        c.push(flowspec::FlowspecV4Component::SrcPrefix(v4net(rng)));
    }
    if rng.bool() {
        c.push(flowspec::FlowspecV4Component::Protocol(fs_ops(rng)));
    }
    if rng.bool() {
        c.push(flowspec::FlowspecV4Component::DstPort(fs_ops(rng)));
    }
    c
}

fn fs_v6(rng: &mut Rng) -> Vec<flowspec::FlowspecV6Component> {
    let mut c = vec![flowspec::FlowspecV6Component::DstPrefix { prefix: v6net(rng), offset: 0 }];
    if rng.bool() {
        c.push(flowspec::FlowspecV6Component::NextHeader(fs_ops(rng)));
    }
    if rng.bool() {
        c.push(flowspec::FlowspecV6Component::DstPort(fs_ops(rng)));
    }
    c
}

fn gen_nlri(rng: &mut Rng, f: Family, reach: bool) -> Nlri {
    if f == Family::IPV4 || f == Family::IPV4_MC {
        Nlri::V4(v4net(rng))
    } else if f == Family::IPV6 || f == Family::IPV6_MC {
        Nlri::V6(v6net(rng))
    } else if f == Family::IPV4_MPLS {
        Nlri::LabeledV4(labeled::LabeledV4Nlri { labels: labels(rng, reach, true), prefix: v4net(rng) })
    } else if f == Family::IPV6_MPLS {
        Nlri::LabeledV6(labeled::LabeledV6Nlri { labels: labels(rng, reach, true), prefix: v6net(rng) })
    } else if f == Family::IPV4_VPN {
        Nlri::VpnV4(vpn::VpnV4Nlri { labels: labels(rng, reach, false), rd: rand_rd(rng), prefix: v4net(rng) })
    } else if f == Family::IPV6_VPN {
        Nlri::VpnV6(vpn::VpnV6Nlri { labels: labels(rng, reach, false), rd: rand_rd(rng), prefix: v6net(rng) })
    } else if f == Family::RTC {
        Nlri::Rtc(rtc::RtcNlri {
            match_type: match rng.below(3) {
                0 => rtc::MatchType::Wildcard,
                1 => rtc::MatchType::AsWildcard { origin_as: rng.next_u32() },
                _ => {
                    let mut rt = [0u8; 8];
                    rt.copy_from_slice(&rng.bytes(8));
                    rt[0] = 0;
                    rt[1] = 2;
                    rtc::MatchType::ExactMatch { origin_as: rng.next_u32(), route_target: rt }
                }
            },
        })
    } else if f == Family::L2VPN_EVPN {
        let mut esi = [0u8; 10];
        if rng.bool() {
            esi.copy_from_slice(&rng.bytes(10));
        }
        match rng.below(3) {
            0 => {
                let mut mac = [0u8; 6];
                mac.copy_from_slice(&rng.bytes(6));
                Nlri::Evpn(evpn::EvpnNlri::MacIpAdvertisement(evpn::MacIpAdvertisement {
                    rd: rand_rd(rng),
                    esi: evpn::Esi(esi),
                    etag: rng.next_u32(),
                    mac,
                    ip: match rng.below(3) {
                        0 => None,
                        1 => Some(IpAddr::V4(rand_v4(rng))),
                        _ => Some(IpAddr::V6(rand_v6(rng))),
                    },
                    label1: rng.below(1 << 24) as u32,
                    label2: if rng.chance(1, 4) { Some(rng.below(1 << 24) as u32) } else { None },
                }))
            }
            1 => Nlri::Evpn(evpn::EvpnNlri::InclusiveMulticastEthernetTag(evpn::InclusiveMulticastEthernetTag {
                rd: rand_rd(rng),
                etag: rng.next_u32(),
                originating_router_ip: if rng.bool() { IpAddr::V4(rand_v4(rng)) } else { IpAddr::V6(rand_v6(rng)) },
            })),
            _ => {
                let v6 = rng.bool();
                let (p, l, g) = if v6 {
                    let n = v6net(rng);
                    (IpAddr::V6(n.addr), n.mask, IpAddr::V6(Ipv6Addr::UNSPECIFIED))
                } else {
                    let n = v4net(rng);
                    (IpAddr::V4(n.addr), n.mask, IpAddr::V4(Ipv4Addr::UNSPECIFIED))
                };
                Nlri::Evpn(evpn::EvpnNlri::EthernetIpPrefix(evpn::EthernetIpPrefixRoute {
                    rd: rand_rd(rng),
                    esi: evpn::Esi(esi),
                    etag: rng.next_u32(),
                    ip_prefix: p,
                    prefix_len: l,
                    gateway_ip: g,
                    label: rng.below(1 << 24) as u32,
                }))
            }
        }
    } else if f == Family::IPV4_FLOWSPEC {
        Nlri::FlowspecV4(flowspec::FlowspecV4Nlri { components: fs_v4(rng) })
    } else if f == Family::IPV6_FLOWSPEC {
        Nlri::FlowspecV6(flowspec::FlowspecV6Nlri { components: fs_v6(rng) })
    } else if f == Family::IPV4_FLOWSPEC_VPN {
        Nlri::FlowspecVpnV4(flowspec::FlowspecVpnV4Nlri { rd: rand_rd(rng), components: fs_v4(rng) })
    } else if f == Family::IPV6_FLOWSPEC_VPN {
        Nlri::FlowspecVpnV6(flowspec::FlowspecVpnV6Nlri { rd: rand_rd(rng), components: fs_v6(rng) })
    } else if f == Family::IPV4_SRPOLICY {
        Nlri::SrPolicy(sr_policy::SrPolicyNlri { distinguisher: rng.next_u32(), color: rng.next_u32(), endpoint: IpAddr::V4(rand_v4(rng)) })
    } else if f == Family::IPV6_SRPOLICY {
        Nlri::SrPolicy(sr_policy::SrPolicyNlri { distinguisher: rng.next_u32(), color: rng.next_u32(), endpoint: IpAddr::V6(rand_v6(rng)) })
    } else if f == Family::IPV4_MUP || f == Family::IPV6_MUP {
        let v6 = f == Family::IPV6_MUP;
        if rng.bool() {
            let (a, l) = if v6 {
                let n = v6net(rng);
                (IpAddr::V6(n.addr), n.mask)
            } else {
                let n = v4net(rng);
                (IpAddr::V4(n.addr), n.mask)
            };
            Nlri::Mup(mup::MupNlri::InterworkSegmentDiscovery(mup::MupInterworkSegmentDiscoveryRoute { rd: rand_rd(rng), prefix_addr: a, prefix_len: l }))
        } else {
            let a = if v6 { IpAddr::V6(rand_v6(rng)) } else { IpAddr::V4(rand_v4(rng)) };
            Nlri::Mup(mup::MupNlri::DirectSegmentDiscovery(mup::MupDirectSegmentDiscoveryRoute { rd: rand_rd(rng), address: a }))
        }
    } else {
        // BGP-LS node NLRI
        Nlri::Ls(ls::BgpLsNlri::Node(ls::BgpLsNodeNlri {
            protocol_id: rng.range(1, 6) as u8,
            identifier: rng.next_u64(),
            local_node: ls::NodeDescriptor {
                asn: Some(rng.next_u32()),
                bgp_ls_id: if rng.bool() { Some(rng.next_u32()) } else { None },
                ospf_area_id: None,
                igp_router_id: Some(rbytes(rng, 4, 6, 2)),
                bgp_router_id: None,
                bgp_confederation_member: None,
            },
        }))
    }
}

#[derive(Clone, Copy, PartialEq, Eq)]
enum AttrSize {
    Normal,
    /// one attribute needs the extended-length flag (> 255 bytes)
    Extended,
    /// attributes alone exceed a 4096-byte frame (legal with RFC 8654 extended messages)
    Huge,
}

fn gen_as_path(rng: &mut Rng, small_as: bool) -> Attribute {
    let nseg = match rng.below(10) {
        0 => 0,
        1..=6 => 1,
        7..=8 => 2,
        _ => 3,
    };
    let mut b = Vec::new();
    for _ in 0..nseg {
        let t = if small_as {
            if rng.chance(1, 5) { 1 } else { 2 }
        } else {
            match rng.below(12) {
                0 => 1,
                1 => 3,
                2 => 4,
                _ => 2,
            }
        };
        let n = rng.range(1, 8) as usize;
        b.push(t);
        b.push(n as u8);
        for _ in 0..n {
            let asn: u32 = if small_as || rng.bool() { rng.range(1, 65534) as u32 } else { rng.range(65536, 4_200_000_000) as u32 };
            b.extend_from_slice(&asn.to_be_bytes());
        }
    }
    Attribute::new_with_bin(Attribute::AS_PATH, b).unwrap()
}

fn gen_attrs(rng: &mut Rng, size: AttrSize, small_as: bool) -> Vec<Attribute> {
    let mut v = vec![
        Attribute::new_with_value(Attribute::ORIGIN, rng.below(3) as u32).unwrap(),
        gen_as_path(rng, small_as),
    ];
    if rng.chance(1, 2) {
        v.push(Attribute::new_with_value(Attribute::MULTI_EXIT_DESC, rng.next_u32()).unwrap());
    }
    if rng.chance(1, 2) {
        v.push(Attribute::new_with_value(Attribute::LOCAL_PREF, rng.next_u32()).unwrap());
    }
    if rng.chance(1, 8) {
        v.push(Attribute::new_with_bin(Attribute::ATOMIC_AGGREGATE, vec![]).unwrap());
    }
    if rng.chance(1, 6) {
        let asn: u32 = if small_as || rng.bool() { rng.range(1, 65534) as u32 } else { rng.next_u32() | 0x10000 };
        let mut b = asn.to_be_bytes().to_vec();
        b.extend_from_slice(&rand_v4(rng).octets());
        v.push(Attribute::new_with_bin(Attribute::AGGREGATOR, b).unwrap());
    }
    let ncomm = match size {
        AttrSize::Normal => {
            if rng.chance(1, 2) { rng.range(1, 12) as usize } else { 0 }
        }
        AttrSize::Extended => rng.range(70, 300) as usize,
        AttrSize::Huge => rng.range(1050, 2500) as usize,
    };
    if ncomm > 0 {
        v.push(Attribute::new_with_bin(Attribute::COMMUNITY, rng.bytes(4 * ncomm)).unwrap());
    }
    if rng.chance(1, 8) {
        v.push(Attribute::new_with_value(Attribute::ORIGINATOR_ID, rng.next_u32()).unwrap());
        v.push(Attribute::new_with_bin(Attribute::CLUSTER_LIST, rbytes(rng, 1, 4, 4)).unwrap());
    }
    if rng.chance(1, 4) {
        v.push(Attribute::new_with_bin(Attribute::EXTENDED_COMMUNITY, rbytes(rng, 1, 6, 8)).unwrap());
    }
    if rng.chance(1, 5) {
        v.push(Attribute::new_with_bin(Attribute::LARGE_COMMUNITY, rbytes(rng, 1, 5, 12)).unwrap());
    }
    if rng.chance(1, 12) {
        let mut b = vec![1u8, 0, 11];
        b.extend_from_slice(&rng.bytes(8));
        v.push(Attribute::new_with_bin(Attribute::AIGP, b).unwrap());
    }
    if rng.chance(1, 16) {
        let code = *rng.pick(&[Attribute::PREFIX_SID, Attribute::LS, Attribute::TUNNEL_ENCAP]);
        v.push(Attribute::new_with_bin(code, rbytes(rng, 4, 40, 1)).unwrap());
    }
    if rng.chance(1, 8) {
        // unknown optional transitive attribute kept as an opaque blob
        let code = rng.range(100, 250) as u8;
        let flags = if rng.bool() { 0xC0 } else { 0xE0 };
        let n = if rng.chance(1, 5) { rng.range(256, 400) } else { rng.range(0, 40) } as usize;
        v.push(Attribute::new_opaque(code, flags, rng.bytes(n)));
    }
    if rng.chance(1, 10) {
        rng.shuffle(&mut v);
    }
    v
}

fn gen_nexthop(rng: &mut Rng, f: Family) -> Option<Nexthop> {
    if is_flowspec(f) {
        return None;
    }
    let afi = f.afi();
    if (f == Family::IPV4_MPLS || f == Family::IPV4_MUP || f == Family::RTC || f == Family::LS) && rng.chance(4, 5) {
        return Some(Nexthop::V6(rand_v6(rng)));
    }
    if afi == Family::AFI_IP {
        if rng.chance(1, 6) {
            if rng.bool() { Some(Nexthop::V6(rand_v6(rng))) } else { Some(Nexthop::V6LinkLocal(rand_v6(rng), rand_ll(rng))) }
        } else {
            Some(Nexthop::V4(rand_v4(rng)))
        }
    } else if afi == Family::AFI_IP6 {
        match rng.below(20) {
            0 => Some(Nexthop::V4(rand_v4(rng))),
            1..=5 => Some(Nexthop::V6LinkLocal(rand_v6(rng), rand_ll(rng))),
            _ => Some(Nexthop::V6(rand_v6(rng))),
        }
    } else if rng.bool() {
        Some(Nexthop::V4(rand_v4(rng)))
    } else {
        Some(Nexthop::V6(rand_v6(rng)))
    }
}

fn pick_family(rng: &mut Rng) -> Family {
    match rng.below(20) {
        0..=5 => Family::IPV4,
        6..=10 => Family::IPV6,
        _ => FAMILIES[rng.usize(FAMILIES.len())].0,
    }
}

/// `small_as`: only AS numbers that fit two octets (for 2-byte-AS MRT subtypes)
fn gen_ev(rng: &mut Rng, small_as: bool, allow_many: bool) -> Ev {
    let family = pick_family(rng);
    let kind = match rng.below(20) {
        0..=11 => Kind::Reach,
        12..=16 => Kind::Unreach,
        _ => Kind::Eor,
    };
    let addpath = rng.chance(7, 20);
    let reach = kind == Kind::Reach;
    let size = if !reach {
        AttrSize::Normal
    } else {
        match rng.below(40) {
            0 => AttrSize::Huge,
            1..=4 => AttrSize::Extended,
            _ => AttrSize::Normal,
        }
    };
    let mut entries = Vec::new();
    if kind != Kind::Eor {
        let first = gen_nlri(rng, family, reach);
        let unit = first.encode_to_bytes().len().max(1) + if addpath { 4 } else { 0 };
        let n = match rng.below(20) {
            0..=7 => 1,
            8..=14 => rng.range(2, 8) as usize,
            15..=17 => rng.range(20, 300) as usize,
            _ => {
                if allow_many {
                    if rng.chance(1, 10) {
                        // more than fit in one 65535-byte (RFC 8654) frame
                        (rng.range(70_000, 150_000) as usize / unit).max(2)
                    } else {
                        // more than fit in one 4096-byte frame: 1.1 .. 3.5 frames worth
                        (rng.range(4500, 14000) as usize / unit).max(2)
                    }
                } else {
                    rng.range(2, 40) as usize
                }
            }
        };
        entries.push(PathNlri { path_id: if addpath { rng.next_u32() | 1 } else { 0 }, nlri: first });
        for _ in 1..n {
            entries.push(PathNlri { path_id: if addpath { rng.next_u32() | 1 } else { 0 }, nlri: gen_nlri(rng, family, reach) });
        }
    }
    let nexthop = if reach { gen_nexthop(rng, family) } else { None };
    let attrs = if reach { gen_attrs(rng, size, small_as) } else { Vec::new() };
    Ev { family, kind, entries, nexthop, attrs: Arc::new(attrs), addpath }
}

// ------------------------------------------------------------------ embedded PDUs: framing (independent) + the repo's own parser

/// Independent BGP framing per RFC 4271 §4.1: 16×0xFF marker, 2-byte length
/// (19..), type.  Returns the well-framed PDUs and, if the buffer is not
/// exactly a sequence of PDUs, where and why framing stopped.
fn split_pdus(b: &[u8]) -> (Vec<&[u8]>, Option<(usize, &'static str)>) {
    let mut out = Vec::new();
    let mut o = 0usize;
    while o < b.len() {
        if b.len() - o < 19 {
            return (out, Some((o, "short-header")));
        }
        if b[o..o + 16].iter().any(|x| *x != 0xff) {
            return (out, Some((o, "bad-marker")));
        }
        let l = u16::from_be_bytes([b[o + 16], b[o + 17]]) as usize;
        if l < 19 {
            return (out, Some((o, "bad-length")));
        }
        if o + l > b.len() {
            return (out, Some((o, "overrun")));
        }
        out.push(&b[o..o + l]);
        o += l;
    }
    (out, None)
}

struct Parsers {
    // [addpath][two_byte_as]
    p: Vec<PeerCodec>,
}

impl Parsers {
    fn new() -> Parsers {
        let mut p = Vec::new();
        for addpath in [false, true] {
            for two in [false, true] {
                let mut c = PeerCodec::new();
                c.two_byte_as = two;
                c.extended_length = true;
                for (f, _) in FAMILIES {
                    c.set_family(*f, FamilyState { addpath_rx: addpath, addpath_tx: addpath });
                }
                p.push(c);
            }
        }
        Parsers { p }
    }
    fn get(&mut self, addpath: bool, two_byte: bool) -> &mut PeerCodec {
        &mut self.p[(addpath as usize) * 2 + two_byte as usize]
    }
    /// parse one PDU with the repository's parser; Err(clause, detail)
    fn parse(&mut self, pdu: &[u8], addpath: bool, two_byte: bool) -> Result<ParsedMessage, (String, String)> {
        let c = self.get(addpath, two_byte);
        match guard(|| c.parse_message(pdu)) {
            Ok(Ok(m)) => Ok(m),
            Ok(Err(n)) => Err(("pdu-unparsable".into(), format!("repo parser rejects the embedded PDU: {:?}", n))),
            Err(p) => Err((format!("panic/{}:{}", p.location, panic_class(&p.message)), format!("repo parser panicked on the embedded PDU: {}", p.message))),
        }
    }
}

#[derive(Default)]
struct Decoded {
    pdus: usize,
    eor: Vec<Family>,
    reach: Vec<(Family, PathNlri)>,
    unreach: Vec<(Family, PathNlri)>,
    ctx: BTreeSet<(String, String)>,
    attr_only: usize,
    error_attrs: Vec<u8>,
    other: usize,
}

impl Decoded {
    fn absorb(&mut self, m: ParsedMessage) {
        self.pdus += 1;
        match m {
            ParsedMessage::Update(ParsedUpdate::EndOfRib(f)) => self.eor.push(f),
            ParsedMessage::Update(ParsedUpdate::Routes { reach, mp_reach, unreach, mp_unreach, attrs, error_attrs }) => {
                let canon = attrs_canon(&attrs);
                let mut any = false;
                for r in reach.into_iter().chain(mp_reach) {
                    any = true;
                    self.ctx.insert((canon.clone(), nh_str(&r.nexthop)));
                    for e in r.entries {
                        self.reach.push((r.family, e));
                    }
                }
                for u in unreach.into_iter().chain(mp_unreach) {
                    any = true;
                    for e in u.entries {
                        self.unreach.push((u.family, e));
                    }
                }
                if !any {
                    self.attr_only += 1;
                }
                for e in error_attrs {
                    self.error_attrs.push(e.attr_code);
                }
            }
            _ => self.other += 1,
        }
    }
}

fn multiset_diff(want: &[(Family, PathNlri)], got: &[(Family, PathNlri)]) -> (Vec<(Family, PathNlri)>, Vec<(Family, PathNlri)>) {
    let mut m: HashMap<(Family, &PathNlri), i64> = HashMap::new();
    for (f, e) in want {
        *m.entry((*f, e)).or_insert(0) += 1;
    }
    for (f, e) in got {
        *m.entry((*f, e)).or_insert(0) -= 1;
    }
    let mut missing = Vec::new();
    let mut extra = Vec::new();
    for ((f, e), n) in m {
        if n > 0 {
            missing.push((f, e.clone()));
        } else if n < 0 {
            extra.push((f, e.clone()));
        }
    }
    (missing, extra)
}

fn show_entries(v: &[(Family, PathNlri)]) -> String {
    let mut s: Vec<String> = v.iter().take(5).map(|(f, e)| format!("{}:{}#{}", fam_name(*f), e.nlri, e.path_id)).collect();
    s.sort();
    format!("{} entr{} e.g. [{}]", v.len(), if v.len() == 1 { "y" } else { "ies" }, s.join(", "))
}

/// Does what was parsed back equal what was monitored?  Err(clause, detail).
fn compare(ev: &Ev, d: &Decoded) -> Result<(), (String, String)> {
    if d.other > 0 {
        return Err(("pdu-type".into(), format!("{} embedded PDUs are not UPDATEs", d.other)));
    }
    if !d.error_attrs.is_empty() {
        let clause = if d.error_attrs.contains(&Attribute::NEXTHOP) { "nexthop-missing" } else { "pdu-attr-error" };
        return Err((clause.into(), format!("repo parser flags attribute errors for codes {:?}; monitored next hop {}", d.error_attrs, nh_str(&ev.nexthop))));
    }
    match ev.kind {
        Kind::Eor => {
            if d.eor.len() != 1 || d.eor[0] != ev.family || !d.reach.is_empty() || !d.unreach.is_empty() || d.attr_only > 0 {
                return Err(("eor-differs".into(), format!("expected one End-of-RIB for {}, parsed eor={:?} reach={} unreach={}", fam_name(ev.family), d.eor.iter().map(|f| fam_name(*f)).collect::<Vec<_>>(), d.reach.len(), d.unreach.len())));
            }
            return Ok(());
        }
        _ => {
            if !d.eor.is_empty() {
                return Err(("unexpected-eor".into(), "a PDU parses as End-of-RIB".into()));
            }
        }
    }
    let want: Vec<(Family, PathNlri)> = ev
        .entries
        .iter()
        .map(|e| (ev.family, PathNlri { path_id: if ev.addpath { e.path_id } else { 0 }, nlri: e.nlri.clone() }))
        .collect();
    let empty: Vec<(Family, PathNlri)> = Vec::new();
    let (want_r, want_u) = if ev.kind == Kind::Reach { (&want, &empty) } else { (&empty, &want) };
    for (what, w, g) in [("nlri", want_r, &d.reach), ("withdraw", want_u, &d.unreach)] {
        let (missing, extra) = multiset_diff(w, g);
        if !missing.is_empty() && !extra.is_empty() {
            // same prefixes but other path ids?
            let strip = |v: &[(Family, PathNlri)]| -> Vec<(Family, PathNlri)> { v.iter().map(|(f, e)| (*f, PathNlri { path_id: 0, nlri: e.nlri.clone() })).collect() };
            let (m2, e2) = multiset_diff(&strip(&missing), &strip(&extra));
            if m2.is_empty() && e2.is_empty() {
                return Err((format!("{}-path-id-differs", what), format!("monitored {} but parsed back {}", show_entries(&missing), show_entries(&extra))));
            }
            return Err((format!("{}-differs", what), format!("missing {} ; unexpected {}", show_entries(&missing), show_entries(&extra))));
        }
        if !missing.is_empty() {
            return Err((format!("{}-lost", what), format!("monitored {} {}s, parsed back {}; missing {}", w.len(), what, g.len(), show_entries(&missing))));
        }
        if !extra.is_empty() {
            return Err((format!("{}-extra", what), format!("monitored {} {}s, parsed back {}; unexpected {}", w.len(), what, g.len(), show_entries(&extra))));
        }
    }
    if ev.kind == Kind::Reach {
        let want_attrs = attrs_canon(&ev.attrs);
        let want_nh = nh_str(&ev.nexthop);
        for (a, n) in &d.ctx {
            if *a != want_attrs {
                return Err(("attrs-differ".into(), format!("monitored [{}] parsed back [{}]", short(&want_attrs, 600), short(a, 600))));
            }
            if *n != want_nh {
                return Err(("nexthop-differs".into(), format!("monitored next hop {} parsed back {}", want_nh, n)));
            }
        }
        if d.attr_only > 0 {
            return Err(("pdu-without-nlri".into(), format!("{} PDUs carry attributes but no NLRI", d.attr_only)));
        }
    } else if d.attr_only > 0 {
        return Err(("pdu-without-nlri".into(), "withdraw event produced a PDU without routes".into()));
    }
    Ok(())
}

/// Reference round trip through a plain session codec of the repository: is
/// this event something a BGP session can carry (and hence the daemon can
/// monitor) faithfully?  If not the case is not C19's to judge.
fn bgp_stable(ps: &mut Parsers, ev: &Ev, two_byte: bool) -> Result<(), String> {
    let msg = ev.msg();
    let ext_nh = ev.kind == Kind::Reach && ev.family == Family::IPV4 && ev.v6_nexthop();
    let mut c = if ext_nh {
        let mut caps = vec![
            Capability::MultiProtocol(Family::IPV4),
            Capability::ExtendedNexthop(vec![(Family::IPV4, Family::AFI_IP6)]),
            Capability::FourOctetAsNumber(65000),
            Capability::ExtendedMessage,
        ];
        if ev.addpath {
            caps.push(Capability::AddPath(vec![(Family::IPV4, 3)]));
        }
        PeerCodec::negotiate(&caps, &caps)
    } else {
        PeerCodec::new()
    };
    c.extended_length = true;
    c.two_byte_as = two_byte;
    c.set_family(ev.family, FamilyState { addpath_rx: ev.addpath, addpath_tx: ev.addpath });
    let bytes = match guard(|| {
        let mut b = BytesMut::new();
        c.encode_to(&msg, &mut b).map(|_| b.to_vec())
    }) {
        Ok(Ok(b)) => b,
        Ok(Err(e)) => return Err(format!("encode-error:{:?}", e)),
        Err(p) => return Err(format!("encode-panic:{}", p.location)),
    };
    let (pdus, err) = split_pdus(&bytes);
    if let Some((_, why)) = err {
        return Err(format!("framing:{}", why));
    }
    let mut d = Decoded::default();
    for p in pdus {
        match ps.parse(p, ev.addpath, two_byte) {
            Ok(m) => d.absorb(m),
            Err((c, _)) => return Err(c),
        }
    }
    compare(ev, &d).map_err(|(c, _)| c)
}

fn open_eq(a: &Open, b: &Open) -> bool {
    a.as_number == b.as_number
        && a.holdtime.seconds() == b.holdtime.seconds()
        && a.router_id == b.router_id
        && format!("{:?}", a.capability) == format!("{:?}", b.capability)
}

fn open_str(o: &Open) -> String {
    format!("AS{} hold={} id={} caps={:?}", o.as_number, o.holdtime.seconds(), Ipv4Addr::from(o.router_id), o.capability)
}

fn open_stable(ps: &mut Parsers, o: &Open) -> bool {
    let mut c = PeerCodec::new();
    let m = bgp::Message::Open(o.clone());
    let bytes = match guard(|| {
        let mut b = BytesMut::new();
        c.encode_to(&m, &mut b).map(|_| b.to_vec())
    }) {
        Ok(Ok(b)) => b,
        _ => return false,
    };
    matches!(ps.parse(&bytes, false, false), Ok(ParsedMessage::Open(p)) if open_eq(&p, o))
}

fn notif_str(n: &Notification) -> String {
    format!("code={} subcode={} data={}", n.notification_code(), n.notification_subcode(), short(&hex(n.notification_data()), 80))
}

fn notif_eq(a: &Notification, b: &Notification) -> bool {
    a.notification_code() == b.notification_code() && a.notification_subcode() == b.notification_subcode() && a.notification_data() == b.notification_data()
}

// ------------------------------------------------------------------ verdicts

struct Finding {
    sig: String,
    what: String,
    observed: String,
    bytes: Vec<u8>,
}

enum Verdict {
    /// hash = Some(..) when an embedded PDU / RIB entry was parsed back and compared
    Held { hash: Option<u64>, counters: Vec<String> },
    Unjudged(String),
    Fail(Finding),
}

fn fail(sig: String, what: &str, observed: String, bytes: &[u8]) -> Verdict {
    Verdict::Fail(Finding { sig, what: what.to_string(), observed, bytes: bytes.to_vec() })
}

fn bytes_json(b: &[u8]) -> Json {
    if b.len() <= 3000 {
        Json::s(hex(b))
    } else {
        Json::s(format!("{}…(first 3000 of {} bytes)", hex(&b[..3000]), b.len()))
    }
}

// ------------------------------------------------------------------ BMP: inputs

#[derive(Clone, Debug)]
struct PeerIn {
    ptype: u8,
    /// L / O bits only; V is derived by the codec
    flags: u8,
    rd: u64,
    addr: IpAddr,
    asn: u32,
    id: Ipv4Addr,
    ts: u32,
}

impl PeerIn {
    fn header(&self) -> bmp::PerPeerHeader {
        bmp::PerPeerHeader::new(self.flags, self.asn, self.id, self.rd, self.addr, self.ts).with_peer_type(self.ptype)
    }
}

#[derive(Clone)]
enum DownIn {
    LocalNotification(Notification),
    LocalFsm(u16),
    RemoteNotification(Notification),
    RemoteUnexpected,
    Deconfigured,
}

#[derive(Clone)]
enum BmpEv {
    Initiation(Vec<(u16, Vec<u8>)>),
    PeerUp { peer: PeerIn, local: IpAddr, lport: u16, rport: u16, sent: Open, recv: Open },
    PeerDown { peer: PeerIn, reason: DownIn },
    Route { peer: PeerIn, ev: Ev },
    /// message types the daemon never emits; only the common header is judged
    Bare(u8),
}

fn gen_peer(rng: &mut Rng) -> PeerIn {
    let ptype = match rng.below(10) {
        0 => 1,
        1 => 2,
        2..=3 => 3,
        _ => 0,
    };
    if ptype == 3 {
        // RFC 9069: Loc-RIB instance peer, zero-filled address, no L/O flags
        return PeerIn { ptype, flags: 0, rd: 0, addr: IpAddr::V4(Ipv4Addr::UNSPECIFIED), asn: rng.next_u32(), id: rand_v4(rng), ts: rng.next_u32() };
    }
    let mut flags = 0u8;
    if rng.chance(1, 3) {
        flags |= bmp::Message::PEER_FLAG_POST_POLICY;
    }
    if rng.chance(1, 4) {
        flags |= bmp::Message::PEER_FLAG_ADJ_RIB_OUT;
    }
    PeerIn {
        ptype,
        flags,
        rd: if ptype == 0 { 0 } else { rng.next_u64() },
        addr: if rng.chance(2, 5) { IpAddr::V6(rand_v6(rng)) } else { IpAddr::V4(rand_v4(rng)) },
        asn: if rng.bool() { rng.range(1, 65534) as u32 } else { rng.next_u32() | 0x10000 },
        id: rand_v4(rng),
        ts: rng.next_u32(),
    }
}

fn cap_len(c: &Capability) -> usize {
    2 + match c {
        Capability::MultiProtocol(_) => 4,
        Capability::RouteRefresh | Capability::ExtendedMessage | Capability::EnhancedRouteRefresh => 0,
        Capability::ExtendedNexthop(v) => 6 * v.len(),
        Capability::GracefulRestart { families, .. } => 2 + 4 * families.len(),
        Capability::FourOctetAsNumber(_) => 4,
        Capability::AddPath(v) => 4 * v.len(),
        Capability::LongLivedGracefulRestart(v) => 7 * v.len(),
        Capability::Fqdn { hostname, domain } => 2 + hostname.len() + domain.len(),
        Capability::Unknown { bin, .. } => bin.len(),
    }
}

fn gen_open(rng: &mut Rng, asn: u32, id: Ipv4Addr) -> Open {
    let mut caps = Vec::new();
    let nfam = rng.range(0, 6) as usize;
    let mut fams = Vec::new();
    for _ in 0..nfam {
        let f = pick_family(rng);
        if !fams.contains(&f) {
            fams.push(f);
        }
    }
    for f in &fams {
        caps.push(Capability::MultiProtocol(*f));
    }
    if rng.chance(3, 4) {
        caps.push(Capability::RouteRefresh);
    }
    if asn > 65535 || rng.chance(3, 4) {
        caps.push(Capability::FourOctetAsNumber(asn));
    }
    if rng.bool() {
        caps.push(Capability::ExtendedMessage);
    }
    if rng.chance(1, 4) {
        let v: Vec<(Family, u16)> = fams.iter().filter(|f| f.afi() == Family::AFI_IP).map(|f| (*f, Family::AFI_IP6)).collect();
        if !v.is_empty() {
            caps.push(Capability::ExtendedNexthop(v));
        }
    }
    if rng.chance(1, 3) && !fams.is_empty() {
        caps.push(Capability::AddPath(fams.iter().map(|f| (*f, rng.range(1, 3) as u8)).collect()));
    }
    if rng.chance(1, 3) {
        caps.push(Capability::GracefulRestart { flags: rng.below(16) as u8, restart_time: rng.below(4096) as u16, families: fams.iter().map(|f| (*f, if rng.bool() { 0x80 } else { 0 })).collect() });
    }
    if rng.chance(1, 5) && !fams.is_empty() {
        caps.push(Capability::LongLivedGracefulRestart(fams.iter().map(|f| (*f, if rng.bool() { 0x80 } else { 0 }, rng.below(1 << 24) as u32)).collect()));
    }
    if rng.chance(1, 5) {
        caps.push(Capability::EnhancedRouteRefresh);
    }
    if rng.chance(1, 5) {
        caps.push(Capability::Fqdn { hostname: format!("r{}", rng.below(1000)), domain: if rng.bool() { "example.net".into() } else { String::new() } });
    }
    if rng.chance(1, 6) {
        caps.push(Capability::Unknown { code: rng.range(128, 250) as u8, bin: rbytes(rng, 0, 12, 1) });
    }
    // an OPEN that was on the wire has at most 255 bytes of optional parameters
    while caps.iter().map(cap_len).sum::<usize>() > 253 {
        caps.pop();
    }
    let hold = match rng.below(6) {
        0 => 0,
        1 => 3,
        2 => 65535,
        _ => rng.range(3, 600) as u16,
    };
    Open { as_number: asn, holdtime: HoldTime::new(hold).unwrap(), router_id: u32::from(id), capability: caps }
}

fn gen_notification(rng: &mut Rng) -> Notification {
    let (code, sub) = match rng.below(8) {
        0 => (1, rng.range(1, 3) as u8),
        1 => (2, rng.range(0, 8) as u8),
        2 => (3, rng.range(1, 11) as u8),
        3 => (4, 0),
        4 => (5, rng.range(0, 3) as u8),
        5..=6 => (6, rng.range(1, 10) as u8),
        _ => (rng.range(7, 20) as u8, rng.below(256) as u8),
    };
    let n = match rng.below(10) {
        0..=3 => 0,
        4..=7 => rng.range(1, 32) as usize,
        8 => rng.range(100, 1000) as usize,
        _ => rng.range(3000, 4070) as usize,
    };
    // data as `from_notification` keeps it: what a received NOTIFICATION turns into
    let n0 = Notification::from_notification(code, sub, rng.bytes(n));
    Notification::from_notification(n0.notification_code(), n0.notification_subcode(), n0.notification_data().to_vec())
}

fn gen_bmp_ev(rng: &mut Rng) -> BmpEv {
    match rng.below(100) {
        0..=2 => {
            let n = rng.range(0, 4) as usize;
            BmpEv::Initiation((0..n).map(|_| (rng.range(0, 3) as u16, rbytes(rng, 0, 60, 1).iter().map(|b| b'a' + b % 26).collect())).collect())
        }
        3..=17 => {
            let peer = gen_peer(rng);
            let local = match peer.addr {
                IpAddr::V4(a) if a.is_unspecified() => IpAddr::V4(Ipv4Addr::UNSPECIFIED),
                IpAddr::V4(_) => IpAddr::V4(rand_v4(rng)),
                IpAddr::V6(_) => IpAddr::V6(rand_v6(rng)),
            };
            let local_as = if rng.bool() { rng.range(1, 65534) as u32 } else { rng.next_u32() | 0x10000 };
            let local_id = rand_v4(rng);
            let sent = gen_open(rng, local_as, local_id);
            let recv = gen_open(rng, peer.asn, peer.id);
            BmpEv::PeerUp { peer, local, lport: rng.next_u32() as u16, rport: rng.next_u32() as u16, sent, recv }
        }
        18..=29 => {
            let peer = gen_peer(rng);
            let reason = match rng.below(5) {
                0 => DownIn::LocalNotification(gen_notification(rng)),
                1 => DownIn::LocalFsm(rng.next_u32() as u16),
                2 => DownIn::RemoteNotification(gen_notification(rng)),
                3 => DownIn::RemoteUnexpected,
                _ => DownIn::Deconfigured,
            };
            BmpEv::PeerDown { peer, reason }
        }
        30 => BmpEv::Bare(*rng.pick(&[bmp::Message::STATS_REPORTS, bmp::Message::TERMINATION, bmp::Message::ROUTE_MIRRORING])),
        _ => BmpEv::Route { peer: gen_peer(rng), ev: gen_ev(rng, false, true) },
    }
}

fn bmp_msg(e: &BmpEv) -> bmp::Message {
    match e {
        BmpEv::Initiation(t) => bmp::Message::Initiation(t.clone()),
        BmpEv::PeerUp { peer, local, lport, rport, sent, recv } => bmp::Message::PeerUp {
            header: peer.header(),
            local_addr: *local,
            local_port: *lport,
            remote_port: *rport,
            local_open: bgp::Message::Open(sent.clone()),
            remote_open: bgp::Message::Open(recv.clone()),
        },
        BmpEv::PeerDown { peer, reason } => bmp::Message::PeerDown {
            header: peer.header(),
            reason: match reason {
                DownIn::LocalNotification(n) => bmp::PeerDownReason::LocalNotification(bgp::Message::Notification(n.clone())),
                DownIn::LocalFsm(c) => bmp::PeerDownReason::LocalFsm(*c),
                DownIn::RemoteNotification(n) => bmp::PeerDownReason::RemoteNotification(bgp::Message::Notification(n.clone())),
                DownIn::RemoteUnexpected => bmp::PeerDownReason::RemoteUnexpected,
                DownIn::Deconfigured => bmp::PeerDownReason::Deconfigured,
            },
        },
        BmpEv::Route { peer, ev } => bmp::Message::RouteMonitoring { header: peer.header(), update: ev.msg(), addpath: ev.addpath },
        BmpEv::Bare(t) => match *t {
            bmp::Message::STATS_REPORTS => bmp::Message::StatsReports,
            bmp::Message::TERMINATION => bmp::Message::Termination,
            _ => bmp::Message::RouteMirroring,
        },
    }
}

// ------------------------------------------------------------------ BMP: independent reader (RFC 7854 §4, RFC 8671, RFC 9069)

struct BmpRec<'a> {
    typ: u8,
    body: &'a [u8],
}

/// Common header: version(1)=3, length(4) = whole message incl. header, type(1).
fn read_bmp(b: &[u8]) -> Result<Vec<BmpRec<'_>>, (String, String)> {
    let mut out = Vec::new();
    let mut o = 0usize;
    while o < b.len() {
        if b.len() - o < 6 {
            return Err(("common-length".into(), format!("{} stray bytes after the last message", b.len() - o)));
        }
        if b[o] != 3 {
            return Err(("common-length".into(), format!("at offset {} a message should start but version byte is {} (length field of the previous message wrong?)", o, b[o])));
        }
        let l = u32::from_be_bytes([b[o + 1], b[o + 2], b[o + 3], b[o + 4]]) as usize;
        if l < 6 || o + l > b.len() {
            return Err(("common-length".into(), format!("length field {} but {} bytes were emitted from the start of this message", l, b.len() - o)));
        }
        out.push(BmpRec { typ: b[o + 5], body: &b[o + 6..o + l] });
        o += l;
    }
    Ok(out)
}

fn ip16(a: &IpAddr) -> [u8; 16] {
    match a {
        IpAddr::V4(a) => {
            let mut x = [0u8; 16];
            x[12..].copy_from_slice(&a.octets());
            x
        }
        IpAddr::V6(a) => a.octets(),
    }
}

/// Per-peer header, 42 bytes: type(1) flags(1) RD(8) address(16) AS(4) BGP-ID(4) sec(4) usec(4).
fn check_peer_header(b: &[u8], p: &PeerIn) -> Result<(), (String, String)> {
    if b.len() < 42 {
        return Err(("peer-header-short".into(), format!("{} bytes after the common header", b.len())));
    }
    let (typ, flags) = (b[0], b[1]);
    if typ != p.ptype {
        return Err(("peer-type".into(), format!("peer type {} expected {}", typ, p.ptype)));
    }
    let v = flags & 0x80 != 0;
    let addr = &b[10..26];
    if !v && addr[..12].iter().any(|x| *x != 0) {
        return Err(("v-flag".into(), format!("V=0 but the address field {} is not a zero-padded IPv4 address", hex(addr))));
    }
    if v != p.addr.is_ipv6() {
        return Err(("v-flag".into(), format!("V={} for peer address {}", v as u8, p.addr)));
    }
    if addr != ip16(&p.addr) {
        return Err(("peer-address".into(), format!("address field {} for peer {}", hex(addr), p.addr)));
    }
    if flags & 0x7f != p.flags {
        return Err(("peer-flags".into(), format!("flags {:02x} expected L/A/O bits {:02x}", flags, p.flags)));
    }
    if b[2..10] != p.rd.to_be_bytes() {
        return Err(("peer-distinguisher".into(), format!("{} expected {:016x}", hex(&b[2..10]), p.rd)));
    }
    if b[26..30] != p.asn.to_be_bytes() {
        return Err(("peer-as".into(), format!("{} expected AS{}", hex(&b[26..30]), p.asn)));
    }
    if b[30..34] != p.id.octets() {
        return Err(("peer-bgp-id".into(), format!("{} expected {}", hex(&b[30..34]), p.id)));
    }
    if b[34..38] != p.ts.to_be_bytes() {
        return Err(("peer-timestamp".into(), format!("{} expected {}", hex(&b[34..38]), p.ts)));
    }
    Ok(())
}

fn read_tlvs(b: &[u8]) -> Result<Vec<(u16, Vec<u8>)>, String> {
    let mut out = Vec::new();
    let mut o = 0;
    while o < b.len() {
        if b.len() - o < 4 {
            return Err(format!("{} stray bytes where a TLV should start", b.len() - o));
        }
        let t = u16::from_be_bytes([b[o], b[o + 1]]);
        let l = u16::from_be_bytes([b[o + 2], b[o + 3]]) as usize;
        if o + 4 + l > b.len() {
            return Err(format!("TLV length {} overruns the message", l));
        }
        out.push((t, b[o + 4..o + 4 + l].to_vec()));
        o += 4 + l;
    }
    Ok(out)
}

fn bmp_type_name(t: u8) -> &'static str {
    match t {
        0 => "route-monitoring",
        1 => "stats",
        2 => "peer-down",
        3 => "peer-up",
        4 => "initiation",
        5 => "termination",
        6 => "route-mirroring",
        _ => "unknown",
    }
}

/// exactly one well-framed PDU of type `want` filling `b`; Err(clause, detail)
fn one_pdu<'a>(b: &'a [u8], want: u8) -> Result<&'a [u8], (String, String)> {
    let (pdus, err) = split_pdus(b);
    if pdus.len() > 1 {
        return Err(("multiple-pdus".into(), format!("{} BGP PDUs (lengths {:?}) where exactly one is allowed", pdus.len(), pdus.iter().map(|p| p.len()).collect::<Vec<_>>())));
    }
    if pdus.is_empty() {
        let why = err.map(|e| e.1).unwrap_or("empty");
        let clause = if why == "overrun" { "pdu-overrun" } else { "pdu-framing" };
        return Err((clause.into(), format!("no well-framed BGP PDU ({}); {} bytes available, header says {}", why, b.len(), if b.len() >= 18 { u16::from_be_bytes([b[16], b[17]]) as usize } else { 0 })));
    }
    if let Some((at, why)) = err {
        return Err(("trailing-bytes".into(), format!("{} bytes after the PDU do not form a PDU ({})", b.len() - at, why)));
    }
    if pdus[0][18] != want {
        return Err(("pdu-type".into(), format!("embedded PDU has type {} expected {}", pdus[0][18], want)));
    }
    Ok(pdus[0])
}

// ------------------------------------------------------------------ BMP: judge one event

/// Encode one event with the (shared, stateful) codec into a buffer that
/// already holds `junk` bytes — as `Framed` does when earlier messages are
/// still queued — and judge the bytes appended.
fn judge_bmp(ps: &mut Parsers, codec: &mut bmp::BmpCodec, e: &BmpEv, junk: usize) -> Verdict {
    // 1. is the embedded BGP content something a session can carry?
    match e {
        BmpEv::Route { ev, .. } => {
            if let Err(why) = bgp_stable(ps, ev, false) {
                return Verdict::Unjudged(format!("bgp-codec-unstable/{}/{}/{}/{:?}/nh={}", ev.shape(), why, fam_name(ev.family), ev.kind, match ev.nexthop { None => "none", Some(Nexthop::V4(_)) => "v4", Some(Nexthop::V6(_)) => "v6", Some(Nexthop::V6LinkLocal(..)) => "v6ll" }));
            }
        }
        BmpEv::PeerUp { sent, recv, .. } => {
            if !open_stable(ps, sent) || !open_stable(ps, recv) {
                return Verdict::Unjudged("open-not-bgp-stable".into());
            }
        }
        _ => {}
    }
    let msg = bmp_msg(e);
    let tname = match e {
        BmpEv::Initiation(_) => "initiation",
        BmpEv::PeerUp { .. } => "peer-up",
        BmpEv::PeerDown { .. } => "peer-down",
        BmpEv::Route { .. } => "route-monitoring",
        BmpEv::Bare(t) => bmp_type_name(*t),
    };
    let sig = |clause: &str| format!("C19/bmp/{}/{}", tname, clause);
    // 2. the code under test
    let all = match guard(|| {
        let mut buf = BytesMut::new();
        buf.extend_from_slice(&vec![0xA5u8; junk]);
        codec.encode(&msg, &mut buf).map(|_| buf.to_vec())
    }) {
        Ok(Ok(b)) => b,
        Ok(Err(err)) => return fail(sig("encode-error"), "BmpCodec::encode refuses an event a BGP session can carry", format!("{:?}", err), &[]),
        Err(p) => {
            return fail(format!("C19/panic/{}:{}", p.location, panic_class(&p.message)), "BmpCodec::encode panicked", format!("{} ({})", p.message, tname), &[]);
        }
    };
    if all.len() < junk || all[..junk].iter().any(|b| *b != 0xA5) {
        return fail(sig("clobbers-buffer"), "BmpCodec::encode modified bytes already queued in the output buffer", format!("{} junk bytes", junk), &all);
    }
    let b = &all[junk..];
    // 3. independent structural reader
    let recs = match read_bmp(b) {
        Ok(r) => r,
        Err((c, d)) => return fail(sig(&c), "BMP common header length does not delimit the message", d, b),
    };
    if recs.is_empty() {
        return fail(sig("nothing-emitted"), "no BMP message emitted for the event", String::new(), b);
    }
    let mut counters: Vec<String> = vec![format!("bmp:{}", tname)];
    if junk > 0 {
        counters.push("bmp:appended-to-nonempty-buffer".into());
    }
    let single = |what: &str| -> Option<Verdict> {
        if recs.len() != 1 {
            Some(fail(sig("message-count"), what, format!("{} BMP messages emitted", recs.len()), b))
        } else {
            None
        }
    };
    match e {
        BmpEv::Bare(t) => {
            if let Some(v) = single("one message expected") {
                return v;
            }
            if recs[0].typ != *t {
                return fail(sig("type"), "BMP message type differs", format!("type {}", recs[0].typ), b);
            }
            Verdict::Unjudged(format!("bmp/{}/body-not-emitted-by-daemon", tname))
        }
        BmpEv::Initiation(tlvs) => {
            if let Some(v) = single("one Initiation message expected") {
                return v;
            }
            if recs[0].typ != 4 {
                return fail(sig("type"), "BMP message type differs", format!("type {}", recs[0].typ), b);
            }
            match read_tlvs(recs[0].body) {
                Err(d) => fail(sig("tlv-framing"), "Initiation information TLVs are not well-framed", d, b),
                Ok(got) => {
                    if &got != tlvs {
                        return fail(sig("tlv-differ"), "Initiation TLVs differ from the ones given", format!("{:?}", got), b);
                    }
                    Verdict::Held { hash: None, counters }
                }
            }
        }
        BmpEv::PeerUp { peer, local, lport, rport, sent, recv } => {
            if let Some(v) = single("one PeerUp message expected") {
                return v;
            }
            let body = recs[0].body;
            if recs[0].typ != 3 {
                return fail(sig("type"), "BMP message type differs", format!("type {}", recs[0].typ), b);
            }
            if let Err((c, d)) = check_peer_header(body, peer) {
                return fail(sig(&c), "per-peer header does not match the monitored peer", d, b);
            }
            if body.len() < 42 + 20 {
                return fail(sig("short"), "PeerUp body shorter than local address + ports", format!("{} bytes", body.len()), b);
            }
            let la = &body[42..58];
            if la != ip16(local) {
                return fail(sig("local-address"), "PeerUp local address differs", format!("{} expected {}", hex(la), local), b);
            }
            if body[1] & 0x80 == 0 && la[..12].iter().any(|x| *x != 0) {
                return fail(sig("local-address-family"), "V=0 but local address is not IPv4", hex(la), b);
            }
            if body[58..60] != lport.to_be_bytes() || body[60..62] != rport.to_be_bytes() {
                return fail(sig("ports"), "PeerUp ports differ", format!("{} expected {}/{}", hex(&body[58..62]), lport, rport), b);
            }
            let (pdus, err) = split_pdus(&body[62..]);
            if pdus.len() < 2 {
                return fail(sig("open-framing"), "PeerUp does not contain two well-framed OPEN PDUs", format!("{} PDUs, framing stops: {:?}", pdus.len(), err), b);
            }
            let consumed: usize = pdus[0].len() + pdus[1].len();
            if pdus[0][18] != 1 || pdus[1][18] != 1 {
                return fail(sig("open-type"), "PeerUp PDUs are not OPEN messages", format!("types {} {}", pdus[0][18], pdus[1][18]), b);
            }
            if let Err(d) = read_tlvs(&body[62 + consumed..]) {
                return fail(sig("trailing-bytes"), "bytes after the two OPENs are not information TLVs", d, b);
            }
            for (i, (pdu, want)) in [(pdus[0], sent), (pdus[1], recv)].into_iter().enumerate() {
                let which = if i == 0 { "sent-open" } else { "received-open" };
                match ps.parse(pdu, false, false) {
                    Ok(ParsedMessage::Open(o)) => {
                        if !open_eq(&o, want) {
                            return fail(sig(&format!("{}-differs", which)), "OPEN in PeerUp does not parse back to the OPEN monitored", format!("got {} want {}", open_str(&o), open_str(want)), b);
                        }
                    }
                    Ok(_) => return fail(sig(&format!("{}-type", which)), "PeerUp PDU is not an OPEN", String::new(), b),
                    Err((c, d)) => {
                        let s = if c.starts_with("panic/") { format!("C19/{}", c) } else { sig(&format!("{}-{}", which, c)) };
                        return fail(s, "OPEN in PeerUp is not readable by the repository's parser", d, b);
                    }
                }
            }
            counters.push(format!("bmp:peer-type/{}", peer.ptype));
            counters.push(if peer.addr.is_ipv6() { "bmp:peer-up/v6".into() } else { "bmp:peer-up/v4".into() });
            if !sent.capability.is_empty() {
                counters.push("bmp:peer-up/with-capabilities".into());
            }
            if sent.as_number > 65535 || recv.as_number > 65535 {
                counters.push("bmp:peer-up/4-byte-as".into());
            }
            Verdict::Held { hash: Some(fnv64(b)), counters }
        }
        BmpEv::PeerDown { peer, reason } => {
            if let Some(v) = single("one PeerDown message expected") {
                return v;
            }
            let body = recs[0].body;
            if recs[0].typ != 2 {
                return fail(sig("type"), "BMP message type differs", format!("type {}", recs[0].typ), b);
            }
            if let Err((c, d)) = check_peer_header(body, peer) {
                return fail(sig(&c), "per-peer header does not match the monitored peer", d, b);
            }
            if body.len() < 43 {
                return fail(sig("short"), "PeerDown without reason byte", String::new(), b);
            }
            let (code, data) = (body[42], &body[43..]);
            let (want_code, want_n, want_fsm) = match reason {
                DownIn::LocalNotification(n) => (1u8, Some(n), None),
                DownIn::LocalFsm(c) => (2, None, Some(*c)),
                DownIn::RemoteNotification(n) => (3, Some(n), None),
                DownIn::RemoteUnexpected => (4, None, None),
                DownIn::Deconfigured => (5, None, None),
            };
            counters.push(format!("bmp:peer-down/reason-{}", want_code));
            if code != want_code {
                return fail(sig("reason"), "PeerDown reason code differs", format!("{} expected {}", code, want_code), b);
            }
            let mut hash = None;
            if let Some(n) = want_n {
                let pdu = match one_pdu(data, 3) {
                    Ok(p) => p,
                    Err((c, d)) => return fail(sig(&format!("reason-{}/{}", code, c)), "PeerDown data is not exactly one NOTIFICATION PDU", d, b),
                };
                match ps.parse(pdu, false, false) {
                    Ok(ParsedMessage::Notification(g)) => {
                        if !notif_eq(&g, n) {
                            return fail(sig("notification-differs"), "NOTIFICATION in PeerDown does not parse back to the one monitored", format!("got {} want {}", notif_str(&g), notif_str(n)), b);
                        }
                    }
                    Ok(_) => return fail(sig("notification-type"), "PeerDown PDU is not a NOTIFICATION", String::new(), b),
                    Err((c, d)) => {
                        let s = if c.starts_with("panic/") { format!("C19/{}", c) } else { sig(&format!("notification-{}", c)) };
                        return fail(s, "NOTIFICATION in PeerDown is not readable by the repository's parser", d, b);
                    }
                }
                if !n.notification_data().is_empty() {
                    counters.push("bmp:peer-down/notification-with-data".into());
                }
                hash = Some(fnv64(b));
            } else if let Some(c) = want_fsm {
                if data != c.to_be_bytes() {
                    return fail(sig("fsm-code"), "PeerDown reason 2 data is not the 2-byte FSM event code", format!("{} expected {}", hex(data), c), b);
                }
            } else if !data.is_empty() {
                return fail(sig("reason-data"), "PeerDown reason 4/5 must carry no data", hex(data), b);
            }
            Verdict::Held { hash, counters }
        }
        BmpEv::Route { peer, ev } => {
            let mut d = Decoded::default();
            for r in &recs {
                if r.typ != 0 {
                    return fail(sig("type"), "BMP message type differs", format!("type {}", r.typ), b);
                }
                if let Err((c, dd)) = check_peer_header(r.body, peer) {
                    return fail(sig(&c), "per-peer header does not match the monitored peer", dd, b);
                }
                // exactly one UPDATE whose own length fills the rest of the message
                let pdu = match one_pdu(&r.body[42..], 2) {
                    Ok(p) => p,
                    Err((c, dd)) => return fail(sig(&c), "RouteMonitoring must embed exactly one BGP UPDATE PDU filling the message", format!("{} ({} monitored NLRI)", dd, ev.entries.len()), b),
                };
                match ps.parse(pdu, ev.addpath, false) {
                    Ok(m) => d.absorb(m),
                    Err((c, dd)) => {
                        let s = if c.starts_with("panic/") { format!("C19/{}", c) } else { sig(&format!("{}/{}", c, ev.shape_for(&c))) };
                        return fail(s, "embedded UPDATE is not readable by the repository's parser with the stated add-path setting", dd, b);
                    }
                }
            }
            if let Err((c, dd)) = compare(ev, &d) {
                return fail(sig(&format!("{}/{}", c, ev.shape_for(&c))), "embedded UPDATE(s) do not parse back to the monitored prefixes / attributes / next hop", dd, b);
            }
            counters.push(format!("rm:family/{}", fam_name(ev.family)));
            counters.push(format!("rm:kind/{:?}", ev.kind));
            counters.push(format!("rm:peer-type/{}", peer.ptype));
            counters.push(if peer.addr.is_ipv6() { "rm:peer-v6".into() } else { "rm:peer-v4".into() });
            if ev.addpath {
                counters.push("rm:addpath-on".into());
            }
            if peer.flags & 0x40 != 0 {
                counters.push("rm:flag-L".into());
            }
            if peer.flags & 0x10 != 0 {
                counters.push("rm:flag-O".into());
            }
            if recs.len() > 1 {
                counters.push("rm:event-split-into-several-messages".into());
            }
            if ev.kind == Kind::Reach {
                counters.push(format!("rm:nexthop/{}", match ev.nexthop { None => "none", Some(Nexthop::V4(_)) => "v4", Some(Nexthop::V6(_)) => "v6", Some(Nexthop::V6LinkLocal(..)) => "v6+ll" }));
                if ev.attrs.iter().any(|a| a.binary().is_some_and(|x| x.len() > 255)) {
                    counters.push("rm:extended-length-attr".into());
                }
            }
            Verdict::Held { hash: Some(fnv64(b)), counters }
        }
    }
}

// ------------------------------------------------------------------ MRT BGP4MP (RFC 6396 §4.4, RFC 8050 §3)

#[derive(Clone, Debug)]
struct MpIn {
    remote_as: u32,
    local_as: u32,
    ifidx: u16,
    remote: IpAddr,
    local: IpAddr,
    as4: bool,
}

#[derive(Clone)]
enum MrtBody {
    Update(Ev),
    Keepalive,
    Open(Open),
    Notification(Notification),
}

#[derive(Clone)]
struct MrtEv {
    hdr: MpIn,
    body: MrtBody,
}

fn gen_mrt_ev(rng: &mut Rng) -> MrtEv {
    let as4 = !rng.chance(3, 20);
    let v6 = rng.chance(2, 5);
    let gen_as = |rng: &mut Rng| if !as4 || rng.bool() { rng.range(1, 65534) as u32 } else { rng.next_u32() | 0x10000 };
    let hdr = MpIn {
        remote_as: gen_as(rng),
        local_as: gen_as(rng),
        ifidx: if rng.bool() { 0 } else { rng.next_u32() as u16 },
        remote: if v6 { IpAddr::V6(rand_v6(rng)) } else { IpAddr::V4(rand_v4(rng)) },
        local: if v6 { IpAddr::V6(rand_v6(rng)) } else { IpAddr::V4(rand_v4(rng)) },
        as4,
    };
    let body = match rng.below(40) {
        0 => MrtBody::Keepalive,
        1 => {
            let id = rand_v4(rng);
            MrtBody::Open(gen_open(rng, hdr.remote_as, id))
        }
        2 => MrtBody::Notification(gen_notification(rng)),
        _ => MrtBody::Update(gen_ev(rng, !as4, true)),
    };
    MrtEv { hdr, body }
}

struct MrtRec<'a> {
    ts: u32,
    typ: u16,
    subtype: u16,
    body: &'a [u8],
}

/// MRT common header: timestamp(4) type(2) subtype(2) length(4) = bytes that follow.
fn read_mrt(b: &[u8]) -> Result<Vec<MrtRec<'_>>, (String, String)> {
    let mut out = Vec::new();
    let mut o = 0usize;
    while o < b.len() {
        if b.len() - o < 12 {
            return Err(("common-length".into(), format!("{} stray bytes after the last record", b.len() - o)));
        }
        let ts = u32::from_be_bytes([b[o], b[o + 1], b[o + 2], b[o + 3]]);
        let typ = u16::from_be_bytes([b[o + 4], b[o + 5]]);
        let subtype = u16::from_be_bytes([b[o + 6], b[o + 7]]);
        let l = u32::from_be_bytes([b[o + 8], b[o + 9], b[o + 10], b[o + 11]]) as usize;
        if o + 12 + l > b.len() {
            return Err(("common-length".into(), format!("length field {} but only {} bytes follow the header", l, b.len() - o - 12)));
        }
        out.push(MrtRec { ts, typ, subtype, body: &b[o + 12..o + 12 + l] });
        o += 12 + l;
    }
    Ok(out)
}

/// (name, 4-byte AS fields, add-path, is a MESSAGE subtype)
fn bgp4mp_subtype(s: u16) -> Option<(&'static str, bool, bool, bool)> {
    Some(match s {
        0 => ("bgp4mp-state-change", false, false, false),
        1 => ("bgp4mp-message", false, false, true),
        4 => ("bgp4mp-message-as4", true, false, true),
        5 => ("bgp4mp-state-change-as4", true, false, false),
        6 => ("bgp4mp-message-local", false, false, true),
        7 => ("bgp4mp-message-as4-local", true, false, true),
        8 => ("bgp4mp-message-addpath", false, true, true),
        9 => ("bgp4mp-message-as4-addpath", true, true, true),
        10 => ("bgp4mp-message-local-addpath", false, true, true),
        11 => ("bgp4mp-message-as4-local-addpath", true, true, true),
        _ => return None,
    })
}

struct MpRead<'a> {
    remote_as: u32,
    local_as: u32,
    ifidx: u16,
    afi: u16,
    remote: &'a [u8],
    local: &'a [u8],
    rest: &'a [u8],
}

/// BGP4MP_MESSAGE* body with AS fields of the given width; the remainder must
/// start with a BGP marker.
fn read_mp(b: &[u8], as4: bool) -> Result<MpRead<'_>, String> {
    let w = if as4 { 4 } else { 2 };
    if b.len() < 2 * w + 4 {
        return Err("shorter than the BGP4MP header".into());
    }
    let rd = |o: usize| -> u32 { if as4 { u32::from_be_bytes([b[o], b[o + 1], b[o + 2], b[o + 3]]) } else { u16::from_be_bytes([b[o], b[o + 1]]) as u32 } };
    let (remote_as, local_as) = (rd(0), rd(w));
    let o = 2 * w;
    let ifidx = u16::from_be_bytes([b[o], b[o + 1]]);
    let afi = u16::from_be_bytes([b[o + 2], b[o + 3]]);
    let alen = match afi {
        1 => 4,
        2 => 16,
        _ => return Err(format!("AFI field {} is neither 1 nor 2", afi)),
    };
    let o = o + 4;
    if b.len() < o + 2 * alen + 19 {
        return Err("too short for two addresses and a BGP message".into());
    }
    let rest = &b[o + 2 * alen..];
    if rest[..16].iter().any(|x| *x != 0xff) {
        return Err("no BGP marker after the two addresses".into());
    }
    Ok(MpRead { remote_as, local_as, ifidx, afi, remote: &b[o..o + alen], local: &b[o + alen..o + 2 * alen], rest })
}

fn ipn(a: &IpAddr) -> Vec<u8> {
    match a {
        IpAddr::V4(a) => a.octets().to_vec(),
        IpAddr::V6(a) => a.octets().to_vec(),
    }
}

fn judge_mrt(ps: &mut Parsers, codec: &mut mrt::MrtCodec, e: &MrtEv, junk: usize) -> Verdict {
    let two_byte = !e.hdr.as4;
    let (addpath, body_msg) = match &e.body {
        MrtBody::Update(ev) => {
            if let Err(why) = bgp_stable(ps, ev, two_byte) {
                return Verdict::Unjudged(format!("bgp-codec-unstable/{}/{}/{}/{:?}/nh={}", ev.shape(), why, fam_name(ev.family), ev.kind, match ev.nexthop { None => "none", Some(Nexthop::V4(_)) => "v4", Some(Nexthop::V6(_)) => "v6", Some(Nexthop::V6LinkLocal(..)) => "v6ll" }));
            }
            (ev.addpath, ev.msg())
        }
        MrtBody::Keepalive => (false, bgp::Message::Keepalive),
        MrtBody::Open(o) => {
            if !open_stable(ps, o) {
                return Verdict::Unjudged("open-not-bgp-stable".into());
            }
            (false, bgp::Message::Open(o.clone()))
        }
        MrtBody::Notification(n) => (false, bgp::Message::Notification(n.clone())),
    };
    let msg = mrt::Message::Mp {
        header: mrt::MpHeader::new(e.hdr.remote_as, e.hdr.local_as, e.hdr.ifidx, e.hdr.remote, e.hdr.local, e.hdr.as4),
        body: body_msg,
        addpath,
    };
    let all = match guard(|| {
        let mut buf = BytesMut::new();
        buf.extend_from_slice(&vec![0xA5u8; junk]);
        codec.encode(&msg, &mut buf).map(|_| buf.to_vec())
    }) {
        Ok(Ok(b)) => b,
        Ok(Err(err)) => return fail("C19/mrt/bgp4mp/encode-error".into(), "MrtCodec::encode refuses an event a BGP session can carry", format!("{:?}", err), &[]),
        Err(p) => return fail(format!("C19/panic/{}:{}", p.location, panic_class(&p.message)), "MrtCodec::encode panicked", p.message, &[]),
    };
    if all.len() < junk || all[..junk].iter().any(|b| *b != 0xA5) {
        return fail("C19/mrt/bgp4mp/clobbers-buffer".into(), "MrtCodec::encode modified bytes already queued in the output buffer", format!("{} junk bytes", junk), &all);
    }
    let b = &all[junk..];
    let recs = match read_mrt(b) {
        Ok(r) => r,
        Err((c, d)) => return fail(format!("C19/mrt/bgp4mp/{}", c), "MRT common header length does not delimit the record", d, b),
    };
    if recs.is_empty() {
        return fail("C19/mrt/bgp4mp/nothing-emitted".into(), "no MRT record emitted for the event", String::new(), b);
    }
    let mut d = Decoded::default();
    let mut others: Vec<ParsedMessage> = Vec::new();
    let mut stname = "bgp4mp";
    let mut hash_in: Vec<u8> = Vec::new();
    let mut pdu_list: Vec<(&[u8], bool, bool)> = Vec::new();
    for r in &recs {
        let _ = r.ts; // wall clock of the encoder: read, not judged
        let mut body = r.body;
        if r.typ == 17 {
            // BGP4MP_ET: microsecond timestamp is part of the counted length
            if body.len() < 4 {
                return fail("C19/mrt/bgp4mp-et/common-length".into(), "BGP4MP_ET record shorter than its microsecond field", String::new(), b);
            }
            body = &body[4..];
        } else if r.typ != 16 {
            return fail("C19/mrt/bgp4mp/type".into(), "record type is not BGP4MP / BGP4MP_ET", format!("type {}", r.typ), b);
        }
        let (name, st_as4, st_addpath, is_msg) = match bgp4mp_subtype(r.subtype) {
            Some(x) => x,
            None => return fail("C19/mrt/bgp4mp/subtype-unknown".into(), "unknown BGP4MP subtype", format!("subtype {}", r.subtype), b),
        };
        stname = name;
        let sig = |clause: &str| format!("C19/mrt/{}/{}", name, clause);
        if !is_msg {
            return fail(sig("subtype-kind"), "a BGP message was monitored but the record is a state change", String::new(), b);
        }
        let m = match read_mp(body, st_as4) {
            Ok(m) => m,
            Err(why) => {
                // does it read with the other AS width?
                if read_mp(body, !st_as4).is_ok() {
                    return fail(
                        sig("as-width-vs-subtype"),
                        "AS fields of the BGP4MP header do not have the width the subtype states",
                        format!("subtype {} ({}) states {}-byte AS fields; the record only reads with {}-byte AS fields ({}); MpHeader.is_asn4={}", r.subtype, name, if st_as4 { 4 } else { 2 }, if st_as4 { 2 } else { 4 }, why, e.hdr.as4),
                        b,
                    );
                }
                return fail(sig("header-malformed"), "BGP4MP header does not read with either AS width", why, b);
            }
        };
        if st_addpath != addpath {
            return fail(sig("subtype-addpath"), "add-path-ness of the subtype differs from the monitored session", format!("subtype {} addpath={} monitored addpath={}", r.subtype, st_addpath, addpath), b);
        }
        if (m.afi == 2) != e.hdr.remote.is_ipv6() {
            return fail(sig("afi"), "AFI of the BGP4MP header does not match the peer address family", format!("afi {} peer {}", m.afi, e.hdr.remote), b);
        }
        if m.remote != ipn(&e.hdr.remote) || m.local != ipn(&e.hdr.local) {
            return fail(sig("addresses"), "addresses in the BGP4MP header differ", format!("{} {} expected {} {}", hex(m.remote), hex(m.local), e.hdr.remote, e.hdr.local), b);
        }
        if m.remote_as != e.hdr.remote_as || m.local_as != e.hdr.local_as {
            return fail(sig("as-numbers"), "AS numbers in the BGP4MP header differ", format!("{} {} expected {} {}", m.remote_as, m.local_as, e.hdr.remote_as, e.hdr.local_as), b);
        }
        if m.ifidx != e.hdr.ifidx {
            return fail(sig("ifindex"), "interface index differs", format!("{} expected {}", m.ifidx, e.hdr.ifidx), b);
        }
        let want_type = match &e.body {
            MrtBody::Update(_) => 2,
            MrtBody::Keepalive => 4,
            MrtBody::Open(_) => 1,
            MrtBody::Notification(_) => 3,
        };
        let pdu = match one_pdu(m.rest, want_type) {
            Ok(p) => p,
            Err((c, dd)) => return fail(format!("C19/mrt/bgp4mp/{}", c), "a BGP4MP_MESSAGE record must contain exactly one BGP message filling the record", format!("{} (subtype {} {})", dd, r.subtype, name), b),
        };
        pdu_list.push((pdu, st_addpath, !st_as4));
        hash_in.extend_from_slice(&r.subtype.to_be_bytes());
        hash_in.extend_from_slice(r.body);
    }
    // clauses that do not depend on the subtype use the generic token `bgp4mp`
    // so that one root cause keeps one signature whatever subtype is chosen
    let sig = |clause: &str| format!("C19/mrt/bgp4mp/{}", clause);
    // parse the embedded messages with the add-path / AS-size setting the record states
    let shape_of = |c: &str| -> &'static str { if let MrtBody::Update(ev) = &e.body { ev.shape_for(c) } else { "non-update" } };
    let mut first_err: Option<(String, String)> = None;
    for (pdu, ap, two) in &pdu_list {
        match ps.parse(pdu, *ap, *two) {
            Ok(pm) => match &e.body {
                MrtBody::Update(_) => d.absorb(pm),
                _ => others.push(pm),
            },
            Err(x) => {
                first_err = Some(x);
                break;
            }
        }
    }
    if first_err.is_none() {
        if let MrtBody::Update(ev) = &e.body {
            first_err = compare(ev, &d).err().map(|(c, dd)| (format!("{}/{}", c, shape_of(&c)), dd));
        }
    } else if let Some((c, _)) = &mut first_err {
        if !c.starts_with("panic/") {
            *c = format!("{}/{}", c, shape_of(c));
        }
    }
    if let Some((c, dd)) = first_err {
        if c.starts_with("panic/") {
            return fail(format!("C19/{}", c), "repository parser panicked on the embedded BGP message", dd, b);
        }
        // the record states 2-byte AS (RFC 6396 §4.4.2): is the PDU in fact in 4-byte form?
        if let (MrtBody::Update(ev), true) = (&e.body, pdu_list.iter().all(|x| x.2)) {
            let mut d4 = Decoded::default();
            let mut ok = true;
            for (pdu, ap, _) in &pdu_list {
                match ps.parse(pdu, *ap, false) {
                    Ok(pm) => d4.absorb(pm),
                    Err(_) => ok = false,
                }
            }
            let r4 = if ok { compare(ev, &d4) } else { Err(("pdu-unparsable".to_string(), String::new())) };
            if let (Err((c4, dd4)), true) = (&r4, c.starts_with("pdu-attr-error")) {
                if ok && !c4.starts_with("pdu-attr-error") {
                    // two causes at once: AS size AND another fault that shows once the AS_PATH is readable
                    return fail(sig(&format!("{}/{}", c4, shape_of(c4))), "embedded UPDATE(s) do not parse back to the monitored prefixes / attributes / next hop (read with 4-byte AS because the PDU is not in the 2-byte form the subtype states)", dd4.clone(), b);
                }
            }
            if r4.is_ok() {
                return fail(
                    format!("C19/mrt/{}/pdu-as-size-vs-subtype", stname),
                    "the subtype states 2-byte AS numbers but the embedded UPDATE only reads back with 4-byte AS_PATH encoding",
                    format!("with the stated 2-byte setting: {} — {}", c, dd),
                    b,
                );
            }
        }
        return fail(sig(&c), "embedded BGP message(s) do not parse back (with the add-path / AS-size setting the record states) to the monitored prefixes / attributes / next hop", dd, b);
    }
    let mut counters = vec!["mrt:bgp4mp-events".to_string(), format!("mrt:subtype/{}", stname)];
    match &e.body {
        MrtBody::Update(ev) => {
            counters.push(format!("mrt:family/{}", fam_name(ev.family)));
            if ev.addpath {
                counters.push("mrt:addpath-on".into());
            }
            if recs.len() > 1 {
                counters.push("mrt:event-split-into-several-records".into());
            }
        }
        other => {
            if recs.len() != 1 || others.len() != 1 {
                return fail(sig("record-count"), "one record expected for a non-UPDATE message", format!("{} records", recs.len()), b);
            }
            let ok = match (other, &others[0]) {
                (MrtBody::Keepalive, ParsedMessage::Keepalive) => true,
                (MrtBody::Open(o), ParsedMessage::Open(g)) => open_eq(o, g),
                (MrtBody::Notification(n), ParsedMessage::Notification(g)) => notif_eq(n, g),
                _ => false,
            };
            if !ok {
                return fail(sig("message-differs"), "embedded non-UPDATE message does not parse back to the one monitored", String::new(), b);
            }
            counters.push("mrt:non-update-message".into());
        }
    }
    counters.push(if e.hdr.remote.is_ipv6() { "mrt:peer-v6".into() } else { "mrt:peer-v4".into() });
    counters.push(if e.hdr.as4 { "mrt:as4-header".into() } else { "mrt:as2-header".into() });
    if junk > 0 {
        counters.push("mrt:appended-to-nonempty-buffer".into());
    }
    Verdict::Held { hash: Some(fnv64(&hash_in)), counters }
}

// ------------------------------------------------------------------ TABLE_DUMP_V2 (RFC 6396 §4.3)

#[derive(Clone, Debug)]
struct TdPeer {
    id: Ipv4Addr,
    addr: IpAddr,
    asn: u32,
}

#[derive(Clone)]
struct TdEntry {
    peer: usize,
    originated: u32,
    nexthop: Option<Nexthop>,
    attrs: Arc<Vec<Attribute>>,
}

#[derive(Clone)]
struct TdRib {
    v6: bool,
    seq: u32,
    prefix: Nlri,
    entries: Vec<TdEntry>,
}

struct PeerRead {
    typ: u8,
    id: [u8; 4],
    addr: Vec<u8>,
    asn: u32,
}

fn td_fail(clause: &str, what: &str, obs: String, b: &[u8]) -> Verdict {
    fail(format!("C19/tabledump/{}", clause), what, obs, b)
}

fn one_td_record<'a>(b: &'a [u8], ts: u32, subtype: u16, kind: &str) -> Result<&'a [u8], Verdict> {
    let recs = match read_mrt(b) {
        Ok(r) => r,
        Err((c, d)) => return Err(td_fail(&format!("{}/{}", kind, c), "MRT common header length does not delimit the record", d, b)),
    };
    if recs.len() != 1 {
        return Err(td_fail(&format!("{}/record-count", kind), "one record expected", format!("{} records", recs.len()), b));
    }
    let r = &recs[0];
    if r.typ != 13 || r.subtype != subtype {
        return Err(td_fail(&format!("{}/type", kind), "record is not the TABLE_DUMP_V2 subtype asked for", format!("type {} subtype {} expected 13/{}", r.typ, r.subtype, subtype), b));
    }
    if r.ts != ts {
        return Err(td_fail(&format!("{}/timestamp", kind), "timestamp differs from the one given", format!("{} expected {}", r.ts, ts), b));
    }
    Ok(r.body)
}

/// PEER_INDEX_TABLE: collector id(4) view-name-len(2) name peer-count(2) then
/// per peer: type(1: bit0 = IPv6, bit1 = AS4) bgp-id(4) address(4|16) AS(2|4).
fn judge_peer_table(router_id: Ipv4Addr, peers: &[TdPeer], ts: u32, junk: usize) -> (Verdict, Vec<PeerRead>) {
    let rec = mrt::TableDumpRecord::PeerIndexTable {
        router_id,
        peers: peers.iter().map(|p| mrt::PeerEntry { bgp_id: p.id, addr: p.addr, asn: p.asn }).collect(),
    };
    let all = match guard(|| {
        let mut buf = BytesMut::new();
        buf.extend_from_slice(&vec![0xA5u8; junk]);
        mrt::encode_table_dump(ts, &rec, &mut buf).map(|_| buf.to_vec())
    }) {
        Ok(Ok(b)) => b,
        Ok(Err(e)) => return (td_fail("peer-index/encode-error", "encode_table_dump failed", format!("{:?}", e), &[]), vec![]),
        Err(p) => return (fail(format!("C19/panic/{}:{}", p.location, panic_class(&p.message)), "encode_table_dump panicked", p.message, &[]), vec![]),
    };
    if all[..junk].iter().any(|b| *b != 0xA5) {
        return (td_fail("peer-index/clobbers-buffer", "bytes already in the buffer were modified", String::new(), &all), vec![]);
    }
    let b = &all[junk..];
    let body = match one_td_record(b, ts, 1, "peer-index") {
        Ok(x) => x,
        Err(v) => return (v, vec![]),
    };
    let bad = |c: &str, w: &str, o: String| (td_fail(&format!("peer-index/{}", c), w, o, b), vec![]);
    if body.len() < 8 {
        return bad("short", "PEER_INDEX_TABLE shorter than its fixed fields", String::new());
    }
    if body[..4] != router_id.octets() {
        return bad("collector-id", "collector BGP ID differs", hex(&body[..4]));
    }
    let vlen = u16::from_be_bytes([body[4], body[5]]) as usize;
    if body.len() < 8 + vlen {
        return bad("view-name", "view name overruns the record", format!("{}", vlen));
    }
    let o = 6 + vlen;
    let count = u16::from_be_bytes([body[o], body[o + 1]]) as usize;
    let mut o = o + 2;
    let mut read = Vec::new();
    while o < body.len() {
        let typ = body[o];
        let alen = if typ & 1 != 0 { 16 } else { 4 };
        let aslen = if typ & 2 != 0 { 4 } else { 2 };
        if o + 1 + 4 + alen + aslen > body.len() {
            return bad("peer-entry-overrun", "a peer entry overruns the record", format!("entry {} type {:02x}", read.len(), typ));
        }
        let mut id = [0u8; 4];
        id.copy_from_slice(&body[o + 1..o + 5]);
        let addr = body[o + 5..o + 5 + alen].to_vec();
        let a = &body[o + 5 + alen..o + 5 + alen + aslen];
        let asn = if aslen == 4 { u32::from_be_bytes([a[0], a[1], a[2], a[3]]) } else { u16::from_be_bytes([a[0], a[1]]) as u32 };
        read.push(PeerRead { typ, id, addr, asn });
        o += 1 + 4 + alen + aslen;
    }
    if count != read.len() || count != peers.len() {
        return bad("peer-count", "peer count field differs from the peers written", format!("count field {} entries in record {} peers given {}", count, read.len(), peers.len()));
    }
    for (i, (r, p)) in read.iter().zip(peers).enumerate() {
        if (r.typ & 1 != 0) != p.addr.is_ipv6() {
            return bad("type-bits", "peer type bit 0 does not match the address family", format!("peer {} type {:02x} addr {}", i, r.typ, p.addr));
        }
        if r.addr != ipn(&p.addr) || r.id != p.id.octets() || r.asn != p.asn {
            return bad("peer-differs", "peer entry differs from the peer given", format!("peer {}: id {} addr {} as {} expected {:?}", i, hex(&r.id), hex(&r.addr), r.asn, p));
        }
    }
    let mut counters = vec!["td:peer-index-tables".to_string()];
    if peers.iter().any(|p| p.addr.is_ipv6()) && peers.iter().any(|p| p.addr.is_ipv4()) {
        counters.push("td:peer-table-mixed-families".into());
    }
    (Verdict::Held { hash: Some(fnv64(b)), counters }, read)
}

/// Path attribute TLVs: flags(1) code(1) length(1, or 2 if flag 0x10) value.
fn walk_attrs(b: &[u8]) -> Result<Vec<(u8, u8, &[u8], &[u8])>, String> {
    let mut out = Vec::new();
    let mut o = 0;
    while o < b.len() {
        if b.len() - o < 3 {
            return Err(format!("{} stray bytes at the end of the attribute block", b.len() - o));
        }
        let (flags, code) = (b[o], b[o + 1]);
        let (l, h) = if flags & 0x10 != 0 {
            if b.len() - o < 4 {
                return Err("extended-length attribute header overruns".into());
            }
            (u16::from_be_bytes([b[o + 2], b[o + 3]]) as usize, 4)
        } else {
            (b[o + 2] as usize, 3)
        };
        if o + h + l > b.len() {
            return Err(format!("attribute {} length {} overruns the attribute block", code, l));
        }
        out.push((flags, code, &b[o + h..o + h + l], &b[o..o + h + l]));
        o += h + l;
    }
    Ok(out)
}

fn synth_update(attr_blob: &[u8], nlri: &[u8]) -> Option<Vec<u8>> {
    let total = 19 + 4 + attr_blob.len() + nlri.len();
    if total > 60000 {
        return None;
    }
    let mut v = vec![0xffu8; 16];
    v.extend_from_slice(&(total as u16).to_be_bytes());
    v.push(2);
    v.extend_from_slice(&[0, 0]);
    v.extend_from_slice(&(attr_blob.len() as u16).to_be_bytes());
    v.extend_from_slice(attr_blob);
    v.extend_from_slice(nlri);
    Some(v)
}

/// attributes (content) and NEXT_HOP as the repository's parser reads them
fn parse_attr_blob(ps: &mut Parsers, blob: &[u8], v4_prefix: Option<&[u8]>) -> Result<(String, Option<Nexthop>), String> {
    let pdu = synth_update(blob, v4_prefix.unwrap_or(&[])).ok_or("too-large")?;
    match ps.parse(&pdu, false, false) {
        Ok(ParsedMessage::Update(ParsedUpdate::Routes { reach, attrs, .. })) => Ok((attrs_canon(&attrs), reach.and_then(|r| r.nexthop))),
        Ok(ParsedMessage::Update(ParsedUpdate::EndOfRib(_))) => Ok((String::new(), None)),
        Ok(_) => Err("not-an-update".into()),
        Err((c, d)) => Err(format!("{}: {}", c, d)),
    }
}

fn nh_bytes(n: &Nexthop) -> Vec<u8> {
    match n {
        Nexthop::V4(a) => a.octets().to_vec(),
        Nexthop::V6(a) => a.octets().to_vec(),
        Nexthop::V6LinkLocal(g, l) => {
            let mut v = g.octets().to_vec();
            v.extend_from_slice(&l.octets());
            v
        }
    }
}

fn prefix_bytes(n: &Nlri) -> (u8, Vec<u8>) {
    match n {
        Nlri::V4(p) => (p.mask, p.addr.octets()[..(p.mask as usize).div_ceil(8)].to_vec()),
        Nlri::V6(p) => (p.mask, p.addr.octets()[..(p.mask as usize).div_ceil(8)].to_vec()),
        _ => (0, vec![]),
    }
}

/// RIB_IPV4_UNICAST (2) / RIB_IPV6_UNICAST (4): seq(4) prefix-len(1) prefix
/// entry-count(2) then per entry: peer-index(2) originated(4) attr-len(2) attrs.
fn judge_rib(ps: &mut Parsers, rib: &TdRib, peers: &[TdPeer], table: &[PeerRead], ts: u32, junk: usize) -> Verdict {
    // the attributes must be something the repo's parser reads back unchanged (else C04's business)
    for e in &rib.entries {
        let mut blob = Vec::new();
        for a in e.attrs.iter() {
            blob.extend_from_slice(&a.encode_to_bytes());
        }
        match parse_attr_blob(ps, &blob, None) {
            Ok((c, _)) if c == attrs_canon(&e.attrs) => {}
            _ => return Verdict::Unjudged("attrs-not-bgp-stable".into()),
        }
    }
    let entries: Vec<mrt::RibEntry> = rib.entries.iter().map(|e| mrt::RibEntry { peer_index: e.peer as u16, originated: e.originated, nexthop: e.nexthop, attrs: e.attrs.clone() }).collect();
    let rec = if rib.v6 {
        mrt::TableDumpRecord::RibIpv6Unicast { seq: rib.seq, prefix: rib.prefix.clone(), entries }
    } else {
        mrt::TableDumpRecord::RibIpv4Unicast { seq: rib.seq, prefix: rib.prefix.clone(), entries }
    };
    let all = match guard(|| {
        let mut buf = BytesMut::new();
        buf.extend_from_slice(&vec![0xA5u8; junk]);
        mrt::encode_table_dump(ts, &rec, &mut buf).map(|_| buf.to_vec())
    }) {
        Ok(Ok(b)) => b,
        Ok(Err(e)) => return td_fail("rib/encode-error", "encode_table_dump failed", format!("{:?}", e), &[]),
        Err(p) => return fail(format!("C19/panic/{}:{}", p.location, panic_class(&p.message)), "encode_table_dump panicked", p.message, &[]),
    };
    if all[..junk].iter().any(|b| *b != 0xA5) {
        return td_fail("rib/clobbers-buffer", "bytes already in the buffer were modified", String::new(), &all);
    }
    let b = &all[junk..];
    let body = match one_td_record(b, ts, if rib.v6 { 4 } else { 2 }, "rib") {
        Ok(x) => x,
        Err(v) => return v,
    };
    let bad = |c: &str, w: &str, o: String| td_fail(&format!("rib/{}", c), w, o, b);
    if body.len() < 7 {
        return bad("short", "RIB record shorter than its fixed fields", String::new());
    }
    let seq = u32::from_be_bytes([body[0], body[1], body[2], body[3]]);
    if seq != rib.seq {
        return bad("sequence", "sequence number differs from the one given", format!("{} expected {}", seq, rib.seq));
    }
    let plen = body[4];
    let maxbits = if rib.v6 { 128 } else { 32 };
    if plen > maxbits {
        return bad("subtype-afi", "prefix length exceeds the address size of the subtype's AFI", format!("{} bits", plen));
    }
    let pb = (plen as usize).div_ceil(8);
    if body.len() < 5 + pb + 2 {
        return bad("prefix-overrun", "prefix overruns the record", String::new());
    }
    let (wl, wb) = prefix_bytes(&rib.prefix);
    if plen != wl || body[5..5 + pb] != wb[..] {
        return bad("prefix", "prefix differs from the one given", format!("{}/{} expected {}", hex(&body[5..5 + pb]), plen, rib.prefix));
    }
    let prefix_wire = &body[4..5 + pb];
    let mut o = 5 + pb;
    let count = u16::from_be_bytes([body[o], body[o + 1]]) as usize;
    o += 2;
    let mut n = 0usize;
    while o < body.len() {
        if body.len() - o < 8 {
            return bad("entry-overrun", "a RIB entry header overruns the record", format!("entry {}", n));
        }
        let idx = u16::from_be_bytes([body[o], body[o + 1]]) as usize;
        let orig = u32::from_be_bytes([body[o + 2], body[o + 3], body[o + 4], body[o + 5]]);
        let alen = u16::from_be_bytes([body[o + 6], body[o + 7]]) as usize;
        if o + 8 + alen > body.len() {
            return bad("attr-length", "attribute length of a RIB entry overruns the record", format!("entry {} attr length {}", n, alen));
        }
        let blob = &body[o + 8..o + 8 + alen];
        o += 8 + alen;
        let Some(want) = rib.entries.get(n) else {
            return bad("entry-count", "more RIB entries in the record than were given", format!("count field {} given {}", count, rib.entries.len()));
        };
        if idx >= table.len() {
            return bad("peer-index-range", "peer index is not below the peer count of the PEER_INDEX_TABLE", format!("entry {} index {} peers {}", n, idx, table.len()));
        }
        let (tp, wp) = (&table[idx], &peers[want.peer]);
        if idx != want.peer || tp.addr != ipn(&wp.addr) || tp.asn != wp.asn || tp.id != wp.id.octets() {
            return bad("peer-index-wrong-peer", "peer index does not point at the peer the path was learned from", format!("entry {} index {} expected {} ({:?})", n, idx, want.peer, wp));
        }
        if orig != want.originated {
            return bad("originated", "originated time differs", format!("entry {}: {} expected {}", n, orig, want.originated));
        }
        let tlvs = match walk_attrs(blob) {
            Ok(t) => t,
            Err(why) => return bad("attr-length", "attribute block of a RIB entry is not a sequence of well-framed attributes", format!("entry {}: {}", n, why)),
        };
        // RFC 6396 §4.3.4: MP_REACH_NLRI carries only next-hop length + next hop
        let mut rest = Vec::new();
        let mut mp_nh: Option<Vec<u8>> = None;
        for (_f, code, val, whole) in &tlvs {
            if *code == Attribute::MP_REACH {
                if val.is_empty() || val.len() != 1 + val[0] as usize || mp_nh.is_some() {
                    return bad("mp-reach-form", "MP_REACH_NLRI in a RIB entry is not the abbreviated next-hop-only form", format!("entry {}: {}", n, hex(val)));
                }
                mp_nh = Some(val[1..].to_vec());
            } else {
                rest.extend_from_slice(whole);
            }
        }
        let (got_attrs, got_nh) = match parse_attr_blob(ps, &rest, if rib.v6 { None } else { Some(prefix_wire) }) {
            Ok(x) => x,
            Err(why) => return bad("attrs-unparsable", "attributes of a RIB entry are not readable by the repository's parser", format!("entry {}: {}", n, why)),
        };
        let want_attrs = attrs_canon(&want.attrs);
        if got_attrs != want_attrs {
            return bad("attrs-differ", "attributes of a RIB entry differ from the path's attributes", format!("entry {}: got [{}] want [{}]", n, short(&got_attrs, 400), short(&want_attrs, 400)));
        }
        let got_nh_bytes = mp_nh.or(got_nh.map(|n| nh_bytes(&n)));
        let want_nh_bytes = want.nexthop.as_ref().map(nh_bytes);
        if got_nh_bytes != want_nh_bytes {
            let cls = if !rib.v6 && !matches!(want.nexthop, Some(Nexthop::V4(_)) | None) { "nexthop-differs/ipv4-prefix-v6-nexthop" } else { "nexthop-differs" };
            return bad(cls, "next hop of a RIB entry differs from the path's next hop", format!("entry {}: got {:?} want {}", n, got_nh_bytes.map(|x| hex(&x)), nh_str(&want.nexthop)));
        }
        n += 1;
    }
    if count != n || n != rib.entries.len() {
        return bad("entry-count", "entry count field differs from the entries written", format!("count field {} entries in record {} given {}", count, n, rib.entries.len()));
    }
    let mut counters = vec![if rib.v6 { "td:rib-ipv6-unicast".to_string() } else { "td:rib-ipv4-unicast".to_string() }];
    if rib.entries.len() > 1 {
        counters.push("td:rib-multi-entry".into());
    }
    if rib.entries.iter().any(|e| e.peer > 0) {
        counters.push("td:rib-nonzero-peer-index".into());
    }
    Verdict::Held { hash: Some(fnv64(b)), counters }
}

// ------------------------------------------------------------------ shrinking + reporting

/// Reduce a failing routing event while the same signature keeps failing.
fn shrink_ev<F: FnMut(&Ev) -> bool>(ev: &Ev, mut still_fails: F) -> Ev {
    let mut cur = ev.clone();
    // fewest entries (prefix of the list) that still fail
    if cur.entries.len() > 1 {
        let (mut lo, mut hi) = (1usize, cur.entries.len());
        while lo < hi {
            let mid = (lo + hi) / 2;
            let mut c = cur.clone();
            c.entries.truncate(mid);
            if still_fails(&c) {
                hi = mid;
            } else {
                lo = mid + 1;
            }
        }
        let mut c = cur.clone();
        c.entries.truncate(lo);
        if still_fails(&c) {
            cur = c;
        }
    }
    // drop optional attributes one at a time
    let mut i = cur.attrs.len();
    while i > 0 {
        i -= 1;
        let code = cur.attrs[i].code();
        if code == Attribute::ORIGIN || code == Attribute::AS_PATH {
            continue;
        }
        let mut c = cur.clone();
        let mut a = (*c.attrs).clone();
        a.remove(i);
        c.attrs = Arc::new(a);
        if still_fails(&c) {
            cur = c;
        }
    }
    if cur.addpath {
        let mut c = cur.clone();
        c.addpath = false;
        for e in c.entries.iter_mut() {
            e.path_id = 0;
        }
        if still_fails(&c) {
            cur = c;
        }
    }
    cur
}

fn record(rep: &mut Report, v: Verdict, input: &dyn Fn() -> Json, sample_tag: &str) {
    rep.eval();
    match v {
        Verdict::Held { hash, counters } => {
            for c in &counters {
                rep.count(c);
            }
            if let Some(h) = hash {
                rep.nontrivial(h);
                rep.count("judged:embedded-content-compared");
                if rep.want_sample() && rep.evaluations % 211 == 7 {
                    rep.sample(Json::obj(vec![("kind", Json::s(sample_tag)), ("input", input()), ("verdict", Json::s("held"))]));
                }
            } else {
                rep.count("judged:structure-only");
            }
        }
        Verdict::Unjudged(why) => {
            // keep counter keys few: strip the tail after the second '/'
            let key: Vec<&str> = why.splitn(3, '/').collect();
            rep.count(&format!("unjudged:{}", key[..key.len().min(2)].join("/")));
            rep.count("unjudged:total");
            if rep.params.flag("detail") {
                rep.count(&format!("detail:{}", why));
            }
        }
        Verdict::Fail(f) => {
            if !rep.has_violation(&f.sig) {
                let w = Json::obj(vec![
                    ("input", input()),
                    ("observed", Json::s(f.observed.clone())),
                    ("emitted_bytes", bytes_json(&f.bytes)),
                    ("seed", Json::Int(rep.params.seed as i128)),
                ]);
                rep.violation(&f.sig, &f.what, w);
            } else {
                rep.violation(&f.sig, &f.what, Json::Null);
            }
            rep.count("alarms");
        }
    }
}

fn peer_json(p: &PeerIn) -> Json {
    Json::s(format!("{:?}", p))
}

fn bmp_ev_json(e: &BmpEv) -> Json {
    match e {
        BmpEv::Initiation(t) => Json::obj(vec![("bmp", Json::s("initiation")), ("tlvs", Json::s(format!("{:?}", t)))]),
        BmpEv::PeerUp { peer, local, lport, rport, sent, recv } => Json::obj(vec![
            ("bmp", Json::s("peer-up")),
            ("peer", peer_json(peer)),
            ("local", Json::s(format!("{}:{} remote port {}", local, lport, rport))),
            ("sent_open", Json::s(open_str(sent))),
            ("received_open", Json::s(open_str(recv))),
        ]),
        BmpEv::PeerDown { peer, reason } => Json::obj(vec![
            ("bmp", Json::s("peer-down")),
            ("peer", peer_json(peer)),
            (
                "reason",
                Json::s(match reason {
                    DownIn::LocalNotification(n) => format!("1 local notification {}", notif_str(n)),
                    DownIn::LocalFsm(c) => format!("2 local fsm {}", c),
                    DownIn::RemoteNotification(n) => format!("3 remote notification {}", notif_str(n)),
                    DownIn::RemoteUnexpected => "4".into(),
                    DownIn::Deconfigured => "5".into(),
                }),
            ),
        ]),
        BmpEv::Route { peer, ev } => Json::obj(vec![("bmp", Json::s("route-monitoring")), ("peer", peer_json(peer)), ("update", ev_json(ev))]),
        BmpEv::Bare(t) => Json::obj(vec![("bmp", Json::s(bmp_type_name(*t)))]),
    }
}

fn mrt_ev_json(e: &MrtEv) -> Json {
    Json::obj(vec![
        ("mrt", Json::s("bgp4mp")),
        ("header", Json::s(format!("{:?}", e.hdr))),
        (
            "body",
            match &e.body {
                MrtBody::Update(ev) => ev_json(ev),
                MrtBody::Keepalive => Json::s("keepalive"),
                MrtBody::Open(o) => Json::s(open_str(o)),
                MrtBody::Notification(n) => Json::s(notif_str(n)),
            },
        ),
    ])
}

// ------------------------------------------------------------------ workloads

/// what region of the input space an event lies in (counted whatever the verdict)
fn count_input(rep: &mut Report, pre: &str, ev: &Ev) {
    rep.count(&format!("in:{}-route-events", pre));
    let nlri_bytes: usize = ev.entries.iter().map(|e| e.nlri.encode_to_bytes().len() + if ev.addpath { 4 } else { 0 }).sum();
    if nlri_bytes > 4096 {
        rep.count(&format!("in:{}-nlri-exceed-4096-frame", pre));
    }
    if nlri_bytes > 65535 {
        rep.count(&format!("in:{}-nlri-exceed-65535-frame", pre));
    }
    if ev.attr_bytes() > 4096 {
        rep.count(&format!("in:{}-attrs-exceed-4096-frame", pre));
    }
    if ev.kind == Kind::Reach && ev.family == Family::IPV4 && ev.v6_nexthop() {
        rep.count(&format!("in:{}-ipv4-unicast-v6-nexthop", pre));
    }
    if ev.addpath {
        rep.count(&format!("in:{}-addpath", pre));
    }
}

fn junk_len(rng: &mut Rng) -> usize {
    if rng.bool() { 0 } else { rng.range(1, 97) as usize }
}

fn run_bmp(rep: &mut Report, ps: &mut Parsers, rng: &mut Rng, events: u64) {
    let mut done = 0u64;
    while done < events && rep.in_budget() {
        // one monitoring session = one codec instance, as the daemon's Framed<_, BmpCodec>
        let mut codec = bmp::BmpCodec::new();
        let n = rng.range(5, 40);
        for _ in 0..n {
            let e = gen_bmp_ev(rng);
            let junk = junk_len(rng);
            let mut v = judge_bmp(ps, &mut codec, &e, junk);
            let mut shown = e.clone();
            if let (Verdict::Fail(f), BmpEv::Route { peer, ev }) = (&v, &e) {
                if !rep.has_violation(&f.sig) {
                    let sig = f.sig.clone();
                    let small = shrink_ev(ev, |c| {
                        let mut fresh = bmp::BmpCodec::new();
                        matches!(judge_bmp(ps, &mut fresh, &BmpEv::Route { peer: peer.clone(), ev: c.clone() }, 0), Verdict::Fail(g) if g.sig == sig)
                    });
                    shown = BmpEv::Route { peer: peer.clone(), ev: small };
                    let mut fresh = bmp::BmpCodec::new();
                    let v2 = judge_bmp(ps, &mut fresh, &shown, 0);
                    if matches!(&v2, Verdict::Fail(g) if g.sig == sig) {
                        v = v2;
                    } else {
                        shown = e.clone();
                    }
                }
            }
            if let BmpEv::Route { ev, .. } = &e {
                rep.max("nlri-per-event", ev.entries.len() as u64);
                count_input(rep, "bmp", ev);
            }
            record(rep, v, &|| bmp_ev_json(&shown), "bmp");
            done += 1;
        }
        rep.count("bmp:sessions");
    }
}

fn run_mrt(rep: &mut Report, ps: &mut Parsers, rng: &mut Rng, events: u64) {
    let mut done = 0u64;
    while done < events && rep.in_budget() {
        let mut codec = mrt::MrtCodec::new();
        let n = rng.range(5, 40);
        for _ in 0..n {
            let e = gen_mrt_ev(rng);
            let junk = junk_len(rng);
            let mut v = judge_mrt(ps, &mut codec, &e, junk);
            let mut shown = e.clone();
            if let (Verdict::Fail(f), MrtBody::Update(ev)) = (&v, &e.body) {
                if !rep.has_violation(&f.sig) {
                    let sig = f.sig.clone();
                    let small = shrink_ev(ev, |c| {
                        let mut fresh = mrt::MrtCodec::new();
                        matches!(judge_mrt(ps, &mut fresh, &MrtEv { hdr: e.hdr.clone(), body: MrtBody::Update(c.clone()) }, 0), Verdict::Fail(g) if g.sig == sig)
                    });
                    shown = MrtEv { hdr: e.hdr.clone(), body: MrtBody::Update(small) };
                    let mut fresh = mrt::MrtCodec::new();
                    let v2 = judge_mrt(ps, &mut fresh, &shown, 0);
                    if matches!(&v2, Verdict::Fail(g) if g.sig == sig) {
                        v = v2;
                    } else {
                        shown = e.clone();
                    }
                }
            }
            if let MrtBody::Update(ev) = &e.body {
                count_input(rep, "mrt", ev);
            }
            rep.count(if e.hdr.as4 { "in:mrt-as4-header" } else { "in:mrt-as2-header" });
            record(rep, v, &|| mrt_ev_json(&shown), "mrt");
            done += 1;
        }
        rep.count("mrt:sessions");
    }
}

fn gen_td_attrs(rng: &mut Rng) -> Arc<Vec<Attribute>> {
    let size = if rng.chance(1, 12) { AttrSize::Extended } else { AttrSize::Normal };
    Arc::new(gen_attrs(rng, size, false))
}

fn run_td(rep: &mut Report, ps: &mut Parsers, rng: &mut Rng, dumps: u64) {
    let mut done = 0u64;
    while done < dumps && rep.in_budget() {
        done += 1;
        let npeers = match rng.below(10) {
            0..=3 => rng.range(1, 5),
            4..=7 => rng.range(6, 60),
            _ => rng.range(200, 1200),
        } as usize;
        let peers: Vec<TdPeer> = (0..npeers)
            .map(|_| TdPeer {
                id: rand_v4(rng),
                addr: if rng.chance(2, 5) { IpAddr::V6(rand_v6(rng)) } else { IpAddr::V4(rand_v4(rng)) },
                asn: if rng.chance(1, 3) { rng.range(1, 65534) as u32 } else { rng.next_u32() | 0x10000 },
            })
            .collect();
        let ts = rng.next_u32();
        let router_id = rand_v4(rng);
        rep.max("td-peers", npeers as u64);
        rep.count_n("td:peers-written", npeers as u64);
        let (v, table) = judge_peer_table(router_id, &peers, ts, junk_len(rng));
        let ok = matches!(v, Verdict::Held { .. });
        let pj = || Json::obj(vec![("tabledump", Json::s("peer-index-table")), ("router_id", Json::s(router_id.to_string())), ("n_peers", Json::Int(peers.len() as i128)), ("peers_first", Json::strs(peers.iter().take(6).map(|p| format!("{:?}", p))))]);
        record(rep, v, &pj, "tabledump");
        if !ok {
            continue;
        }
        let nribs = rng.range(1, 16);
        let mut seq4 = rng.next_u32() % 1000;
        let mut seq6 = 0u32;
        // a small pool of attribute sets shared between entries, as in a real RIB
        let pool: Vec<Arc<Vec<Attribute>>> = (0..6).map(|_| gen_td_attrs(rng)).collect();
        for _ in 0..nribs {
            let v6 = rng.chance(2, 5);
            let nent = match rng.below(20) {
                0..=7 => 1,
                8..=16 => rng.range(2, 10),
                _ => rng.range(50, 400),
            } as usize;
            let entries: Vec<TdEntry> = (0..nent)
                .map(|_| TdEntry {
                    peer: rng.usize(npeers),
                    originated: rng.next_u32(),
                    nexthop: if v6 {
                        match rng.below(20) {
                            0 => None,
                            1 => Some(Nexthop::V4(rand_v4(rng))),
                            2..=5 => Some(Nexthop::V6LinkLocal(rand_v6(rng), rand_ll(rng))),
                            _ => Some(Nexthop::V6(rand_v6(rng))),
                        }
                    } else {
                        match rng.below(20) {
                            0 => None,
                            1..=2 => Some(Nexthop::V6(rand_v6(rng))),
                            _ => Some(Nexthop::V4(rand_v4(rng))),
                        }
                    },
                    attrs: if rng.chance(3, 4) { rng.pick(&pool).clone() } else { gen_td_attrs(rng) },
                })
                .collect();
            let seq = if v6 {
                seq6 += 1;
                seq6 - 1
            } else {
                seq4 += 1;
                seq4 - 1
            };
            let rib = TdRib { v6, seq, prefix: if v6 { Nlri::V6(v6net(rng)) } else { Nlri::V4(v4net(rng)) }, entries };
            rep.max("rib-entries", nent as u64);
            rep.count_n("td:rib-entries-written", nent as u64);
            let v = judge_rib(ps, &rib, &peers, &table, ts, junk_len(rng));
            let rj = || {
                Json::obj(vec![
                    ("tabledump", Json::s(if rib.v6 { "rib-ipv6-unicast" } else { "rib-ipv4-unicast" })),
                    ("seq", Json::Int(rib.seq as i128)),
                    ("prefix", Json::s(rib.prefix.to_string())),
                    ("n_peers", Json::Int(peers.len() as i128)),
                    ("n_entries", Json::Int(rib.entries.len() as i128)),
                    (
                        "entries_first",
                        Json::strs(rib.entries.iter().take(4).map(|e| format!("peer#{} {:?} orig={} nh={} attrs=[{}]", e.peer, peers[e.peer], e.originated, nh_str(&e.nexthop), short(&attrs_canon(&e.attrs), 300)))),
                    ),
                ])
            };
            record(rep, v, &rj, "tabledump");
        }
        rep.count("td:dumps");
    }
}

fn main() {
    let params = Params::from_args_env();
    let rule = "case = one monitoring event pushed through BmpCodec / MrtCodec / encode_table_dump and read back by the independent RFC 7854 / RFC 6396 readers; non-trivial = the record embeds at least one BGP PDU (OPEN / UPDATE / NOTIFICATION) or RIB entry that was parsed back with the repository's parser and compared with the monitored content; distinct by FNV-64 of the emitted bytes (wall-clock MRT timestamp excluded)";
    let mut rep = Report::new("C19", &params);
    rep.extra("rule", Json::s(rule));
    let mut ps = Parsers::new();
    let mut rng = Rng::new(params.seed ^ 0xC19_0000);
    let part = params.get("part").unwrap_or("all").to_string();
    if part == "all" || part == "bmp" {
        run_bmp(&mut rep, &mut ps, &mut rng.fork(), params.n(9_000, 300_000));
    }
    if part == "all" || part == "mrt" {
        run_mrt(&mut rep, &mut ps, &mut rng.fork(), params.n(6_000, 200_000));
    }
    if part == "all" || part == "td" {
        run_td(&mut rep, &mut ps, &mut rng.fork(), params.n(250, 8_000));
    }
    if rep.evaluations < 200 && params.scale >= 1.0 {
        rep.inconclusive("fewer than 200 evaluations");
    }
    std::process::exit(rep.finish());
}
