//! C06 — the RIB's change stream reproduces the RIB.
//!
//! Workload: histories of protocol events (session up / down with per-session
//! GR + LLGR configuration, UPDATE / WITHDRAW, restart- and LLGR-timer expiry,
//! End-of-RIB, next-hop reachability flips, selection deferral start / end) over
//! a small universe, translated into calls of the real `table::Table` in exactly
//! the order `daemon/src/table_manager.rs` + `daemon/src/event/mod.rs` +
//! `daemon/src/gr.rs` make them (one `Source` Arc per session *and family*, a
//! re-established session gets fresh Arcs with the same remote address,
//! `restale` on peer-down before the new Sources exist, `drop_stale` on EOR,
//! `restale_llgr` followed by `drop_no_llgr`, next-hop-invalid flag of an insert
//! derived from the set of unreachable next hops, deferral started on an empty
//! family only).
//!
//! Monitor: three kinds of consumers fold every `InsertResult` / `NlriChange`
//! the way `event/export.rs::process_nlri_change` does (best-only: skip when
//! `!best_changed`, keyed by `dest_id`; add-path top-N for N in {2,3} and "all":
//! skip when `!any_changed`, withdraw sent ids that left the top N, (re)send
//! when not yet sent or `replaced_path_id` matches).  After every Table call
//! each folded view is compared with ground truth recomputed through the
//! table's own read accessors `collect_loc_rib_paths[_limited]`.
use rbgp_verif::common::*;
use rustybgp_packet::bgp::{Family, Ipv4Net, Ipv6Net, Nexthop};
use rustybgp_packet::{Attribute, Nlri};
use rustybgp_table as table;
use std::collections::{BTreeMap, BTreeSet, HashMap, HashSet};
use std::net::{IpAddr, Ipv4Addr, Ipv6Addr};
use std::sync::Arc;
use std::sync::atomic::AtomicU64;
use table::{InsertResult, NlriChange, Path, PeerRole, Source, Table};

const FAM: [Family; 2] = [Family::IPV4, Family::IPV6];
const FAM_NAME: [&str; 2] = ["v4", "v6"];
const NPEER: usize = 3;
const MAX_PFX: usize = 400;
/// prefix index inside a family's universe
type Px = u16;
/// per-family prefix limit of peer 2 (the peer without GR)
const PEER2_LIMIT: u32 = 3;
const NO_LLGR: u32 = 0xffff_0007;
const LLGR_STALE: u32 = 0xffff_0006;

fn fam_idx(f: Family) -> Option<usize> {
    FAM.iter().position(|x| *x == f)
}

// ------------------------------------------------------------------ universe

struct Env {
    /// base attribute sets, shared as the same Arc on purpose
    attrs: Vec<Arc<Vec<Attribute>>>,
    /// next-hop pool: nh_a (V4), then three IPv6 next hops that share ONE global address:
    /// nh_b plain V6(G), nh_c V6LinkLocal(G, fe80::1), nh_d V6LinkLocal(G, fe80::2).
    /// nh_c / nh_d are used in the IPv6 family only (32-byte MP_REACH next hop).
    nhs: [Nexthop; 4],
    pfx: [Vec<Nlri>; 2],
    pfx_index: [HashMap<Nlri, Px>; 2],
    addrs: [IpAddr; NPEER],
    roles: [PeerRole; NPEER],
    asns: [u32; NPEER],
    rids: [Ipv4Addr; NPEER],
}

fn as_path(asns: &[u32]) -> Attribute {
    let mut b = vec![2u8, asns.len() as u8];
    for a in asns {
        b.extend_from_slice(&a.to_be_bytes());
    }
    Attribute::new_with_bin(Attribute::AS_PATH, b).unwrap()
}

fn community(c: u32) -> Attribute {
    Attribute::new_with_bin(Attribute::COMMUNITY, c.to_be_bytes().to_vec()).unwrap()
}

impl Env {
    fn new() -> Env {
        let origin = Attribute::new_with_value(Attribute::ORIGIN, 0).unwrap();
        let lp = |v| Attribute::new_with_value(Attribute::LOCAL_PREF, v).unwrap();
        let attrs = vec![
            // A0: best rank
            Arc::new(vec![origin.clone(), as_path(&[65100]), lp(200)]),
            // A1: middle
            Arc::new(vec![origin.clone(), as_path(&[65100]), lp(100)]),
            // A2: longer AS path
            Arc::new(vec![origin.clone(), as_path(&[65100, 65101]), lp(100)]),
            // A3: rank of A1, carries NO_LLGR
            Arc::new(vec![origin.clone(), as_path(&[65100]), lp(100), community(NO_LLGR)]),
            // A4: rank of A1, carries LLGR_STALE (propagated by another helper)
            Arc::new(vec![origin.clone(), as_path(&[65100]), lp(100), community(LLGR_STALE)]),
        ];
        let mut p4 = Vec::new();
        let mut p6 = Vec::new();
        for i in 0..MAX_PFX as u16 {
            p4.push(Nlri::V4(Ipv4Net {
                addr: Ipv4Addr::new(10, (i >> 8) as u8 + 1, (i & 255) as u8, 0),
                mask: 24,
            }));
            p6.push(Nlri::V6(Ipv6Net {
                addr: Ipv6Addr::new(0x2001, 0xdb8, i + 1, 0, 0, 0, 0, 0),
                mask: 48,
            }));
        }
        let index = |v: &Vec<Nlri>| v.iter().enumerate().map(|(i, n)| (n.clone(), i as Px)).collect::<HashMap<Nlri, Px>>();
        let pfx_index = [index(&p4), index(&p6)];
        Env {
            attrs,
            nhs: [
                Nexthop::V4(Ipv4Addr::new(192, 0, 2, 1)),
                Nexthop::V6(Ipv6Addr::new(0x2001, 0xdb8, 0xffff, 0, 0, 0, 0, 2)),
                Nexthop::V6LinkLocal(Ipv6Addr::new(0x2001, 0xdb8, 0xffff, 0, 0, 0, 0, 2), Ipv6Addr::new(0xfe80, 0, 0, 0, 0, 0, 0, 1)),
                Nexthop::V6LinkLocal(Ipv6Addr::new(0x2001, 0xdb8, 0xffff, 0, 0, 0, 0, 2), Ipv6Addr::new(0xfe80, 0, 0, 0, 0, 0, 0, 2)),
            ],
            pfx: [p4, p6],
            pfx_index,
            addrs: [
                IpAddr::V4(Ipv4Addr::new(198, 51, 100, 1)),
                IpAddr::V4(Ipv4Addr::new(198, 51, 100, 2)),
                IpAddr::V4(Ipv4Addr::new(198, 51, 100, 3)),
            ],
            roles: [PeerRole::Ebgp, PeerRole::Ebgp, PeerRole::Ibgp],
            asns: [65010, 65011, 65000],
            rids: [
                Ipv4Addr::new(1, 1, 1, 1),
                Ipv4Addr::new(2, 2, 2, 2),
                Ipv4Addr::new(3, 3, 3, 3),
            ],
        }
    }
    fn attr_name(&self, a: &Arc<Vec<Attribute>>) -> String {
        for (i, b) in self.attrs.iter().enumerate() {
            if Arc::ptr_eq(a, b) {
                return format!("A{}", i);
            }
        }
        for (i, b) in self.attrs.iter().enumerate() {
            if **a == **b {
                return format!("A{}'", i);
            }
        }
        "A?".into()
    }
    fn nh_name(&self, n: &Option<Nexthop>) -> String {
        match n {
            None => "nh-".into(),
            Some(n) => match self.nhs.iter().position(|x| x == n) {
                Some(i) => nh_label(i as u8).into(),
                None => "nh?".into(),
            },
        }
    }
}

fn nh_label(i: u8) -> &'static str {
    match i {
        0 => "nh_a",
        1 => "nh_b[G]",
        2 => "nh_c[G+ll1]",
        3 => "nh_d[G+ll2]",
        _ => "nh?",
    }
}

/// which next hops a family may use: the global + link-local ones are IPv6-family only
fn nh_ok(fam: u8, nh: u8) -> bool {
    nh < 2 || (fam == 1 && nh < 4)
}

// ------------------------------------------------------------------ operations (protocol events)

#[derive(Clone, Debug, PartialEq)]
enum Op {
    /// session established; gr / llgr = bit masks of families negotiated for GR / LLGR
    Up { peer: u8, gr: u8, llgr: u8 },
    /// session ended; graceful = GR / LLGR apply to this kind of disconnect
    Down { peer: u8, graceful: bool },
    /// UPDATE for one (prefix, remote path id); filtered = import policy rejected it
    Insert { peer: u8, fam: u8, pfx: Px, pid: u8, attr: u8, fresh: bool, nh: u8, filtered: bool },
    /// WITHDRAW
    Remove { peer: u8, fam: u8, pfx: Px, pid: u8 },
    /// one UPDATE per prefix lo..lo+n (path id 0): fills whole blocks of destination ids
    BlockInsert { peer: u8, fam: u8, lo: Px, n: Px, attr: u8, nh: u8, filtered: bool },
    /// one WITHDRAW per prefix lo..lo+n (path id 0)
    BlockRemove { peer: u8, fam: u8, lo: Px, n: Px },
    /// withdraw (through the sessions that are up) every path of every prefix whose destination id
    /// lies in the 64-id block `word`; keep: 0 = none, 1 = the lowest id, 2 = the highest id of the block
    IdBlockRemove { fam: u8, word: u8, keep: u8 },
    GrTimer { peer: u8 },
    LlgrTimer { peer: u8, fam: u8 },
    Eor { peer: u8, fam: u8 },
    NhFlip { nh: u8, reachable: bool },
    StartDeferral { fam: u8 },
    EndDeferral { fam: u8 },
}

impl Op {
    fn enc(&self) -> String {
        let b = |x: bool| if x { 1 } else { 0 };
        match *self {
            Op::Up { peer, gr, llgr } => format!("U{}.{}.{}", peer, gr, llgr),
            Op::Down { peer, graceful } => format!("D{}.{}", peer, b(graceful)),
            Op::Insert { peer, fam, pfx, pid, attr, fresh, nh, filtered } => {
                format!("I{}.{}.{}.{}.{}.{}.{}.{}", peer, fam, pfx, pid, attr, b(fresh), nh, b(filtered))
            }
            Op::Remove { peer, fam, pfx, pid } => format!("R{}.{}.{}.{}", peer, fam, pfx, pid),
            Op::BlockInsert { peer, fam, lo, n, attr, nh, filtered } => format!("B{}.{}.{}.{}.{}.{}.{}", peer, fam, lo, n, attr, nh, b(filtered)),
            Op::BlockRemove { peer, fam, lo, n } => format!("W{}.{}.{}.{}", peer, fam, lo, n),
            Op::IdBlockRemove { fam, word, keep } => format!("X{}.{}.{}", fam, word, keep),
            Op::GrTimer { peer } => format!("G{}", peer),
            Op::LlgrTimer { peer, fam } => format!("L{}.{}", peer, fam),
            Op::Eor { peer, fam } => format!("E{}.{}", peer, fam),
            Op::NhFlip { nh, reachable } => format!("N{}.{}", nh, b(reachable)),
            Op::StartDeferral { fam } => format!("S{}", fam),
            Op::EndDeferral { fam } => format!("F{}", fam),
        }
    }
    fn dec(s: &str) -> Option<Op> {
        let (tag, rest) = s.split_at(1);
        let v: Vec<u16> = if rest.is_empty() {
            vec![]
        } else {
            rest.split('.').map(|x| x.parse::<u16>().ok()).collect::<Option<Vec<u16>>>()?
        };
        let g = |i: usize| v.get(i).and_then(|x| u8::try_from(*x).ok());
        let w = |i: usize| v.get(i).copied();
        Some(match tag {
            "U" => Op::Up { peer: g(0)?, gr: g(1)?, llgr: g(2)? },
            "D" => Op::Down { peer: g(0)?, graceful: g(1)? != 0 },
            "I" => Op::Insert {
                peer: g(0)?,
                fam: g(1)?,
                pfx: w(2)?,
                pid: g(3)?,
                attr: g(4)?,
                fresh: g(5)? != 0,
                nh: g(6)?,
                filtered: g(7)? != 0,
            },
            "R" => Op::Remove { peer: g(0)?, fam: g(1)?, pfx: w(2)?, pid: g(3)? },
            "B" => Op::BlockInsert { peer: g(0)?, fam: g(1)?, lo: w(2)?, n: w(3)?, attr: g(4)?, nh: g(5)?, filtered: g(6)? != 0 },
            "W" => Op::BlockRemove { peer: g(0)?, fam: g(1)?, lo: w(2)?, n: w(3)? },
            "X" => Op::IdBlockRemove { fam: g(0)?, word: g(1)?, keep: g(2)? },
            "G" => Op::GrTimer { peer: g(0)? },
            "L" => Op::LlgrTimer { peer: g(0)?, fam: g(1)? },
            "E" => Op::Eor { peer: g(0)?, fam: g(1)? },
            "N" => Op::NhFlip { nh: g(0)?, reachable: g(1)? != 0 },
            "S" => Op::StartDeferral { fam: g(0)? },
            "F" => Op::EndDeferral { fam: g(0)? },
            _ => return None,
        })
    }
    fn describe(&self) -> String {
        let fams = |m: u8| match m & 3 {
            0 => "-",
            1 => "v4",
            2 => "v6",
            _ => "v4+v6",
        };
        match *self {
            Op::Up { peer, gr, llgr } => format!("session-up peer{} (new Source Arcs) GR={} LLGR={}", peer, fams(gr), fams(llgr)),
            Op::Down { peer, graceful } => format!("session-down peer{} ({})", peer, if graceful { "GR/LLGR apply" } else { "hard: GR/LLGR do not apply" }),
            Op::Insert { peer, fam, pfx, pid, attr, fresh, nh, filtered } => format!(
                "update peer{} {} P{} path-id {} attr A{}{} {}{}",
                peer,
                FAM_NAME[fam as usize & 1],
                pfx,
                pid,
                attr,
                if fresh { "' (equal content, new Arc)" } else { " (shared Arc)" },
                nh_label(nh),
                if filtered { " FILTERED by import policy" } else { "" }
            ),
            Op::Remove { peer, fam, pfx, pid } => format!("withdraw peer{} {} P{} path-id {}", peer, FAM_NAME[fam as usize & 1], pfx, pid),
            Op::BlockInsert { peer, fam, lo, n, attr, nh, filtered } => format!(
                "update peer{} {} P{}..P{} ({} prefixes, one call each) path-id 0 attr A{} (shared Arc) {}{}",
                peer,
                FAM_NAME[fam as usize & 1],
                lo,
                lo + n.max(1) - 1,
                n,
                attr,
                nh_label(nh),
                if filtered { " FILTERED by import policy" } else { "" }
            ),
            Op::BlockRemove { peer, fam, lo, n } => format!("withdraw peer{} {} P{}..P{} path-id 0", peer, FAM_NAME[fam as usize & 1], lo, lo + n.max(1) - 1),
            Op::IdBlockRemove { fam, word, keep } => format!(
                "withdraw every path (of peers whose session is up) of the {} prefixes holding dest ids {}..{}{}",
                FAM_NAME[fam as usize & 1],
                word as u32 * 64,
                word as u32 * 64 + 63,
                match keep {
                    1 => " except the lowest id",
                    2 => " except the highest id",
                    _ => "",
                }
            ),
            Op::GrTimer { peer } => format!("GR restart timer of peer{} expires", peer),
            Op::LlgrTimer { peer, fam } => format!("LLGR stale timer of peer{} {} expires", peer, FAM_NAME[fam as usize & 1]),
            Op::Eor { peer, fam } => format!("End-of-RIB from peer{} {}", peer, FAM_NAME[fam as usize & 1]),
            Op::NhFlip { nh, reachable } => format!("next-hop address of {} becomes {}", nh_label(nh), if reachable { "reachable" } else { "UNREACHABLE" }),
            Op::StartDeferral { fam } => format!("start selection deferral {}", FAM_NAME[fam as usize & 1]),
            Op::EndDeferral { fam } => format!("end selection deferral {}", FAM_NAME[fam as usize & 1]),
        }
    }
}

// ------------------------------------------------------------------ GR helper state machine (mirror of daemon/src/gr.rs GrState)

#[derive(Clone, Debug)]
enum Gr {
    Idle,
    Restarting { stale: Vec<usize>, llgr: Option<Vec<usize>> },
    LlgrStaling { remaining: BTreeSet<usize> },
    Reconnected { pending: BTreeSet<usize>, from_llgr: bool },
}

enum GrIn {
    Dropped { gr: Option<Vec<usize>>, llgr: Option<Vec<usize>> },
    Established(Vec<usize>),
    Eor(usize),
    Timer,
    LlgrTimer(usize),
}

#[derive(Debug)]
enum GrOut {
    StartTimer,
    StopTimer,
    DeleteStale(Vec<usize>),
    StartLlgr(Vec<usize>),
    StopLlgr,
    DeleteLlgrStale(Vec<usize>),
}

fn gr_process(state: Gr, input: GrIn) -> (Gr, Vec<GrOut>) {
    match (state, input) {
        (s @ Gr::LlgrStaling { .. }, GrIn::Dropped { .. }) => (s, vec![]),
        (_, GrIn::Dropped { gr: Some(gp), llgr }) => (Gr::Restarting { stale: gp, llgr }, vec![GrOut::StartTimer]),
        (_, GrIn::Dropped { gr: None, llgr: Some(lp) }) => (
            Gr::LlgrStaling { remaining: lp.iter().copied().collect() },
            vec![GrOut::StartLlgr(lp)],
        ),
        (Gr::Restarting { llgr: Some(lp), .. }, GrIn::Timer) => (
            Gr::LlgrStaling { remaining: lp.iter().copied().collect() },
            vec![GrOut::StartLlgr(lp)],
        ),
        (Gr::Restarting { stale, llgr: None }, GrIn::Timer) => (Gr::Idle, vec![GrOut::DeleteStale(stale)]),
        (Gr::Restarting { stale, .. }, GrIn::Established(grf)) => {
            let set: BTreeSet<usize> = grf.into_iter().collect();
            let dropped: Vec<usize> = stale.into_iter().filter(|f| !set.contains(f)).collect();
            let mut out = vec![GrOut::StopTimer];
            if !dropped.is_empty() {
                out.push(GrOut::DeleteStale(dropped));
            }
            let ns = if set.is_empty() { Gr::Idle } else { Gr::Reconnected { pending: set, from_llgr: false } };
            (ns, out)
        }
        (Gr::LlgrStaling { remaining }, GrIn::Established(grf)) => {
            let set: BTreeSet<usize> = grf.into_iter().collect();
            let mut out = vec![GrOut::StopLlgr];
            if set.is_empty() {
                if !remaining.is_empty() {
                    out.push(GrOut::DeleteLlgrStale(remaining.into_iter().collect()));
                }
                (Gr::Idle, out)
            } else {
                (Gr::Reconnected { pending: set, from_llgr: true }, out)
            }
        }
        (Gr::LlgrStaling { mut remaining }, GrIn::LlgrTimer(f)) => {
            remaining.remove(&f);
            let ns = if remaining.is_empty() { Gr::Idle } else { Gr::LlgrStaling { remaining } };
            (ns, vec![GrOut::DeleteLlgrStale(vec![f])])
        }
        (Gr::Reconnected { mut pending, from_llgr }, GrIn::Eor(f)) => {
            pending.remove(&f);
            let ns = if pending.is_empty() { Gr::Idle } else { Gr::Reconnected { pending, from_llgr } };
            let out = if from_llgr { GrOut::DeleteLlgrStale(vec![f]) } else { GrOut::DeleteStale(vec![f]) };
            (ns, vec![out])
        }
        (s, _) => (s, vec![]),
    }
}

// ------------------------------------------------------------------ path identity + consumers

/// What a consumer remembers of a path it was handed / what ground truth holds.
#[derive(Clone)]
struct Pid {
    /// `Arc::as_ptr` of the Source: which session of the peer (all Arcs of a run are kept alive)
    src: usize,
    addr: IpAddr,
    lpid: u32,
    attr: Arc<Vec<Attribute>>,
    nh: Option<Nexthop>,
    /// the Source was LLGR-stale when this was captured (export adds LLGR_STALE then); not judged
    llgr: bool,
}

fn ident(p: &Path) -> Pid {
    Pid {
        src: Arc::as_ptr(&p.source) as usize,
        addr: p.source.remote_addr,
        lpid: p.local_path_id,
        attr: p.attr.clone(),
        nh: p.nexthop,
        llgr: p.source.is_llgr_stale(),
    }
}

fn same_attr(a: &Arc<Vec<Attribute>>, b: &Arc<Vec<Attribute>>) -> bool {
    Arc::ptr_eq(a, b) || **a == **b
}

/// content identity: peer address, attribute content, next hop (+ local path id for add-path)
fn same_content(a: &Pid, b: &Pid, with_lpid: bool) -> bool {
    a.addr == b.addr && a.nh == b.nh && (!with_lpid || a.lpid == b.lpid) && same_attr(&a.attr, &b.attr)
}

/// Non-add-path consumer: `process_nlri_change` with `effective_max == 1`.
#[derive(Default)]
struct BestC {
    sent: [BTreeSet<u32>; 2],
    view: [BTreeMap<Px, Pid>; 2],
}

/// Add-path consumer: `process_nlri_change` with `effective_max == n > 1`.
struct ApC {
    n: usize,
    sent: [BTreeMap<u32, BTreeSet<u32>>; 2],
    view: [BTreeMap<Px, BTreeMap<u32, Pid>>; 2],
}

impl ApC {
    fn new(n: usize) -> ApC {
        ApC { n, sent: Default::default(), view: Default::default() }
    }
    fn name(&self) -> String {
        if self.n == usize::MAX { "all".into() } else { format!("top{}", self.n) }
    }
}

#[derive(Default)]
struct FeedStats {
    best_skipped: u64,
    best_taken: u64,
    ap_skipped: u64,
    ap_taken: u64,
    ap_resend_replaced: u64,
    ap_boundary_withdraw: u64,
    ap_already_sent_kept: u64,
}

impl BestC {
    fn feed(&mut self, fi: usize, px: Px, ch: &NlriChange, st: &mut FeedStats) {
        if !ch.best_changed {
            st.best_skipped += 1;
            return;
        }
        st.best_taken += 1;
        match ch.current_paths.first() {
            Some(p) => {
                self.sent[fi].insert(ch.dest_id);
                self.view[fi].insert(px, ident(p));
            }
            None => {
                if self.sent[fi].remove(&ch.dest_id) {
                    self.view[fi].remove(&px);
                }
            }
        }
    }
}

impl ApC {
    fn feed(&mut self, fi: usize, px: Px, ch: &NlriChange, st: &mut FeedStats) {
        if !ch.any_changed {
            st.ap_skipped += 1;
            return;
        }
        st.ap_taken += 1;
        let top: Vec<&Path> = ch.current_paths.iter().take(self.n).collect();
        let sent_ids: BTreeSet<u32> = self.sent[fi].get(&ch.dest_id).cloned().unwrap_or_default();
        let cur_ids: BTreeSet<u32> = top.iter().map(|p| p.local_path_id).collect();
        for pid in sent_ids.difference(&cur_ids) {
            if let Some(ids) = self.sent[fi].get_mut(&ch.dest_id) {
                ids.remove(pid);
                if ids.is_empty() {
                    self.sent[fi].remove(&ch.dest_id);
                }
            }
            if let Some(m) = self.view[fi].get_mut(&px) {
                m.remove(pid);
                if m.is_empty() {
                    self.view[fi].remove(&px);
                }
            }
            if !ch.current_paths.is_empty() && ch.current_paths.iter().any(|p| p.local_path_id == *pid) {
                st.ap_boundary_withdraw += 1;
            }
        }
        for p in top {
            let pid = p.local_path_id;
            let already = self.sent[fi].get(&ch.dest_id).is_some_and(|s| s.contains(&pid));
            let replaced = ch.replaced_path_id == Some(pid);
            if !already || replaced {
                if already {
                    st.ap_resend_replaced += 1;
                }
                self.sent[fi].entry(ch.dest_id).or_default().insert(pid);
                self.view[fi].entry(px).or_default().insert(pid, ident(p));
            } else {
                st.ap_already_sent_kept += 1;
            }
        }
    }
}

// ------------------------------------------------------------------ run state

struct Session {
    src: [Arc<Source>; 2],
    counter: [Arc<AtomicU64>; 2],
    gr: u8,
    llgr: u8,
}

struct PeerSt {
    sess: Option<Session>,
    nsess: u32,
    gr: Gr,
    gr_timer: bool,
    llgr_timers: BTreeSet<usize>,
}

/// shadow of what the workload put into the table: which (peer, remote path id)
/// keys exist per prefix and the flags they were written with.  Used for
/// liveness of a prefix (id clause), for classifying a phantom, and for
/// preconditions; cross-checked against `Table::state` after every call.
#[derive(Clone)]
struct Sh {
    peer: u8,
    rpid: u8,
    filtered: bool,
    nh: u8,
    attr: Arc<Vec<Attribute>>,
    src: Arc<Source>,
}

struct GtDest {
    id: u32,
    paths: Vec<Pid>,
}
type Gt = BTreeMap<Px, GtDest>;

struct Failure {
    clause: &'static str,
    sigs: Vec<(String, String)>,
    kind: String,
    op_index: usize,
    detail: Vec<(String, Json)>,
}

struct Run<'a> {
    env: &'a Env,
    /// universe size per family
    npfx: [usize; 2],
    /// 0 = small-universe histories (peer2 is prefix-limited), 1 = allocator shape (large universe, no prefix limit)
    mode: u8,
    shard: u32,
    t: Table,
    peers: Vec<PeerSt>,
    invalid: HashSet<IpAddr>,
    deferring: [bool; 2],
    shadow: [BTreeMap<Px, Vec<Sh>>; 2],
    best: BestC,
    aps: Vec<ApC>,
    known_id: [BTreeMap<Px, u32>; 2],
    /// which prefix an id was last seen on (to count re-issue of a freed id)
    id_owner: [BTreeMap<u32, Px>; 2],
    max_live: u64,
    gt_prev: [Gt; 2],
    /// every Source Arc of the run: (arc, peer, session no, family)
    registry: Vec<(Arc<Source>, u8, u32, usize)>,
    steps: u64,
    op_index: usize,
    hist_hash: u64,
    nontrivial: Vec<u64>,
    counters: BTreeMap<String, u64>,
    fstats: FeedStats,
    fail: Option<Failure>,
    harness_error: Option<String>,
    trace: Option<Vec<String>>,
}

fn count(c: &mut BTreeMap<String, u64>, k: &str) {
    *c.entry(k.to_string()).or_insert(0) += 1;
}

impl<'a> Run<'a> {
    fn new(env: &'a Env, npfx: [usize; 2], mode: u8, shard: u32, trace: bool) -> Run<'a> {
        Run {
            env,
            npfx,
            mode,
            shard,
            t: Table::new(shard),
            peers: (0..NPEER)
                .map(|_| PeerSt { sess: None, nsess: 0, gr: Gr::Idle, gr_timer: false, llgr_timers: BTreeSet::new() })
                .collect(),
            invalid: HashSet::new(),
            deferring: [false; 2],
            shadow: Default::default(),
            best: BestC::default(),
            aps: vec![ApC::new(2), ApC::new(3), ApC::new(usize::MAX)],
            known_id: Default::default(),
            id_owner: Default::default(),
            max_live: 0,
            gt_prev: Default::default(),
            registry: Vec::new(),
            steps: 0,
            op_index: 0,
            hist_hash: fnv64(&[(npfx[0] & 255) as u8, (npfx[0] >> 8) as u8, (npfx[1] & 255) as u8, (npfx[1] >> 8) as u8, mode, shard as u8]),
            nontrivial: Vec::new(),
            counters: BTreeMap::new(),
            fstats: FeedStats::default(),
            fail: None,
            harness_error: None,
            trace: if trace { Some(Vec::new()) } else { None },
        }
    }

    fn cnt(&mut self, k: &str) {
        count(&mut self.counters, k);
    }

    fn stopped(&self) -> bool {
        self.fail.is_some() || self.harness_error.is_some()
    }

    fn restarting(&self) -> bool {
        self.deferring[0] || self.deferring[1]
    }

    fn pfx_of(&self, fi: usize, net: &Nlri) -> Option<Px> {
        self.env.pfx_index[fi].get(net).copied().filter(|p| (*p as usize) < self.npfx[fi])
    }

    fn describe_pid(&self, p: &Pid) -> String {
        let who = self
            .registry
            .iter()
            .find(|(a, _, _, _)| Arc::as_ptr(a) as usize == p.src)
            .map(|(a, peer, no, _)| {
                format!(
                    "peer{}/session{}{}{}",
                    peer,
                    no,
                    if a.is_stale() { "[stale]" } else { "" },
                    if a.is_llgr_stale() { "[llgr-stale]" } else { "" }
                )
            })
            .unwrap_or_else(|| format!("{}?", p.addr));
        format!("{} lpid{} {} {}", who, p.lpid, self.env.attr_name(&p.attr), self.env.nh_name(&p.nh))
    }

    fn describe_change(&self, ch: &NlriChange) -> String {
        let fi = fam_idx(ch.family).unwrap_or(0);
        let px = self.pfx_of(fi, &ch.net).map(|p| format!("P{}", p)).unwrap_or_else(|| "P?".into());
        let paths: Vec<String> = ch.current_paths.iter().map(|p| self.describe_pid(&ident(p))).collect();
        format!(
            "{} {} dest_id={:#x} best_changed={} any_changed={} replaced_path_id={:?} current_paths=[{}]",
            FAM_NAME[fi],
            px,
            ch.dest_id,
            ch.best_changed,
            ch.any_changed,
            ch.replaced_path_id,
            paths.join(" | ")
        )
    }

    fn gt(&mut self, fi: usize, n: usize) -> Gt {
        let v = if n == usize::MAX {
            self.t.collect_loc_rib_paths(&FAM[fi])
        } else {
            self.t.collect_loc_rib_paths_limited(&FAM[fi], n)
        };
        let mut out = Gt::new();
        for ch in v {
            match self.pfx_of(fi, &ch.net) {
                Some(px) => {
                    if out.contains_key(&px) {
                        self.harness_error = Some("ground truth lists a prefix twice".into());
                    }
                    out.insert(px, GtDest { id: ch.dest_id, paths: ch.current_paths.iter().map(ident).collect() });
                }
                None => self.harness_error = Some("ground truth lists an unknown prefix".into()),
            }
        }
        out
    }

    fn describe_gt(&self, g: &Gt) -> Json {
        Json::arr(g.iter().map(|(px, d)| {
            Json::s(format!(
                "P{} id={:#x}: [{}]",
                px,
                d.id,
                d.paths.iter().map(|p| self.describe_pid(p)).collect::<Vec<_>>().join(" | ")
            ))
        }))
    }

    fn fail_with(&mut self, clause: &'static str, kind: &str, sigs: Vec<(String, String)>, detail: Vec<(String, Json)>) {
        if self.fail.is_none() {
            self.fail = Some(Failure { clause, sigs, kind: kind.to_string(), op_index: self.op_index, detail });
        }
    }

    // -------------------------------------------------------------- the oracle, after every Table call

    fn after_step(&mut self, kind: &'static str, changes: Vec<NlriChange>, silent_insert_violated: bool, end_deferral: Option<usize>) {
        self.steps += 1;
        self.cnt(&format!("op:{}", kind));
        if !changes.is_empty() {
            self.cnt(&format!("op-with-notifications:{}", kind));
        }
        if let Some(tr) = self.trace.as_mut() {
            tr.push(format!("  table call: {} -> {} notification(s)", kind, changes.len()));
        }
        if let Some(_) = self.trace {
            let lines: Vec<String> = changes.iter().map(|c| format!("    {}", self.describe_change(c))).collect();
            self.trace.as_mut().unwrap().extend(lines);
        }

        // ground truth through the table's own accessors
        let gt_all = [self.gt(0, usize::MAX), self.gt(1, usize::MAX)];
        let gt2 = [self.gt(0, 2), self.gt(1, 2)];
        let gt3 = [self.gt(0, 3), self.gt(1, 3)];

        // shadow cross-check (a disagreement is a harness problem, never a verdict)
        for fi in 0..2 {
            let st = self.t.state(FAM[fi]);
            let n: usize = self.shadow[fi].values().map(|v| v.len()).sum();
            let acc: usize = self.shadow[fi].values().map(|v| v.iter().filter(|s| !s.filtered).count()).sum();
            if st.num_destination > self.shadow[fi].len() {
                // an insert rejected with PrefixLimitExceeded leaves an empty Destination that keeps
                // its id; uniqueness is not affected, so this is counted, not judged
                self.cnt("unjudged:empty-destination-holding-an-id");
            }
            if st.num_path != n || st.num_accepted != acc {
                self.harness_error = Some(format!(
                    "shadow model out of sync after {} ({}): table has {} paths / {} accepted, shadow {} / {}",
                    kind, FAM_NAME[fi], st.num_path, st.num_accepted, n, acc
                ));
            }
        }
        if self.harness_error.is_some() {
            return;
        }

        let mut id_v: Vec<(String, String)> = Vec::new();
        let mut ph_v: Vec<(String, String)> = Vec::new();
        let mut df_v: Vec<(String, String)> = Vec::new();
        let mut nm_v: Vec<(String, String)> = Vec::new();
        let mut detail: Vec<(String, Json)> = Vec::new();

        // per-notification clauses: id, phantom
        let mut notif_px: Vec<(usize, Px)> = Vec::new();
        for ch in &changes {
            let Some(fi) = fam_idx(ch.family) else {
                self.harness_error = Some("notification for a family outside the universe".into());
                return;
            };
            let Some(px) = self.pfx_of(fi, &ch.net) else {
                self.harness_error = Some("notification for a prefix outside the universe".into());
                return;
            };
            notif_px.push((fi, px));
            self.cnt(&format!("notif:{}", kind));
            if (ch.dest_id & 0x00ff_ffff) >= 64 {
                self.cnt("notif:dest_id>=64");
            }
            if (ch.dest_id & 0x00ff_ffff) >= 128 {
                self.cnt("notif:dest_id>=128");
            }
            if !ch.best_changed {
                self.cnt("notif:best_changed=false");
            }
            if !ch.any_changed {
                self.cnt("notif:any_changed=false");
            }
            if ch.replaced_path_id.is_some() {
                self.cnt("notif:replaced_path_id");
            }
            if ch.current_paths.is_empty() {
                self.cnt("notif:withdraw-all");
            }
            if ch.current_paths.len() >= 3 {
                self.cnt("notif:three-or-more-paths");
            }
            // the id carried is the id of that prefix
            let want = gt_all[fi]
                .get(&px)
                .map(|d| d.id)
                .or_else(|| self.gt_prev[fi].get(&px).map(|d| d.id))
                .or_else(|| self.known_id[fi].get(&px).copied());
            if let Some(w) = want {
                self.cnt("id:notification-checked");
                if w != ch.dest_id {
                    id_v.push((
                        "C06/id-unique/notification-id".into(),
                        format!("a notification of {} carries dest_id {:#x} but the prefix's id is {:#x}", kind, ch.dest_id, w),
                    ));
                }
            }
            if (ch.dest_id >> 24) != self.shard {
                id_v.push(("C06/id-unique/shard-bits".into(), "dest_id does not carry the shard index in bits 31:24".into()));
            }
            // nothing filtered / next-hop-invalid is handed to a consumer
            for p in ch.current_paths.iter() {
                let pi = ident(p);
                let in_gt = gt_all[fi]
                    .get(&px)
                    .is_some_and(|d| d.paths.iter().any(|g| g.src == pi.src && same_content(g, &pi, true)));
                self.cnt("phantom:path-checked");
                if !in_gt {
                    // classify with the shadow
                    let mut why = "not-eligible";
                    if let Some(v) = self.shadow[fi].get(&px) {
                        for s in v {
                            if Arc::as_ptr(&s.src) as usize == pi.src && same_attr(&s.attr, &pi.attr) && Some(self.env.nhs[s.nh as usize]) == pi.nh {
                                if s.filtered {
                                    why = "filtered";
                                } else if self.invalid.contains(&self.env.nhs[s.nh as usize].addr()) {
                                    why = "nexthop-invalid";
                                }
                            }
                        }
                    } else {
                        why = "gone";
                    }
                    ph_v.push((
                        format!("C06/no-phantom/{}", kind),
                        format!(
                            "{} handed a consumer a path that collect_loc_rib_paths does not list ({}) in current_paths",
                            kind, why
                        ),
                    ));
                    detail.push(("phantom_path".into(), Json::s(format!("{} [{}]", self.describe_pid(&pi), why))));
                }
            }
        }

        // fold
        for (ch, (fi, px)) in changes.iter().zip(notif_px.iter()) {
            let mut st = std::mem::take(&mut self.fstats);
            self.best.feed(*fi, *px, ch, &mut st);
            for a in self.aps.iter_mut() {
                a.feed(*fi, *px, ch, &mut st);
            }
            self.fstats = st;
        }

        // deferral clauses
        if silent_insert_violated {
            df_v.push(("C06/deferral/insert-not-silent".into(), "insert during deferral returned a change".into()));
        }
        if let Some(fi) = end_deferral {
            let mut seen: BTreeMap<Px, usize> = BTreeMap::new();
            for (f2, px) in &notif_px {
                if *f2 == fi {
                    *seen.entry(*px).or_insert(0) += 1;
                }
            }
            for (px, n) in &seen {
                if *n > 1 {
                    df_v.push(("C06/deferral/announced-twice".into(), format!("end_deferral announced P{} {} times", px, n)));
                }
                if !gt_all[fi].contains_key(px) {
                    df_v.push(("C06/deferral/announced-dead".into(), format!("end_deferral announced P{} which has no eligible path", px)));
                }
            }
            for (px, d) in gt_all[fi].iter() {
                self.cnt("deferral:held-prefix-checked");
                match changes.iter().zip(notif_px.iter()).find(|(_, (f2, p2))| *f2 == fi && p2 == px) {
                    None => df_v.push(("C06/deferral/not-announced".into(), format!("end_deferral did not announce held prefix P{}", px))),
                    Some((ch, _)) => {
                        let same = ch.current_paths.len() == d.paths.len()
                            && ch.current_paths.iter().zip(d.paths.iter()).all(|(a, b)| {
                                let a = ident(a);
                                a.src == b.src && same_content(&a, b, true)
                            });
                        if !same {
                            df_v.push(("C06/deferral/partial-list".into(), format!("end_deferral announced P{} without its full path list", px)));
                        }
                    }
                }
            }
        }

        // no-miss: folded views == ground truth (families in deferral are not judged until end_deferral)
        for fi in 0..2 {
            if self.deferring[fi] {
                self.cnt("unjudged:views-during-deferral");
                continue;
            }
            self.cnt("views-compared");
            // best-only
            let mut diffs: Vec<String> = Vec::new();
            let mut session_only = false;
            let mut llgr_only = false;
            for px in 0..self.npfx[fi] as Px {
                let have = self.best.view[fi].get(&px);
                let want = gt_all[fi].get(&px).and_then(|d| d.paths.first());
                match (have, want) {
                    (None, None) => {}
                    (Some(h), Some(w)) => {
                        if !same_content(h, w, false) {
                            diffs.push(format!("P{}: consumer holds {{{}}}, RIB best is {{{}}}", px, self.describe_pid(h), self.describe_pid(w)));
                        } else if h.src != w.src {
                            session_only = true;
                        } else if h.llgr != w.llgr {
                            llgr_only = true;
                        }
                    }
                    (Some(h), None) => diffs.push(format!("P{}: consumer holds {{{}}}, RIB has no eligible path", px, self.describe_pid(h))),
                    (None, Some(w)) => diffs.push(format!("P{}: consumer holds nothing, RIB best is {{{}}}", px, self.describe_pid(w))),
                }
            }
            if session_only {
                self.cnt("unjudged:best-differs-in-session-arc-only");
            }
            if llgr_only {
                // same best path, but its Source became LLGR-stale after the consumer exported it
                // (export.rs would now add LLGR_STALE); best_changed=false, so it is not re-sent.
                self.cnt("unjudged:best-became-llgr-stale-without-renotification");
            }
            if !diffs.is_empty() {
                let sig = if end_deferral == Some(fi) { "C06/deferral/view-best".to_string() } else { format!("C06/no-miss/best/{}", kind) };
                let what = format!("after {} the best-only consumer (skips !best_changed) differs from collect_loc_rib_paths: {}", kind, diffs[0]);
                if end_deferral == Some(fi) {
                    df_v.push((sig, what));
                } else {
                    nm_v.push((sig, what));
                }
                detail.push((format!("best_view_diff_{}", FAM_NAME[fi]), Json::strs(diffs)));
            }
            // add-path
            for ai in 0..self.aps.len() {
                let n = self.aps[ai].n;
                let g = if n == 2 { &gt2[fi] } else if n == 3 { &gt3[fi] } else { &gt_all[fi] };
                let mut diffs: Vec<String> = Vec::new();
                let mut session_only = false;
                for px in 0..self.npfx[fi] as Px {
                    let empty = BTreeMap::new();
                    let have = self.aps[ai].view[fi].get(&px).unwrap_or(&empty);
                    let want: BTreeMap<u32, &Pid> = g.get(&px).map(|d| d.paths.iter().map(|p| (p.lpid, p)).collect()).unwrap_or_default();
                    for (id, h) in have.iter() {
                        match want.get(id) {
                            None => diffs.push(format!("P{}: consumer holds {{{}}} which is not in the RIB's {} set", px, self.describe_pid(h), self.aps[ai].name())),
                            Some(w) => {
                                if !same_content(h, w, true) {
                                    diffs.push(format!("P{} path {}: consumer holds {{{}}}, RIB has {{{}}}", px, id, self.describe_pid(h), self.describe_pid(w)));
                                } else if h.src != w.src {
                                    session_only = true;
                                }
                            }
                        }
                    }
                    for (id, w) in want.iter() {
                        if !have.contains_key(id) {
                            diffs.push(format!("P{}: consumer lacks {{{}}} of the RIB's {} set", px, self.describe_pid(w), self.aps[ai].name()));
                        }
                    }
                }
                if session_only {
                    self.cnt("unjudged:addpath-differs-in-session-arc-only");
                }
                if !diffs.is_empty() {
                    let what = format!(
                        "after {} the add-path consumer '{}' (skips !any_changed) differs from collect_loc_rib_paths_limited: {}",
                        kind,
                        self.aps[ai].name(),
                        diffs[0]
                    );
                    if end_deferral == Some(fi) {
                        df_v.push(("C06/deferral/view-addpath".into(), what));
                    } else {
                        nm_v.push((format!("C06/no-miss/addpath/{}", kind), what));
                    }
                    detail.push((format!("{}_view_diff_{}", self.aps[ai].name(), FAM_NAME[fi]), Json::strs(diffs)));
                }
            }
        }

        // id clause over ALL live prefixes (id <-> prefix bijection)
        for fi in 0..2 {
            let words_before: BTreeSet<u32> = self.known_id[fi].values().map(|id| (id & 0x00ff_ffff) / 64).collect();
            let dead: Vec<Px> = self.known_id[fi].keys().filter(|px| !self.shadow[fi].contains_key(px)).copied().collect();
            for px in dead {
                self.known_id[fi].remove(&px);
            }
            for (px, d) in gt_all[fi].iter() {
                match self.known_id[fi].get(px) {
                    Some(old) => {
                        if *old != d.id {
                            id_v.push((
                                "C06/id-unique/changed-while-live".into(),
                                format!("P{} changed its dest_id from {:#x} to {:#x} while it never was without paths", px, old, d.id),
                            ));
                        }
                    }
                    None => {
                        // first sighting of this prefix since it last was without paths
                        if self.id_owner[fi].get(&d.id).is_some_and(|o| o != px) {
                            count(&mut self.counters, "id:reissued-to-another-prefix");
                        }
                        self.id_owner[fi].insert(d.id, *px);
                        let local = d.id & 0x00ff_ffff;
                        if local >= 64 {
                            count(&mut self.counters, "id:assigned>=64");
                        }
                        if local >= 128 {
                            count(&mut self.counters, "id:assigned>=128");
                        }
                    }
                }
                self.known_id[fi].insert(*px, d.id);
            }
            let words_after: BTreeSet<u32> = self.known_id[fi].values().map(|id| (id & 0x00ff_ffff) / 64).collect();
            for w in words_before.difference(&words_after) {
                // a whole 64-id block was released; below a block that is still in use this is
                // where a bitmap allocator must not lose the higher words
                if words_after.iter().any(|x| x > w) {
                    count(&mut self.counters, "alloc:whole-block-released-below-live-block");
                } else {
                    count(&mut self.counters, "alloc:whole-block-released-at-tail");
                }
            }
            self.max_live = self.max_live.max(self.shadow[fi].len() as u64);
            let mut by_id: BTreeMap<u32, Vec<Px>> = BTreeMap::new();
            for (px, id) in self.known_id[fi].iter() {
                by_id.entry(*id).or_default().push(*px);
            }
            self.cnt("id:injectivity-checked");
            for (id, pxs) in by_id {
                if pxs.len() > 1 {
                    let both_visible = pxs.iter().filter(|p| gt_all[fi].contains_key(p)).count() > 1;
                    id_v.push((
                        if both_visible { "C06/id-unique/duplicate-live-id".into() } else { "C06/id-unique/reused-while-held".into() },
                        format!("dest_id {:#x} is held by live prefixes {:?} of {} at the same time", id, pxs, FAM_NAME[fi]),
                    ));
                }
            }
        }

        // non-trivial case = the call produced at least one notification, or was suppressed by deferral
        if !changes.is_empty() || kind == "insert-deferred" {
            self.nontrivial.push(fnv64(&[&self.hist_hash.to_le_bytes()[..], &self.steps.to_le_bytes()[..], kind.as_bytes()].concat()));
        }

        // priority: one clause per failing step, so one root cause maps to few signatures
        let (clause, mut sigs) = if !id_v.is_empty() {
            ("id-unique", id_v)
        } else if !ph_v.is_empty() {
            ("no-phantom", ph_v)
        } else if !df_v.is_empty() {
            ("deferral", df_v)
        } else if !nm_v.is_empty() {
            ("no-miss", nm_v)
        } else {
            ("", vec![])
        };
        if !sigs.is_empty() {
            sigs.sort();
            sigs.dedup_by(|a, b| a.0 == b.0);
            detail.push(("notifications".into(), Json::strs(changes.iter().map(|c| self.describe_change(c)))));
            detail.push(("rib_v4".into(), self.describe_gt(&gt_all[0])));
            detail.push(("rib_v6".into(), self.describe_gt(&gt_all[1])));
            self.fail_with(clause, kind, sigs, detail);
        }
        self.gt_prev = gt_all;
    }

    fn panic_fail(&mut self, kind: &'static str, p: PanicInfo) {
        self.steps += 1;
        let sig = format!("C06/panic/{}:{}", p.location, panic_class(&p.message));
        let what = format!("Table::{} panicked at {}: {}", kind, p.location, p.message);
        self.fail_with("panic", kind, vec![(sig, what)], vec![("panic".into(), Json::s(p.message))]);
    }

    // -------------------------------------------------------------- Table calls

    fn t_insert(&mut self, peer: u8, fi: usize, px: Px, rpid: u8, attr_i: u8, fresh: bool, nh_i: u8, filtered: bool) -> bool {
        // returns true when the prefix limit was exceeded
        if self.stopped() {
            return false;
        }
        let env = self.env;
        let sess = self.peers[peer as usize].sess.as_ref().unwrap();
        let src = sess.src[fi].clone();
        let counter = sess.counter[fi].clone();
        let attr = if fresh { Arc::new((*env.attrs[attr_i as usize]).clone()) } else { env.attrs[attr_i as usize].clone() };
        let nh = env.nhs[nh_i as usize];
        let nh_invalid = self.invalid.contains(&nh.addr());
        let limit = if peer == 2 && self.mode == 0 { Some((PEER2_LIMIT, &counter)) } else { None };
        let net = env.pfx[fi][px as usize].clone();
        let existing = self.shadow[fi].get(&px).and_then(|v| v.iter().position(|s| s.peer == peer && s.rpid == rpid));
        let replaces_other_session = existing.is_some_and(|i| !Arc::ptr_eq(&self.shadow[fi][&px][i].src, &src));
        // a replacement by the same session that keeps the attribute content and the global
        // next-hop address and changes only the link-local half / the variant (V6 <-> V6LinkLocal)
        let mut nh_only: Vec<String> = Vec::new();
        if let Some(i) = existing {
            let old = &self.shadow[fi][&px][i];
            let old_nh = env.nhs[old.nh as usize];
            if Arc::ptr_eq(&old.src, &src) && !old.filtered && !filtered && same_attr(&old.attr, &attr) && old_nh != nh && old_nh.addr() == nh.addr() {
                let what = match (old_nh, nh) {
                    (Nexthop::V6LinkLocal(..), Nexthop::V6LinkLocal(..)) => "replace:nexthop-link-local-only",
                    _ => "replace:nexthop-variant-only",
                };
                let arc = if Arc::ptr_eq(&old.attr, &attr) { "same-arc" } else { "equal-content-new-arc" };
                nh_only.push(what.to_string());
                nh_only.push(format!("{}:{}", what, arc));
                // was the replaced path the best path the consumers were last told about?
                let was_best = self.gt_prev[fi].get(&px).and_then(|d| d.paths.first()).is_some_and(|b| {
                    b.src == Arc::as_ptr(&src) as usize && b.nh == Some(old_nh) && same_attr(&b.attr, &old.attr)
                });
                if was_best && !self.deferring[fi] {
                    nh_only.push(format!("{}:{}:of-best-path", what, arc));
                }
            }
        }
        let deferring = self.deferring[fi];
        let t = &mut self.t;
        let a2 = attr.clone();
        let s2 = src.clone();
        let r = guard(move || t.insert(s2, FAM[fi], net, rpid as u32, Some(nh), a2.clone(), Some(a2), filtered, nh_invalid, limit, 0));
        let kind: &'static str = if deferring {
            "insert-deferred"
        } else if existing.is_some() {
            "replace"
        } else {
            "insert"
        };
        match r {
            Err(p) => {
                self.panic_fail(kind, p);
                false
            }
            Ok(res) => {
                let (changes, limit_hit) = match res {
                    InsertResult::NoChange => (vec![], false),
                    InsertResult::PrefixLimitExceeded => (vec![], true),
                    InsertResult::Changed(c) => (vec![c], false),
                };
                if limit_hit {
                    self.cnt("insert:prefix-limit-exceeded");
                } else {
                    let e = Sh { peer, rpid, filtered, nh: nh_i, attr, src };
                    let v = self.shadow[fi].entry(px).or_default();
                    match existing {
                        Some(i) => v[i] = e,
                        None => v.push(e),
                    }
                    if filtered {
                        self.cnt("insert:filtered");
                    }
                    if nh_invalid {
                        self.cnt("insert:nexthop-invalid");
                    }
                    if fresh {
                        self.cnt("insert:equal-content-new-arc");
                    } else {
                        self.cnt("insert:shared-arc");
                    }
                    if replaces_other_session {
                        self.cnt("insert:new-session-replaces-path-of-old-session");
                    }
                    for k in &nh_only {
                        self.cnt(k);
                    }
                    if matches!(nh, Nexthop::V6LinkLocal(..)) {
                        self.cnt("insert:nexthop-global+link-local");
                    }
                    if changes.is_empty() && !deferring {
                        self.cnt("insert:nochange");
                    }
                }
                let bad_silent = deferring && !changes.is_empty();
                if deferring {
                    self.cnt("deferral:insert-during-deferral");
                }
                self.after_step(kind, changes, bad_silent, None);
                limit_hit
            }
        }
    }

    fn t_remove(&mut self, peer: u8, fi: usize, px: Px, rpid: u8) {
        if self.stopped() {
            return;
        }
        let sess = self.peers[peer as usize].sess.as_ref().unwrap();
        let src = sess.src[fi].clone();
        let counter = sess.counter[fi].clone();
        let net = self.env.pfx[fi][px as usize].clone();
        let t = &mut self.t;
        let r = guard(move || t.remove(src, FAM[fi], net, rpid as u32, Some(&counter)));
        match r {
            Err(p) => self.panic_fail("remove", p),
            Ok((ch, _nh)) => {
                let mut effective = false;
                if let Some(v) = self.shadow[fi].get_mut(&px) {
                    let before = v.len();
                    v.retain(|s| !(s.peer == peer && s.rpid == rpid));
                    effective = v.len() != before;
                    if v.is_empty() {
                        self.shadow[fi].remove(&px);
                    }
                }
                if effective {
                    self.cnt("remove:effective");
                }
                if self.deferring[fi] && ch.is_some() {
                    self.cnt("unjudged:notification-during-deferral");
                }
                self.after_step("remove", ch.into_iter().collect(), false, None);
            }
        }
    }

    fn shadow_retain(&mut self, fi: usize, keep: impl Fn(&Sh) -> bool) {
        for v in self.shadow[fi].values_mut() {
            v.retain(|s| keep(s));
        }
        self.shadow[fi].retain(|_, v| !v.is_empty());
    }

    /// the batch mutators keyed (peer address, family)
    fn t_batch(&mut self, kind: &'static str, peer: u8, fi: usize) {
        if self.stopped() {
            return;
        }
        let addr = self.env.addrs[peer as usize];
        let fam = FAM[fi];
        if kind == "restale" {
            let sessions: BTreeSet<usize> = self.shadow[fi]
                .values()
                .flat_map(|v| v.iter())
                .filter(|s| s.peer == peer)
                .map(|s| Arc::as_ptr(&s.src) as usize)
                .collect();
            if sessions.len() >= 2 {
                self.cnt("restale:paths-of-two-sessions");
            }
        }
        let t = &mut self.t;
        let r = guard(move || match kind {
            "drop" => t.drop(addr, fam).0,
            "restale" => t.restale(addr, fam),
            "drop_stale" => t.drop_stale(addr, fam, None).0,
            "restale_llgr" => t.restale_llgr(addr, fam),
            "drop_no_llgr" => t.drop_no_llgr(addr, fam, None).0,
            "drop_llgr_stale" => t.drop_llgr_stale(addr, fam, None).0,
            _ => unreachable!(),
        });
        match r {
            Err(p) => self.panic_fail(kind, p),
            Ok(changes) => {
                let has = |a: &Arc<Vec<Attribute>>, c: u32| {
                    a.iter()
                        .find(|x| x.code() == Attribute::COMMUNITY)
                        .and_then(|x| x.binary())
                        .is_some_and(|b| b.chunks(4).any(|q| q == c.to_be_bytes()))
                };
                match kind {
                    "drop" => self.shadow_retain(fi, |s| s.peer != peer),
                    "drop_stale" => self.shadow_retain(fi, |s| !(s.peer == peer && s.src.is_stale())),
                    "drop_no_llgr" => self.shadow_retain(fi, |s| !(s.peer == peer && has(&s.attr, NO_LLGR))),
                    // shadow bookkeeping only (a mismatch is inconclusive, never a verdict): the purge removes the
                    // paths whose *source* is marked LLGR-stale; the LLGR_STALE community alone does not count
                    // (repo fix "drop_llgr_stale must not purge fresh paths ...")
                    "drop_llgr_stale" => self.shadow_retain(fi, |s| !(s.peer == peer && s.src.is_llgr_stale())),
                    _ => {}
                }
                if self.deferring[fi] && !changes.is_empty() {
                    self.cnt("unjudged:notification-during-deferral");
                }
                self.after_step(kind, changes, false, None);
            }
        }
    }

    fn t_nhflip(&mut self, nh_i: u8, reachable: bool) {
        if self.stopped() {
            return;
        }
        let addr = self.env.nhs[nh_i as usize].addr();
        // TableManager::update_nexthop_validity: the set first, then the walk
        if reachable {
            self.invalid.remove(&addr);
        } else {
            self.invalid.insert(addr);
        }
        let t = &mut self.t;
        let r = guard(move || t.update_nexthop_validity(addr, reachable));
        match r {
            Err(p) => self.panic_fail("nexthop_validity", p),
            Ok(changes) => {
                if changes.iter().any(|c| fam_idx(c.family).is_some_and(|f| self.deferring[f])) {
                    self.cnt("unjudged:notification-during-deferral");
                }
                self.after_step("nexthop_validity", changes, false, None);
            }
        }
    }

    fn t_start_deferral(&mut self, fi: usize) {
        if self.stopped() {
            return;
        }
        let t = &mut self.t;
        match guard(move || t.start_deferral(FAM[fi])) {
            Err(p) => self.panic_fail("start_deferral", p),
            Ok(()) => {
                self.deferring[fi] = true;
                self.after_step("start_deferral", vec![], false, None);
            }
        }
    }

    fn t_end_deferral(&mut self, fi: usize) {
        if self.stopped() {
            return;
        }
        let t = &mut self.t;
        match guard(move || t.end_deferral(FAM[fi])) {
            Err(p) => self.panic_fail("end_deferral", p),
            Ok(changes) => {
                self.deferring[fi] = false;
                self.after_step("end_deferral", changes, false, Some(fi));
            }
        }
    }

    // -------------------------------------------------------------- protocol events -> Table calls

    fn mark_llgr_stale(&mut self, peer: u8, fams: &[usize]) {
        // TableShard::mark_llgr_stale per family: restale_llgr, then drop_no_llgr
        for &f in fams {
            self.t_batch("restale_llgr", peer, f);
            self.t_batch("drop_no_llgr", peer, f);
        }
    }

    fn gr_outputs(&mut self, peer: u8, outs: Vec<GrOut>, timer_path: bool) {
        for o in outs {
            match o {
                GrOut::StartTimer => self.peers[peer as usize].gr_timer = true,
                GrOut::StopTimer => self.peers[peer as usize].gr_timer = false,
                GrOut::StopLlgr => self.peers[peer as usize].llgr_timers.clear(),
                GrOut::StartLlgr(fams) => {
                    self.mark_llgr_stale(peer, &fams);
                    self.peers[peer as usize].llgr_timers.extend(fams);
                }
                GrOut::DeleteStale(fams) => {
                    for f in fams {
                        // gr_restart_timer_expired uses drop_families; session-established / EOR use drop_stale_families
                        self.t_batch(if timer_path { "drop" } else { "drop_stale" }, peer, f);
                    }
                }
                GrOut::DeleteLlgrStale(fams) => {
                    for f in fams {
                        self.t_batch("drop_llgr_stale", peer, f);
                    }
                }
            }
        }
    }

    fn gr_feed(&mut self, peer: u8, input: GrIn, timer_path: bool) {
        let st = std::mem::replace(&mut self.peers[peer as usize].gr, Gr::Idle);
        let (ns, outs) = gr_process(st, input);
        self.peers[peer as usize].gr = ns;
        self.gr_outputs(peer, outs, timer_path);
    }

    fn down(&mut self, peer: u8, graceful: bool) {
        let Some(sess) = self.peers[peer as usize].sess.take() else { return };
        let gr_f: Vec<usize> = (0..2).filter(|f| sess.gr & (1 << f) != 0).collect();
        let llgr_f: Vec<usize> = (0..2).filter(|f| sess.llgr & (1 << f) != 0).collect();
        // unregister_peer(addr, drop_families, stale_families)
        for f in 0..2 {
            if !gr_f.contains(&f) && !llgr_f.contains(&f) {
                self.t_batch("drop", peer, f);
            }
        }
        for &f in &gr_f {
            self.t_batch("restale", peer, f);
        }
        // apply_disconnect
        let gr_eff = if graceful && !gr_f.is_empty() { Some(gr_f) } else { None };
        let llgr_eff = if graceful && !llgr_f.is_empty() { Some(llgr_f) } else { None };
        self.peers[peer as usize].gr_timer = false;
        if gr_eff.is_some() || llgr_eff.is_some() {
            self.gr_feed(peer, GrIn::Dropped { gr: gr_eff, llgr: llgr_eff }, false);
        }
    }

    /// returns false when the op's precondition does not hold (it is then skipped)
    fn apply(&mut self, op: &Op) -> bool {
        if self.stopped() {
            return false;
        }
        let ok = self.applicable(op);
        if let Some(tr) = self.trace.as_mut() {
            tr.push(format!("#{} {}{}", self.op_index, op.describe(), if ok { "" } else { "   [skipped: precondition]" }));
        }
        if !ok {
            self.op_index += 1;
            return false;
        }
        self.hist_hash = fnv64(&[&self.hist_hash.to_le_bytes()[..], op.enc().as_bytes()].concat());
        match *op {
            Op::Up { peer, gr, llgr } => {
                self.peers[peer as usize].gr_timer = false;
                if !self.restarting() {
                    let grf: Vec<usize> = (0..2).filter(|f| gr & (1 << f) != 0).collect();
                    self.gr_feed(peer, GrIn::Established(grf), false);
                } else {
                    self.cnt("up:while-restarting-speaker");
                }
                let p = peer as usize;
                let mk = |env: &Env| {
                    Arc::new(Source::new(env.addrs[p], IpAddr::V4(Ipv4Addr::new(198, 51, 100, 254)), env.asns[p], 65000, env.rids[p], env.roles[p]))
                };
                let no = self.peers[p].nsess;
                self.peers[p].nsess += 1;
                let src = [mk(self.env), mk(self.env)];
                self.registry.push((src[0].clone(), peer, no, 0));
                self.registry.push((src[1].clone(), peer, no, 1));
                if no > 0 {
                    self.cnt("up:restarted-session");
                }
                self.peers[p].sess = Some(Session { src, counter: [Arc::new(AtomicU64::new(0)), Arc::new(AtomicU64::new(0))], gr, llgr });
            }
            Op::Down { peer, graceful } => self.down(peer, graceful),
            Op::Insert { peer, fam, pfx, pid, attr, fresh, nh, filtered } => {
                if self.t_insert(peer, fam as usize, pfx, pid, attr, fresh, nh, filtered) {
                    // rx_msg: CEASE / max-prefix, session closed by us
                    self.down(peer, false);
                }
            }
            Op::Remove { peer, fam, pfx, pid } => self.t_remove(peer, fam as usize, pfx, pid),
            Op::BlockInsert { peer, fam, lo, n, attr, nh, filtered } => {
                self.cnt("block:insert");
                for px in lo..lo + n {
                    if self.stopped() {
                        break;
                    }
                    if self.t_insert(peer, fam as usize, px, 0, attr, false, nh, filtered) {
                        self.down(peer, false);
                        break;
                    }
                }
            }
            Op::BlockRemove { peer, fam, lo, n } => {
                self.cnt("block:remove");
                for px in lo..lo + n {
                    if self.stopped() {
                        break;
                    }
                    // only prefixes this peer has under path id 0 (a WITHDRAW of nothing is a no-op call)
                    let has = self.shadow[fam as usize].get(&px).is_some_and(|v| v.iter().any(|s| s.peer == peer && s.rpid == 0));
                    if has {
                        self.t_remove(peer, fam as usize, px, 0);
                    }
                }
            }
            Op::IdBlockRemove { fam, word, keep } => {
                let fi = fam as usize;
                let mut victims: Vec<(u32, Px)> = self.known_id[fi]
                    .iter()
                    .filter(|(_, id)| (**id & 0x00ff_ffff) / 64 == word as u32)
                    .map(|(px, id)| (*id, *px))
                    .collect();
                victims.sort();
                match keep {
                    1 if !victims.is_empty() => {
                        victims.remove(0);
                    }
                    2 => {
                        victims.pop();
                    }
                    _ => {}
                }
                self.cnt(match keep {
                    1 => "block:id-block-remove-keep-lowest",
                    2 => "block:id-block-remove-keep-highest",
                    _ => "block:id-block-remove-all",
                });
                for (_, px) in victims {
                    let keys: Vec<(u8, u8)> = self.shadow[fi].get(&px).map(|v| v.iter().map(|s| (s.peer, s.rpid)).collect()).unwrap_or_default();
                    for (peer, rpid) in keys {
                        if self.stopped() {
                            break;
                        }
                        if self.peers[peer as usize].sess.is_some() {
                            self.t_remove(peer, fi, px, rpid);
                        }
                    }
                }
            }
            Op::GrTimer { peer } => {
                self.peers[peer as usize].gr_timer = false;
                self.gr_feed(peer, GrIn::Timer, true);
            }
            Op::LlgrTimer { peer, fam } => {
                self.peers[peer as usize].llgr_timers.remove(&(fam as usize));
                self.gr_feed(peer, GrIn::LlgrTimer(fam as usize), false);
            }
            Op::Eor { peer, fam } => self.gr_feed(peer, GrIn::Eor(fam as usize), false),
            Op::NhFlip { nh, reachable } => self.t_nhflip(nh, reachable),
            Op::StartDeferral { fam } => self.t_start_deferral(fam as usize),
            Op::EndDeferral { fam } => self.t_end_deferral(fam as usize),
        }
        self.op_index += 1;
        true
    }

    fn applicable(&self, op: &Op) -> bool {
        let pv = |p: u8| (p as usize) < NPEER;
        let fv = |f: u8| f < 2;
        match *op {
            Op::Up { peer, gr, llgr } => pv(peer) && gr < 4 && llgr < 4 && self.peers[peer as usize].sess.is_none(),
            Op::Down { peer, .. } => pv(peer) && self.peers[peer as usize].sess.is_some(),
            Op::Insert { peer, fam, pfx, pid, attr, nh, .. } => {
                pv(peer)
                    && fv(fam)
                    && (pfx as usize) < self.npfx[fam as usize]
                    && pid < 3
                    && (attr as usize) < self.env.attrs.len()
                    && nh_ok(fam, nh)
                    && self.peers[peer as usize].sess.is_some()
            }
            Op::Remove { peer, fam, pfx, pid } => pv(peer) && fv(fam) && (pfx as usize) < self.npfx[fam as usize] && pid < 3 && self.peers[peer as usize].sess.is_some(),
            Op::BlockInsert { peer, fam, lo, n, attr, nh, .. } => {
                pv(peer)
                    && fv(fam)
                    && n >= 1
                    && (lo as usize + n as usize) <= self.npfx[fam as usize]
                    && (attr as usize) < self.env.attrs.len()
                    && nh_ok(fam, nh)
                    && self.peers[peer as usize].sess.is_some()
            }
            Op::BlockRemove { peer, fam, lo, n } => {
                pv(peer) && fv(fam) && n >= 1 && (lo as usize + n as usize) <= self.npfx[fam as usize] && self.peers[peer as usize].sess.is_some()
            }
            Op::IdBlockRemove { fam, word, keep } => {
                fv(fam) && keep < 3 && self.known_id[fam as usize].values().any(|id| (id & 0x00ff_ffff) / 64 == word as u32)
            }
            Op::GrTimer { peer } => pv(peer) && self.peers[peer as usize].gr_timer,
            Op::LlgrTimer { peer, fam } => pv(peer) && fv(fam) && self.peers[peer as usize].llgr_timers.contains(&(fam as usize)),
            Op::Eor { peer, fam } => pv(peer) && fv(fam) && self.peers[peer as usize].sess.is_some(),
            Op::NhFlip { nh, reachable } => nh < 2 && (self.invalid.contains(&self.env.nhs[nh as usize].addr()) == reachable),
            // the daemon starts deferral at start-up only: the family's RIB is empty
            Op::StartDeferral { fam } => fv(fam) && !self.deferring[fam as usize] && self.shadow[fam as usize].is_empty(),
            Op::EndDeferral { fam } => fv(fam) && self.deferring[fam as usize],
        }
    }

    // -------------------------------------------------------------- generation

    fn gen_op(&self, rng: &mut Rng) -> Op {
        for _ in 0..64 {
            let op = if self.mode == 1 && rng.chance(2, 5) { self.gen_block_candidate(rng) } else { self.gen_candidate(rng) };
            if self.applicable(&op) {
                return op;
            }
        }
        // always applicable fallback
        let nh = rng.below(2) as u8;
        Op::NhFlip { nh, reachable: self.invalid.contains(&self.env.nhs[nh as usize].addr()) }
    }

    /// allocator shape: operations on whole blocks of prefixes / of destination ids in the large family
    fn gen_block_candidate(&self, rng: &mut Rng) -> Op {
        let fam: u8 = if self.npfx[0] >= self.npfx[1] { 0 } else { 1 };
        let np = self.npfx[fam as usize] as u64;
        let up: Vec<u8> = (0..NPEER as u8).filter(|p| self.peers[*p as usize].sess.is_some()).collect();
        let peer = if up.is_empty() { 0 } else { *rng.pick(&up) };
        let n = *rng.pick(&[1u64, 3, 8, 30, 63, 64, 65, 66, 70, 100, 128, 130, 150]);
        let n = n.min(np);
        let lo = if rng.bool() { (rng.below(np / 32 + 1) * 32).min(np - n) } else { rng.below(np - n + 1) };
        let k = rng.below(100);
        if k < 45 {
            Op::BlockInsert { peer, fam, lo: lo as Px, n: n as Px, attr: *rng.pick(&[0u8, 1, 1, 2]), nh: rng.below(if fam == 1 { 4 } else { 2 }) as u8, filtered: rng.chance(1, 12) }
        } else if k < 60 {
            Op::BlockRemove { peer, fam, lo: lo as Px, n: n as Px }
        } else {
            let words: BTreeSet<u32> = self.known_id[fam as usize].values().map(|id| (id & 0x00ff_ffff) / 64).collect();
            let words: Vec<u32> = words.into_iter().collect();
            let word = if words.is_empty() { 0 } else { *rng.pick(&words) };
            Op::IdBlockRemove { fam, word: word as u8, keep: *rng.pick(&[0u8, 0, 0, 1, 2]) }
        }
    }

    fn gen_candidate(&self, rng: &mut Rng) -> Op {
        let down: Vec<u8> = (0..NPEER as u8).filter(|p| self.peers[*p as usize].sess.is_none()).collect();
        let up: Vec<u8> = (0..NPEER as u8).filter(|p| self.peers[*p as usize].sess.is_some()).collect();
        if !down.is_empty() && (up.is_empty() || rng.chance(1, 4)) {
            let peer = *rng.pick(&down);
            // peer0: GR + LLGR capable, peer1: GR (sometimes LLGR) capable, peer2: neither (and prefix-limited)
            let mask = |rng: &mut Rng| *rng.pick(&[3u8, 3, 3, 1, 2, 0]);
            let (gr, llgr) = match peer {
                0 => (mask(rng), mask(rng)),
                1 => (mask(rng), if rng.chance(1, 3) { mask(rng) } else { 0 }),
                _ => (0, 0),
            };
            return Op::Up { peer, gr, llgr };
        }
        // pending GR / LLGR events (timer expiry, End-of-RIB of a reconnected peer) get their own share
        if rng.chance(1, 7) {
            let mut pending: Vec<Op> = Vec::new();
            for p in 0..NPEER as u8 {
                let ps = &self.peers[p as usize];
                if ps.gr_timer {
                    pending.push(Op::GrTimer { peer: p });
                }
                for f in ps.llgr_timers.iter() {
                    pending.push(Op::LlgrTimer { peer: p, fam: *f as u8 });
                }
                if let (Some(_), Gr::Reconnected { pending: pf, .. }) = (&ps.sess, &ps.gr) {
                    for f in pf.iter() {
                        pending.push(Op::Eor { peer: p, fam: *f as u8 });
                    }
                    // the re-established session drops again before End-of-RIB
                    pending.push(Op::Down { peer: p, graceful: true });
                }
            }
            if !pending.is_empty() {
                return rng.pick(&pending).clone();
            }
        }
        let peer = if up.is_empty() { 0 } else { *rng.pick(&up) };
        let fam = rng.below(2) as u8;
        let k = rng.below(100);
        if k < 50 {
            // prefer existing keys half of the time so that replaces are frequent
            // in a large universe half of the single updates stay on the first six prefixes
            let span = if self.npfx[fam as usize] > 6 && rng.bool() { 6 } else { self.npfx[fam as usize] };
            let mut pfx = rng.below(span as u64) as Px;
            let mut pid = *rng.pick(&[0u8, 0, 0, 1, 1, 2]);
            let mut attr = *rng.pick(&[0u8, 0, 1, 1, 1, 2, 2, 3, 3, 4]);
            // IPv6 family: half of the next hops come from the group sharing one global address
            let mut nh = if fam == 1 { *rng.pick(&[0u8, 1, 2, 3, 2, 3]) } else { rng.below(2) as u8 };
            let mut filtered = rng.chance(1, 5);
            if rng.chance(1, 3) {
                // re-announce a key this peer already has (possibly written by its previous session)
                let keys: Vec<(Px, u8, u8, Option<u8>)> = self.shadow[fam as usize]
                    .iter()
                    .flat_map(|(px, v)| {
                        v.iter().filter(|s| s.peer == peer).map(move |s| {
                            let ai = self.env.attrs.iter().position(|a| same_attr(a, &s.attr)).map(|i| i as u8);
                            (*px, s.rpid, s.nh, ai)
                        })
                    })
                    .collect();
                if !keys.is_empty() {
                    let (p2, r2, old_nh, old_attr) = *rng.pick(&keys);
                    (pfx, pid) = (p2, r2);
                    if fam == 1 && rng.bool() {
                        // next-hop-only re-advertisement: same attribute set (same shared Arc unless `fresh`),
                        // another member of the same-global-address group (link-local half / variant changes)
                        if let Some(ai) = old_attr {
                            attr = ai;
                        }
                        let group: Vec<u8> = [1u8, 2, 3].into_iter().filter(|x| *x != old_nh).collect();
                        nh = *rng.pick(&group);
                        filtered = false;
                    }
                }
            }
            Op::Insert { peer, fam, pfx, pid, attr, fresh: rng.chance(1, 4), nh, filtered }
        } else if k < 62 {
            // withdraw something that exists, if anything
            let keys: Vec<(Px, u8)> = self.shadow[fam as usize]
                .iter()
                .flat_map(|(px, v)| v.iter().filter(|s| s.peer == peer).map(move |s| (*px, s.rpid)))
                .collect();
            if keys.is_empty() || rng.chance(1, 8) {
                Op::Remove { peer, fam, pfx: rng.below(self.npfx[fam as usize] as u64) as Px, pid: rng.below(3) as u8 }
            } else {
                let (pfx, pid) = *rng.pick(&keys);
                Op::Remove { peer, fam, pfx, pid }
            }
        } else if k < 70 {
            Op::Down { peer, graceful: rng.chance(4, 5) }
        } else if k < 76 {
            Op::Eor { peer, fam }
        } else if k < 80 {
            Op::GrTimer { peer: rng.below(NPEER as u64) as u8 }
        } else if k < 84 {
            Op::LlgrTimer { peer: rng.below(NPEER as u64) as u8, fam }
        } else if k < 94 {
            let nh = rng.below(2) as u8;
            Op::NhFlip { nh, reachable: self.invalid.contains(&self.env.nhs[nh as usize].addr()) }
        } else if k < 97 {
            Op::EndDeferral { fam }
        } else {
            Op::StartDeferral { fam }
        }
    }
}

// ------------------------------------------------------------------ history = header + ops

#[derive(Clone)]
struct History {
    npfx: [usize; 2],
    mode: u8,
    shard: u32,
    ops: Vec<Op>,
}

impl History {
    fn enc(&self) -> String {
        format!(
            "n{}.{};m{};s{};{}",
            self.npfx[0],
            self.npfx[1],
            self.mode,
            self.shard,
            self.ops.iter().map(|o| o.enc()).collect::<Vec<_>>().join(";")
        )
    }
    fn dec(s: &str) -> Option<History> {
        let mut it = s.split(';').peekable();
        // "n5" (both families, old form) or "n300.6"
        let n = it.next()?.strip_prefix('n')?;
        let npfx: [usize; 2] = match n.split_once('.') {
            Some((a, b)) => [a.parse().ok()?, b.parse().ok()?],
            None => {
                let v: usize = n.parse().ok()?;
                [v, v]
            }
        };
        if npfx[0] > MAX_PFX || npfx[1] > MAX_PFX {
            return None;
        }
        let mut mode = 0u8;
        if let Some(m) = it.peek().and_then(|w| w.strip_prefix('m')) {
            mode = m.parse().ok()?;
            it.next();
        }
        let shard: u32 = it.next()?.strip_prefix('s')?.parse().ok()?;
        let mut ops = Vec::new();
        for w in it {
            if !w.is_empty() {
                ops.push(Op::dec(w)?);
            }
        }
        Some(History { npfx, mode, shard, ops })
    }
}

fn replay<'a>(env: &'a Env, h: &History, trace: bool) -> Run<'a> {
    let mut r = Run::new(env, h.npfx, h.mode, h.shard, trace);
    for op in &h.ops {
        if r.stopped() {
            break;
        }
        r.apply(op);
    }
    r
}

fn fails_with(env: &Env, h: &History, sig: &str) -> bool {
    let r = replay(env, h, false);
    r.fail.as_ref().is_some_and(|f| f.sigs.iter().any(|s| s.0 == sig))
}

/// delta debugging: drop ops (then simplify fields) while the same signature still fails
fn shrink(env: &Env, h: &History, sig: &str, max_runs: usize) -> History {
    let mut cur = h.clone();
    let mut runs = 0usize;
    let mut chunk = (cur.ops.len() / 2).max(1);
    loop {
        let mut progressed = false;
        let mut i = 0;
        while i < cur.ops.len() && runs < max_runs {
            let end = (i + chunk).min(cur.ops.len());
            let mut cand = cur.clone();
            cand.ops.drain(i..end);
            runs += 1;
            if fails_with(env, &cand, sig) {
                cur = cand;
                progressed = true;
            } else {
                i = end;
            }
        }
        if runs >= max_runs {
            break;
        }
        if chunk > 1 {
            chunk = (chunk / 2).max(1);
        } else if !progressed {
            break;
        }
    }
    // field simplification
    for i in 0..cur.ops.len() {
        let variants: Vec<Op> = match cur.ops[i].clone() {
            Op::Insert { peer, fam, pfx, pid, attr, fresh, nh, filtered } => {
                let mut v = Vec::new();
                if fresh {
                    v.push(Op::Insert { peer, fam, pfx, pid, attr, fresh: false, nh, filtered });
                }
                if filtered {
                    v.push(Op::Insert { peer, fam, pfx, pid, attr, fresh, nh, filtered: false });
                }
                if attr != 1 {
                    v.push(Op::Insert { peer, fam, pfx, pid, attr: 1, fresh, nh, filtered });
                }
                if nh != 0 {
                    v.push(Op::Insert { peer, fam, pfx, pid, attr, fresh, nh: 0, filtered });
                }
                v
            }
            Op::BlockInsert { peer, fam, lo, n, attr, nh, filtered } => {
                let mut v = Vec::new();
                for m in [n / 2, 65, 64, n.saturating_sub(1)] {
                    if m >= 1 && m < n {
                        v.push(Op::BlockInsert { peer, fam, lo, n: m, attr, nh, filtered });
                    }
                }
                if filtered {
                    v.push(Op::BlockInsert { peer, fam, lo, n, attr, nh, filtered: false });
                }
                v
            }
            Op::Up { peer, gr, llgr } => {
                let mut v = Vec::new();
                if llgr != 0 {
                    v.push(Op::Up { peer, gr, llgr: 0 });
                }
                if gr != 0 && gr != 3 {
                    v.push(Op::Up { peer, gr: 3, llgr });
                }
                v
            }
            _ => vec![],
        };
        for cand_op in variants {
            if runs >= max_runs + max_runs / 4 {
                break;
            }
            let mut cand = cur.clone();
            cand.ops[i] = cand_op;
            runs += 1;
            if fails_with(env, &cand, sig) {
                cur = cand;
            }
        }
    }
    {
        let mut need = [1usize; 2];
        for o in &cur.ops {
            match o {
                Op::Insert { fam, pfx, .. } | Op::Remove { fam, pfx, .. } => {
                    let f = *fam as usize & 1;
                    need[f] = need[f].max(*pfx as usize + 1);
                }
                Op::BlockInsert { fam, lo, n, .. } | Op::BlockRemove { fam, lo, n, .. } => {
                    let f = *fam as usize & 1;
                    need[f] = need[f].max(*lo as usize + *n as usize);
                }
                _ => {}
            }
        }
        let mut cand = cur.clone();
        cand.npfx = [need[0].min(cur.npfx[0]), need[1].min(cur.npfx[1])];
        if cand.npfx != cur.npfx && fails_with(env, &cand, sig) {
            cur = cand;
        }
    }
    cur
}

/// block operations make thousands of calls: keep the head and the tail of a long trace
fn cap_trace(t: Vec<String>) -> Vec<String> {
    if t.len() <= 400 {
        return t;
    }
    let mut out: Vec<String> = t[..120].to_vec();
    out.push(format!("  ... {} lines omitted (replay the history for the full trace) ...", t.len() - 360));
    out.extend_from_slice(&t[t.len() - 240..]);
    out
}

fn witness(env: &Env, h: &History, sig: &str, original_len: usize) -> Json {
    let r = replay(env, h, true);
    let mut kv: Vec<(String, Json)> = vec![
        ("history".into(), Json::s(h.enc())),
        ("prefixes_v4".into(), Json::Int(h.npfx[0] as i128)),
        ("prefixes_v6".into(), Json::Int(h.npfx[1] as i128)),
        ("shard_idx".into(), Json::Int(h.shard as i128)),
        ("ops_before_shrinking".into(), Json::Int(original_len as i128)),
        ("ops".into(), Json::strs(h.ops.iter().map(|o| o.describe()))),
        ("trace".into(), Json::strs(cap_trace(r.trace.clone().unwrap_or_default()))),
    ];
    if let Some(f) = &r.fail {
        kv.push(("failing_call".into(), Json::s(f.kind.clone())));
        kv.push(("failing_op_index".into(), Json::Int(f.op_index as i128)));
        kv.push(("clause".into(), Json::s(f.clause)));
        kv.push(("all_signatures_at_failing_call".into(), Json::strs(f.sigs.iter().map(|s| s.0.clone()))));
        if let Some(s) = f.sigs.iter().find(|s| s.0 == sig) {
            kv.push(("what".into(), Json::s(s.1.clone())));
        }
        for (k, v) in &f.detail {
            kv.push((k.clone(), v.clone()));
        }
    }
    Json::Obj(kv)
}

fn merge_run(rep: &mut Report, r: &Run) {
    rep.evals(r.steps);
    for h in &r.nontrivial {
        rep.nontrivial(*h);
    }
    for (k, v) in &r.counters {
        rep.count_n(k, *v);
    }
    let f = &r.fstats;
    rep.count_n("consumer:best-skipped(!best_changed)", f.best_skipped);
    rep.count_n("consumer:best-taken", f.best_taken);
    rep.count_n("consumer:addpath-skipped(!any_changed)", f.ap_skipped);
    rep.count_n("consumer:addpath-taken", f.ap_taken);
    rep.count_n("consumer:addpath-resend-on-replaced_path_id", f.ap_resend_replaced);
    rep.count_n("consumer:addpath-withdraw-at-topN-boundary", f.ap_boundary_withdraw);
    rep.count_n("consumer:addpath-already-sent-kept", f.ap_already_sent_kept);
    rep.max("live-destinations-in-one-rib", r.max_live);
}

fn report_failure(rep: &mut Report, env: &Env, h: &History, r: &Run, shrink_runs: usize) {
    let Some(f) = &r.fail else { return };
    for (sig, what) in &f.sigs {
        if rep.has_violation(sig) {
            rep.violation(sig, what, Json::Null);
            continue;
        }
        // cut after the failing op, then shrink
        let mut cut = h.clone();
        cut.ops.truncate(f.op_index + 1);
        let small = if fails_with(env, &cut, sig) { shrink(env, &cut, sig, shrink_runs) } else { h.clone() };
        let w = witness(env, &small, sig, h.ops.len());
        rep.violation(sig, what, w);
    }
}

fn extract_history(text: &str) -> Option<String> {
    let i = text.find("\"history\"")?;
    let rest = &text[i + 9..];
    let a = rest.find('"')?;
    let rest = &rest[a + 1..];
    let b = rest.find('"')?;
    Some(rest[..b].to_string())
}

fn main() {
    let params = Params::from_args_env();
    let rule = "case = one Table call (step) of one history (small universe, or allocator shape: 200-400 prefixes with block operations), judged against collect_loc_rib_paths[_limited]; non-trivial = the call returned at least one NlriChange or was an insert suppressed by deferral; distinct by hash of (universe sizes, mode, shard index, applied op list up to the step, call kind)";
    let mut rep = Report::new("C06", &params);
    rep.extra("rule", Json::s(rule));
    let env = Env::new();

    if let Some(path) = params.replay.clone() {
        // re-execute exactly one recorded history (witness "history" string, or a replay file holding one)
        let text = std::fs::read_to_string(&path).unwrap_or(path.clone());
        let hs = extract_history(&text).unwrap_or(text.trim().to_string());
        match History::dec(&hs) {
            None => rep.inconclusive("replay: cannot parse history"),
            Some(h) => {
                let r = replay(&env, &h, true);
                for l in r.trace.clone().unwrap_or_default() {
                    eprintln!("{}", l);
                }
                merge_run(&mut rep, &r);
                if let Some(e) = &r.harness_error {
                    rep.inconclusive(e);
                }
                if let Some(f) = &r.fail {
                    for (sig, what) in &f.sigs {
                        rep.violation(sig, what, witness(&env, &h, sig, h.ops.len()));
                    }
                }
                rep.sample(Json::obj(vec![("history", Json::s(h.enc())), ("steps", Json::Int(r.steps as i128))]));
            }
        }
        // floors do not apply to a single replay; the driver still merges them
        std::process::exit(rep.finish());
    }

    // `salt` lets run-plan entries that get the same shard seeds (debug / release) generate different histories
    let mut rng = Rng::new(params.seed ^ 0xC06 ^ (params.get_u64("salt", 0) << 32));
    // part=hist: small-universe histories; part=alloc: allocator shape (large universe, block operations); all: both
    let part = params.get("part").unwrap_or("all").to_string();
    let miri = params.scale < 0.1;
    let mut done = 0u64;
    for mode in 0..2u8 {
        if (mode == 0 && part == "alloc") || (mode == 1 && part == "hist") {
            continue;
        }
        let histories = if mode == 0 { params.n(1300, 20_000) } else { params.n(30, 300) };
        let len = params.get_u64("len", if mode == 1 { 60 } else if params.thorough() { 80 } else { 40 }) as usize;
        // shrinking is bounded by a number of re-executions; none under Miri (one Table call costs ~1 s there,
        // and the native shards find and shrink the same signatures); an allocator history costs ~1000 calls
        let shrink_runs = if miri { 0 } else if mode == 1 { 250 } else { 4000 };
        for hno in 0..histories {
            if !rep.in_budget() {
                break;
            }
            let mut hr = rng.fork();
            let npfx = if mode == 0 {
                let n = 4 + hr.usize(3);
                [n, n]
            } else {
                // 200..400 prefixes in one family (ids spill over 4-7 bitmap words), six in the other
                let big = if miri { 70 + hr.usize(10) } else { 200 + hr.usize(201) };
                if hr.chance(3, 4) { [big, 6] } else { [6, big] }
            };
            let shard = *hr.pick(&[0u32, 0, 1, 254]);
            let mut run = Run::new(&env, npfx, mode, shard, false);
            let mut ops: Vec<Op> = Vec::new();
            // restarting-speaker start-up: deferral is set before anything else happens
            if hr.chance(1, 4) {
                for fam in 0..2u8 {
                    if hr.chance(2, 3) {
                        let op = Op::StartDeferral { fam };
                        run.apply(&op);
                        ops.push(op);
                    }
                }
            }
            while ops.len() < len && !run.stopped() {
                let op = run.gen_op(&mut hr);
                run.apply(&op);
                ops.push(op);
            }
            // close every deferral so that the end_deferral clause is judged for each one started
            for fam in 0..2u8 {
                if run.deferring[fam as usize] && !run.stopped() {
                    let op = Op::EndDeferral { fam };
                    run.apply(&op);
                    ops.push(op);
                }
            }
            done += 1;
            rep.count(if mode == 0 { "histories" } else { "alloc-histories" });
            if mode == 0 && run.registry.len() > 2 * NPEER {
                rep.count("histories-with-restarted-session");
            }
            if mode == 1 {
                if run.max_live > 64 {
                    rep.count("alloc-histories-with-more-than-64-live-destinations");
                }
                if run.counters.get("alloc:whole-block-released-below-live-block").is_some() {
                    rep.count("alloc-histories-with-whole-block-release-below-live-block");
                }
            }
            merge_run(&mut rep, &run);
            let h = History { npfx, mode, shard, ops };
            if let Some(e) = &run.harness_error {
                rep.inconclusive(&format!("harness: {} [history {}]", e, h.enc()));
            }
            if run.fail.is_some() {
                report_failure(&mut rep, &env, &h, &run, shrink_runs);
            }
            if mode == 0 && rep.want_sample() && hno % 97 == 5 {
                let r2 = replay(&env, &h, true);
                rep.sample(Json::obj(vec![
                    ("history", Json::s(h.enc())),
                    ("table_calls", Json::Int(r2.steps as i128)),
                    ("trace", Json::strs(cap_trace(r2.trace.clone().unwrap_or_default()))),
                    ("verdict", Json::s(if r2.fail.is_some() { "violation" } else { "all clauses held after every call" })),
                ]));
            }
            if mode == 1 && hno == 1 {
                rep.sample(Json::obj(vec![
                    ("history", Json::s(h.enc())),
                    ("ops", Json::strs(h.ops.iter().map(|o| o.describe()))),
                    ("table_calls", Json::Int(run.steps as i128)),
                    ("max_live_destinations", Json::Int(run.max_live as i128)),
                    ("verdict", Json::s(if run.fail.is_some() { "violation" } else { "all clauses held after every call" })),
                ]));
            }
        }
    }
    if done < 10 && params.scale >= 1.0 {
        rep.inconclusive("fewer than 10 histories executed");
    }
    std::process::exit(rep.finish());
}
