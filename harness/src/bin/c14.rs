//! C14 — routing policy evaluates as specified and can never crash on a route.
//!
//! Workload: random policy programs (defined sets with nested / overlapping
//! prefix entries, as-path / community patterns, every supported condition and
//! action) loaded into the real `table::PolicyTable` through its CRUD API and
//! evaluated with `table::apply_import` / `table::apply_export` on routes whose
//! attribute vectors come from the real wire decoder or the attribute API.
//! Oracle: a reference interpreter written from the property statement.
//! CRUD histories check referential integrity after every operation.
use rbgp_verif::common::*;
use rustybgp_packet::bgp::{self, Ipv4Net, Ipv6Net, Nexthop, PeerCodec};
use rustybgp_packet::{Attribute, Family, IpNet, Nlri};
use rustybgp_table as table;
use std::collections::{BTreeMap, BTreeSet};
use std::net::{IpAddr, Ipv4Addr, Ipv6Addr};
use std::sync::Arc;
use table::{
    Actions, AsPrependAction, CommunityAction, CommunityActionType, Comparison, ConditionConfig, DefinedSetConfig,
    Disposition, ExtCommunityAction, LargeCommunityAction, LocalPrefAction, MatchOption, MedAction, MedActionType,
    NexthopAction, OriginAction, PeerRole, PolicyAssignment, PolicyDirection, PolicyTable, PrefixConfig, Roa, RouteType,
    RpkiTable, RpkiValidationState, Source,
};

// ===================================================================== model

#[derive(Clone, Copy, PartialEq, Eq, Debug, Hash, PartialOrd, Ord)]
enum Opt {
    Any,
    All,
    Invert,
}

impl Opt {
    fn real(self) -> MatchOption {
        match self {
            Opt::Any => MatchOption::Any,
            Opt::All => MatchOption::All,
            Opt::Invert => MatchOption::Invert,
        }
    }
    fn name(self) -> &'static str {
        match self {
            Opt::Any => "any",
            Opt::All => "all",
            Opt::Invert => "invert",
        }
    }
}

#[derive(Clone, Copy, PartialEq, Eq, Debug, Hash, PartialOrd, Ord)]
enum SetKind {
    Prefix,
    Neighbor,
    AsPath,
    Comm,
    Ext,
    Large,
}

impl SetKind {
    fn name(self) -> &'static str {
        match self {
            SetKind::Prefix => "prefix-set",
            SetKind::Neighbor => "neighbor-set",
            SetKind::AsPath => "as-path-set",
            SetKind::Comm => "community-set",
            SetKind::Ext => "ext-community-set",
            SetKind::Large => "large-community-set",
        }
    }
    fn short(self) -> &'static str {
        match self {
            SetKind::Prefix => "ps",
            SetKind::Neighbor => "ns",
            SetKind::AsPath => "as",
            SetKind::Comm => "cs",
            SetKind::Ext => "es",
            SetKind::Large => "ls",
        }
    }
}

const ALL_KINDS: [SetKind; 6] = [SetKind::Prefix, SetKind::Neighbor, SetKind::AsPath, SetKind::Comm, SetKind::Ext, SetKind::Large];

/// A prefix-set entry: prefix `addr/len` (addr in the low 32 bits for v4, 128
/// bits for v6) and the mask-length range [min,max].
#[derive(Clone, PartialEq, Eq, Debug)]
struct PfxEntry {
    v6: bool,
    addr: u128,
    len: u8,
    min: u8,
    max: u8,
}

fn width(v6: bool) -> u32 {
    if v6 { 128 } else { 32 }
}

fn top_bits(addr: u128, len: u8, v6: bool) -> u128 {
    let w = width(v6);
    if len == 0 {
        0
    } else if len as u32 >= w {
        addr
    } else {
        addr >> (w - len as u32)
    }
}

fn mask_to(addr: u128, len: u8, v6: bool) -> u128 {
    let w = width(v6);
    if len == 0 {
        0
    } else if len as u32 >= w {
        addr
    } else {
        (addr >> (w - len as u32)) << (w - len as u32)
    }
}

fn ip_of(v6: bool, addr: u128) -> IpAddr {
    if v6 { IpAddr::V6(Ipv6Addr::from(addr)) } else { IpAddr::V4(Ipv4Addr::from(addr as u32)) }
}

fn ip_to_u128(a: &IpAddr) -> (bool, u128) {
    match a {
        IpAddr::V4(x) => (false, u32::from(*x) as u128),
        IpAddr::V6(x) => (true, u128::from(*x)),
    }
}

impl PfxEntry {
    fn clean(&self) -> bool {
        mask_to(self.addr, self.len, self.v6) == self.addr
    }
    fn text(&self) -> String {
        format!("{}/{} {}..{}", ip_of(self.v6, self.addr), self.len, self.min, self.max)
    }
    /// the statement: "a set entry covers the route's prefix and the route's
    /// length lies in the entry's range"
    fn matches(&self, v6: bool, addr: u128, len: u8) -> bool {
        self.covers(v6, addr, len) && self.min <= len && len <= self.max
    }
    fn covers(&self, v6: bool, addr: u128, len: u8) -> bool {
        self.v6 == v6 && self.len <= len && top_bits(addr, self.len, v6) == top_bits(self.addr, self.len, v6)
    }
}

#[derive(Clone, PartialEq, Eq, Debug)]
enum AsPat {
    Include(u32),
    LeftMost(u32),
    Origin(u32),
    Only(u32),
    RInclude(u32, u32),
    RLeftMost(u32, u32),
    ROrigin(u32, u32),
    ROnly(u32, u32),
    /// anything that is not one of the single-match forms: not judged
    Regex(String),
}

impl AsPat {
    fn text(&self) -> String {
        match self {
            AsPat::Include(a) => format!("_{}_", a),
            AsPat::LeftMost(a) => format!("^{}_", a),
            AsPat::Origin(a) => format!("_{}$", a),
            AsPat::Only(a) => format!("^{}$", a),
            AsPat::RInclude(a, b) => format!("_{}-{}_", a, b),
            AsPat::RLeftMost(a, b) => format!("^{}-{}_", a, b),
            AsPat::ROrigin(a, b) => format!("_{}-{}$", a, b),
            AsPat::ROnly(a, b) => format!("^{}-{}$", a, b),
            AsPat::Regex(s) => s.clone(),
        }
    }
    fn kind(&self) -> &'static str {
        match self {
            AsPat::Include(_) => "include",
            AsPat::LeftMost(_) => "leftmost",
            AsPat::Origin(_) => "origin",
            AsPat::Only(_) => "only",
            AsPat::RInclude(..) => "range-include",
            AsPat::RLeftMost(..) => "range-leftmost",
            AsPat::ROrigin(..) => "range-origin",
            AsPat::ROnly(..) => "range-only",
            AsPat::Regex(_) => "regex",
        }
    }
    /// `flat`: the ASes of the path in order (judged domain: AS_SEQUENCE only)
    fn matches(&self, flat: &[u32]) -> Option<bool> {
        let within = |x: u32, a: u32, b: u32| x >= a && x <= b;
        Some(match self {
            AsPat::Include(a) => flat.contains(a),
            AsPat::LeftMost(a) => flat.first() == Some(a),
            AsPat::Origin(a) => flat.last() == Some(a),
            AsPat::Only(a) => flat.len() == 1 && flat[0] == *a,
            AsPat::RInclude(a, b) => flat.iter().any(|x| within(*x, *a, *b)),
            AsPat::RLeftMost(a, b) => flat.first().is_some_and(|x| within(*x, *a, *b)),
            AsPat::ROrigin(a, b) => flat.last().is_some_and(|x| within(*x, *a, *b)),
            AsPat::ROnly(a, b) => flat.len() == 1 && within(flat[0], *a, *b),
            AsPat::Regex(_) => return None,
        })
    }
}

const WELL_KNOWN: [(&str, u32); 4] = [
    ("no-export", 0xffff_ff01),
    ("no-advertise", 0xffff_ff02),
    ("blackhole", 0xffff_029a),
    ("graceful-shutdown", 0xffff_0000),
];

#[derive(Clone, PartialEq, Eq, Debug)]
enum CommPat {
    Pair(u16, u16),
    Numeric(u32),
    WellKnown(usize),
    HighWild(u16),
}

impl CommPat {
    fn text(&self) -> String {
        match self {
            CommPat::Pair(a, b) => format!("{}:{}", a, b),
            CommPat::Numeric(v) => format!("{}", v),
            CommPat::WellKnown(i) => WELL_KNOWN[*i].0.to_string(),
            CommPat::HighWild(a) => format!("^{}:[0-9]+$", a),
        }
    }
    fn kind(&self) -> &'static str {
        match self {
            CommPat::Pair(..) => "pair",
            CommPat::Numeric(_) => "numeric",
            CommPat::WellKnown(_) => "well-known",
            CommPat::HighWild(_) => "as-wildcard",
        }
    }
    fn matches(&self, c: u32) -> bool {
        match self {
            CommPat::Pair(a, b) => c == ((*a as u32) << 16 | *b as u32),
            CommPat::Numeric(v) => c == *v,
            CommPat::WellKnown(i) => c == WELL_KNOWN[*i].1,
            CommPat::HighWild(a) => (c >> 16) as u16 == *a,
        }
    }
    /// the value a pattern denotes, for "same element" in partial deletes
    fn canon(&self) -> (u8, u32) {
        match self {
            CommPat::Pair(a, b) => (0, (*a as u32) << 16 | *b as u32),
            CommPat::Numeric(v) => (0, *v),
            CommPat::WellKnown(i) => (0, WELL_KNOWN[*i].1),
            CommPat::HighWild(a) => (1, *a as u32),
        }
    }
}

/// Extended-community pattern: an anchored literal in the usual textual syntax
/// (`rt:<as>:<n>`, `soo:<as>:<n>`, `rt:<ipv4>:<n>`).
#[derive(Clone, PartialEq, Eq, Debug)]
struct ExtPat(String);

impl ExtPat {
    fn text(&self) -> String {
        format!("^{}$", self.0)
    }
}

/// textual form of the route-target / site-of-origin communities (RFC 4360
/// types 0x00/0x01/0x02, sub-types 2/3); everything else has no textual form
/// that an rt:/soo: literal could equal.
fn ext_text(c: &[u8; 8]) -> Option<String> {
    let sub = match c[1] {
        2 => "rt",
        3 => "soo",
        _ => return None,
    };
    match c[0] {
        0x00 => Some(format!("{}:{}:{}", sub, u16::from_be_bytes([c[2], c[3]]), u32::from_be_bytes([c[4], c[5], c[6], c[7]]))),
        0x01 => Some(format!("{}:{}:{}", sub, Ipv4Addr::new(c[2], c[3], c[4], c[5]), u16::from_be_bytes([c[6], c[7]]))),
        0x02 => Some(format!("{}:{}:{}", sub, u32::from_be_bytes([c[2], c[3], c[4], c[5]]), u16::from_be_bytes([c[6], c[7]]))),
        _ => None,
    }
}

#[derive(Clone, PartialEq, Eq, Debug)]
enum LargePat {
    Exact(u32, u32, u32),
    GaWild(u32),
}

impl LargePat {
    fn text(&self) -> String {
        match self {
            LargePat::Exact(a, b, c) => format!("^{}:{}:{}$", a, b, c),
            LargePat::GaWild(a) => format!("^{}:[0-9]+:[0-9]+$", a),
        }
    }
    fn matches(&self, v: &(u32, u32, u32)) -> bool {
        match self {
            LargePat::Exact(a, b, c) => (*a, *b, *c) == *v,
            LargePat::GaWild(a) => v.0 == *a,
        }
    }
}

#[derive(Clone, PartialEq, Eq, Debug)]
enum SetBody {
    Prefix(Vec<PfxEntry>),
    Neighbor(Vec<(bool, u128, u8)>),
    AsPath(Vec<AsPat>),
    Comm(Vec<CommPat>),
    Ext(Vec<ExtPat>),
    Large(Vec<LargePat>),
}

impl SetBody {
    fn texts(&self) -> Vec<String> {
        match self {
            SetBody::Prefix(v) => v.iter().map(|e| e.text()).collect(),
            SetBody::Neighbor(v) => v.iter().map(|(v6, a, l)| format!("{}/{}", ip_of(*v6, *a), l)).collect(),
            SetBody::AsPath(v) => v.iter().map(|e| e.text()).collect(),
            SetBody::Comm(v) => v.iter().map(|e| e.text()).collect(),
            SetBody::Ext(v) => v.iter().map(|e| e.text()).collect(),
            SetBody::Large(v) => v.iter().map(|e| e.text()).collect(),
        }
    }
    fn config(&self, name: &str) -> DefinedSetConfig {
        let name = name.to_string();
        match self {
            SetBody::Prefix(v) => DefinedSetConfig::Prefix {
                name,
                prefixes: v
                    .iter()
                    .map(|e| PrefixConfig {
                        ip_prefix: format!("{}/{}", ip_of(e.v6, e.addr), e.len),
                        mask_length_min: e.min,
                        mask_length_max: e.max,
                    })
                    .collect(),
            },
            SetBody::Neighbor(_) => DefinedSetConfig::Neighbor { name, neighbors: self.texts() },
            SetBody::AsPath(_) => DefinedSetConfig::AsPath { name, patterns: self.texts() },
            SetBody::Comm(_) => DefinedSetConfig::Community { name, patterns: self.texts() },
            SetBody::Ext(_) => DefinedSetConfig::ExtCommunity { name, patterns: self.texts() },
            SetBody::Large(_) => DefinedSetConfig::LargeCommunity { name, patterns: self.texts() },
        }
    }
    /// union (GoBGP `Append`): the elements of `other` are added
    fn merge(&mut self, other: &SetBody) {
        match (self, other) {
            (SetBody::Prefix(a), SetBody::Prefix(b)) => a.extend(b.iter().cloned()),
            (SetBody::Neighbor(a), SetBody::Neighbor(b)) => a.extend(b.iter().cloned()),
            (SetBody::AsPath(a), SetBody::AsPath(b)) => a.extend(b.iter().cloned()),
            (SetBody::Comm(a), SetBody::Comm(b)) => a.extend(b.iter().cloned()),
            (SetBody::Ext(a), SetBody::Ext(b)) => a.extend(b.iter().cloned()),
            (SetBody::Large(a), SetBody::Large(b)) => a.extend(b.iter().cloned()),
            _ => {}
        }
    }
    /// remove the given elements (elements not present are ignored)
    fn remove(&mut self, other: &SetBody) {
        match (self, other) {
            (SetBody::Prefix(a), SetBody::Prefix(b)) => a.retain(|x| !b.contains(x)),
            (SetBody::Neighbor(a), SetBody::Neighbor(b)) => a.retain(|x| !b.contains(x)),
            (SetBody::AsPath(a), SetBody::AsPath(b)) => a.retain(|x| !b.contains(x)),
            (SetBody::Comm(a), SetBody::Comm(b)) => a.retain(|x| !b.iter().any(|y| y.canon() == x.canon())),
            (SetBody::Ext(a), SetBody::Ext(b)) => a.retain(|x| !b.contains(x)),
            (SetBody::Large(a), SetBody::Large(b)) => a.retain(|x| !b.contains(x)),
            _ => {}
        }
    }
    fn has_multi_range(&self) -> bool {
        if let SetBody::Prefix(v) = self {
            for (i, a) in v.iter().enumerate() {
                for b in &v[i + 1..] {
                    if a.v6 == b.v6 && a.addr == b.addr && a.len == b.len && (a.min, a.max) != (b.min, b.max) {
                        return true;
                    }
                }
            }
        }
        false
    }
}

#[derive(Clone, Copy, PartialEq, Eq, Debug)]
enum Cmp {
    Eq,
    Ge,
    Le,
}

impl Cmp {
    fn real(self) -> Comparison {
        match self {
            Cmp::Eq => Comparison::Eq,
            Cmp::Ge => Comparison::Ge,
            Cmp::Le => Comparison::Le,
        }
    }
    fn test(self, l: u64, v: u64) -> bool {
        match self {
            Cmp::Eq => l == v,
            Cmp::Ge => l >= v,
            Cmp::Le => l <= v,
        }
    }
}

#[derive(Clone, Copy, PartialEq, Eq, Debug)]
enum RpkiSt {
    NotFound,
    Valid,
    Invalid,
}

#[derive(Clone, Copy, PartialEq, Eq, Debug)]
enum RType {
    Internal,
    External,
    Local,
}

#[derive(Clone, Copy, PartialEq, Eq, Debug, Hash)]
enum Fam {
    V4,
    V6,
    Vpn4,
    Mpls4,
}

impl Fam {
    fn real(self) -> Family {
        match self {
            Fam::V4 => Family::IPV4,
            Fam::V6 => Family::IPV6,
            Fam::Vpn4 => Family::IPV4_VPN,
            Fam::Mpls4 => Family::IPV4_MPLS,
        }
    }
}

#[derive(Clone, PartialEq, Debug)]
enum Cond {
    Set(SetKind, String, Opt),
    AsPathLen(Cmp, u32),
    Nexthop(Vec<IpAddr>),
    Rpki(RpkiSt),
    LocalPref(u32),
    Med(u32),
    Origin(u8),
    RouteType(RType),
    CommCount(Cmp, u32),
    AfiSafi(Vec<Fam>),
}

impl Cond {
    /// condition *kind* (what add/delete-statement merge by)
    fn kind_id(&self) -> u8 {
        match self {
            Cond::Set(k, ..) => *k as u8,
            Cond::AsPathLen(..) => 10,
            Cond::Nexthop(_) => 11,
            Cond::Rpki(_) => 12,
            Cond::LocalPref(_) => 13,
            Cond::Med(_) => 14,
            Cond::Origin(_) => 15,
            Cond::RouteType(_) => 16,
            Cond::CommCount(..) => 17,
            Cond::AfiSafi(_) => 18,
        }
    }
    fn kind_name(&self) -> &'static str {
        match self {
            Cond::Set(k, ..) => k.name(),
            Cond::AsPathLen(..) => "as-path-length",
            Cond::Nexthop(_) => "next-hop-in",
            Cond::Rpki(_) => "rpki",
            Cond::LocalPref(_) => "local-pref-eq",
            Cond::Med(_) => "med-eq",
            Cond::Origin(_) => "origin-eq",
            Cond::RouteType(_) => "route-type",
            Cond::CommCount(..) => "community-count",
            Cond::AfiSafi(_) => "afi-safi-in",
        }
    }
    fn text(&self) -> String {
        match self {
            Cond::Set(k, n, o) => format!("{} {} {}", k.name(), n, o.name()),
            other => format!("{:?}", other),
        }
    }
    fn config(&self) -> ConditionConfig {
        match self {
            Cond::Set(k, n, o) => {
                let (n, o) = (n.clone(), o.real());
                match k {
                    SetKind::Prefix => ConditionConfig::PrefixSet(n, o),
                    SetKind::Neighbor => ConditionConfig::NeighborSet(n, o),
                    SetKind::AsPath => ConditionConfig::AsPathSet(n, o),
                    SetKind::Comm => ConditionConfig::CommunitySet(n, o),
                    SetKind::Ext => ConditionConfig::ExtCommunitySet(n, o),
                    SetKind::Large => ConditionConfig::LargeCommunitySet(n, o),
                }
            }
            Cond::AsPathLen(c, v) => ConditionConfig::AsPathLength(c.real(), *v),
            Cond::Nexthop(v) => ConditionConfig::Nexthop(v.clone()),
            Cond::Rpki(s) => ConditionConfig::Rpki(match s {
                RpkiSt::NotFound => RpkiValidationState::NotFound,
                RpkiSt::Valid => RpkiValidationState::Valid,
                RpkiSt::Invalid => RpkiValidationState::Invalid,
            }),
            Cond::LocalPref(v) => ConditionConfig::LocalPrefEq(*v),
            Cond::Med(v) => ConditionConfig::MedEq(*v),
            Cond::Origin(v) => ConditionConfig::Origin(*v),
            Cond::RouteType(r) => ConditionConfig::RouteType(match r {
                RType::Internal => RouteType::Internal,
                RType::External => RouteType::External,
                RType::Local => RouteType::Local,
            }),
            Cond::CommCount(c, v) => ConditionConfig::CommunityCount(c.real(), *v),
            Cond::AfiSafi(v) => ConditionConfig::AfiSafiIn(v.iter().map(|f| f.real()).collect()),
        }
    }
}

#[derive(Clone, Copy, PartialEq, Eq, Debug)]
enum Disp {
    Pass,
    Accept,
    Reject,
}

impl Disp {
    fn real(self) -> Disposition {
        match self {
            Disp::Pass => Disposition::Pass,
            Disp::Accept => Disposition::Accept,
            Disp::Reject => Disposition::Reject,
        }
    }
    fn of(d: Disposition) -> Disp {
        match d {
            Disposition::Pass => Disp::Pass,
            Disposition::Accept => Disp::Accept,
            Disposition::Reject => Disp::Reject,
        }
    }
}

/// statement of the model table: conditions refer to sets by name
#[derive(Clone)]
struct MStmt {
    conds: Vec<Cond>,
    disp: Option<Disp>,
    actions: Actions,
}

fn actions_text(a: &Actions) -> String {
    let mut v = Vec::new();
    if let Some(x) = &a.nexthop {
        v.push(format!("nexthop={:?}", x));
    }
    if let Some(x) = &a.community {
        v.push(format!("community={:?}", x));
    }
    if let Some(x) = &a.local_pref {
        v.push(format!("local-pref={:?}", x));
    }
    if let Some(x) = &a.med {
        v.push(format!("med={:?}", x));
    }
    if let Some(x) = &a.as_prepend {
        v.push(format!("as-prepend={:?}", x));
    }
    if let Some(x) = &a.ext_community {
        v.push(format!("ext-community={:?}", x));
    }
    if let Some(x) = &a.large_community {
        v.push(format!("large-community={:?}", x));
    }
    if let Some(x) = &a.origin {
        v.push(format!("origin={:?}", x));
    }
    v.join(" ")
}

fn action_count(a: &Actions) -> usize {
    a.nexthop.is_some() as usize
        + a.community.is_some() as usize
        + a.local_pref.is_some() as usize
        + a.med.is_some() as usize
        + a.as_prepend.is_some() as usize
        + a.ext_community.is_some() as usize
        + a.large_community.is_some() as usize
        + a.origin.is_some() as usize
}

#[derive(Clone)]
struct MSet {
    body: SetBody,
    /// two entries with the same prefix and different ranges were present at some time
    multi_range: bool,
}

#[derive(Clone, Default)]
struct MTable {
    sets: BTreeMap<(SetKind, String), MSet>,
    stmts: BTreeMap<String, MStmt>,
    pols: BTreeMap<String, Vec<String>>,
}

/// a condition with its defined set resolved (what a statement evaluates)
#[derive(Clone)]
enum RCond {
    Set(SetKind, String, Opt, Option<MSet>),
    Plain(Cond),
}

#[derive(Clone)]
struct RStmt {
    policy: String,
    name: String,
    conds: Vec<RCond>,
    disp: Option<Disp>,
    actions: Actions,
}

/// what a policy assignment evaluates: the statements of its policies in order
#[derive(Clone)]
struct Program {
    dir_export: bool,
    default: Disp,
    policies: Vec<String>,
    stmts: Vec<RStmt>,
    /// a name did not resolve in the model (dangling reference)
    dangling: Option<String>,
}

impl MTable {
    fn resolve(&self, dir_export: bool, default: Disp, policies: &[String]) -> Program {
        let mut stmts = Vec::new();
        let mut dangling = None;
        for p in policies {
            match self.pols.get(p) {
                None => dangling = Some(format!("policy {}", p)),
                Some(names) => {
                    for n in names {
                        match self.stmts.get(n) {
                            None => dangling = Some(format!("statement {}", n)),
                            Some(s) => stmts.push(RStmt {
                                policy: p.clone(),
                                name: n.clone(),
                                conds: s
                                    .conds
                                    .iter()
                                    .map(|c| match c {
                                        Cond::Set(k, sn, o) => RCond::Set(*k, sn.clone(), *o, self.sets.get(&(*k, sn.clone())).cloned()),
                                        other => RCond::Plain(other.clone()),
                                    })
                                    .collect(),
                                disp: s.disp,
                                actions: s.actions.clone(),
                            }),
                        }
                    }
                }
            }
        }
        Program { dir_export, default, policies: policies.to_vec(), stmts, dangling }
    }
    fn set_users(&self, k: SetKind, name: &str) -> Option<String> {
        self.stmts
            .iter()
            .find(|(_, s)| s.conds.iter().any(|c| matches!(c, Cond::Set(k2, n2, _) if *k2 == k && n2 == name)))
            .map(|(n, _)| format!("statement {}", n))
    }
    fn stmt_users(&self, name: &str) -> Option<String> {
        self.pols.iter().find(|(_, v)| v.iter().any(|s| s == name)).map(|(n, _)| format!("policy {}", n))
    }
}

impl Program {
    fn text(&self) -> Vec<String> {
        let mut out = vec![format!(
            "assignment dir={} default={:?} policies={:?}",
            if self.dir_export { "export" } else { "import" },
            self.default,
            self.policies
        )];
        for s in &self.stmts {
            let conds: Vec<String> = s
                .conds
                .iter()
                .map(|c| match c {
                    RCond::Set(k, n, o, b) => format!(
                        "{} {} {} [{}]",
                        k.name(),
                        n,
                        o.name(),
                        b.as_ref().map(|b| b.body.texts().join(", ")).unwrap_or_else(|| "?".into())
                    ),
                    RCond::Plain(c) => c.text(),
                })
                .collect();
            out.push(format!(
                "  {}/{}: if [{}] then {} disposition={:?}",
                s.policy,
                s.name,
                conds.join(" && "),
                actions_text(&s.actions),
                s.disp
            ));
        }
        out
    }
}

// ===================================================================== routes

const LOCAL_AS: u32 = 65000;

struct World {
    sources: Vec<(Arc<Source>, &'static str)>,
    rpki: RpkiTable,
    vrps: Vec<(bool, u128, u8, u8, u32)>,
}

fn make_world() -> World {
    let s = |ra: &str, la: &str, ras: u32, role: PeerRole| {
        Arc::new(Source::new(ra.parse().unwrap(), la.parse().unwrap(), ras, LOCAL_AS, Ipv4Addr::new(1, 1, 1, 1), role))
    };
    let sources = vec![
        (s("192.0.2.1", "192.0.2.254", 65001, PeerRole::Ebgp), "ebgp 192.0.2.1 AS65001"),
        (s("192.0.2.2", "192.0.2.254", LOCAL_AS, PeerRole::Ibgp), "ibgp 192.0.2.2"),
        (s("198.51.100.7", "198.51.100.254", LOCAL_AS, PeerRole::IbgpRrClient), "ibgp-rr-client 198.51.100.7"),
        (Source::local(), "local"),
        (s("2001:db8:ffff::1", "2001:db8:ffff::fe", 65002, PeerRole::Ebgp), "ebgp 2001:db8:ffff::1 AS65002"),
    ];
    let cache = Arc::new(IpAddr::V4(Ipv4Addr::new(203, 0, 113, 1)));
    let vrps: Vec<(bool, u128, u8, u8, u32)> = vec![
        (false, 0x0A01_0000, 16, 24, 65001),
        (false, 0x0A02_0000, 16, 16, 65002),
        (false, 0xC0A8_0000, 16, 24, 65003),
        (true, 0x2001_0db8_0000_0000_0000_0000_0000_0000, 32, 48, 65001),
    ];
    let mut rpki = RpkiTable::new();
    for (v6, a, l, ml, asn) in &vrps {
        rpki.insert(IpNet::new(ip_of(*v6, *a), *l), Arc::new(Roa::new(*ml, *asn, cache.clone())));
    }
    World { sources, rpki, vrps }
}

#[derive(Clone)]
struct RouteCtx {
    nlri: Nlri,
    fam: Fam,
    /// (v6, addr, len) for plain IPv4 / IPv6 unicast NLRI
    pfx: Option<(bool, u128, u8)>,
    attrs: Arc<Vec<Attribute>>,
    nh: Option<Nexthop>,
    orig_nh: Option<Nexthop>,
    src: usize,
    is_confed: bool,
    local_addr: IpAddr,
    peer_addr: IpAddr,
    via_wire: Option<String>,
}

impl RouteCtx {
    fn json(&self, w: &World) -> Json {
        Json::obj(vec![
            ("nlri", Json::s(format!("{:?}", self.nlri))),
            ("attrs", Json::arr(self.attrs.iter().map(|a| Json::s(format!("{:?}", a))))),
            ("nexthop", Json::s(format!("{:?}", self.nh))),
            ("original_nexthop", Json::s(format!("{:?}", self.orig_nh))),
            ("source", Json::s(w.sources[self.src].1)),
            ("export_ctx", Json::s(format!("is_confed={} local_addr={} peer_addr={}", self.is_confed, self.local_addr, self.peer_addr))),
            ("decoded_from_update_hex", match &self.via_wire {
                Some(h) => Json::s(h.clone()),
                None => Json::Null,
            }),
        ])
    }
    fn hash_bytes(&self) -> Vec<u8> {
        format!("{:?}|{:?}|{:?}|{:?}|{}|{}|{}|{}", self.nlri, self.attrs, self.nh, self.orig_nh, self.src, self.is_confed, self.local_addr, self.peer_addr)
            .into_bytes()
    }
}

type Path = Vec<(u8, Vec<u32>)>;

/// decoded view of an attribute vector (only public accessors of `Attribute`)
#[derive(Clone, PartialEq, Debug)]
struct AState {
    origin: Option<u32>,
    path: Option<Path>,
    med: Option<u32>,
    lp: Option<u32>,
    comm: Option<Vec<u32>>,
    ext: Option<Vec<[u8; 8]>>,
    large: Option<Vec<(u32, u32, u32)>>,
    others: Vec<(u8, u8, Option<u32>, Vec<u8>)>,
    /// the attributes behind `others`, untouched (for re-encoding a state)
    raw_others: Vec<Attribute>,
    /// something the oracle does not interpret (duplicate codes, odd lengths)
    opaque: bool,
    med_unknown: bool,
    path_unknown: bool,
}

fn parse_path(b: &[u8]) -> Option<Path> {
    let mut out = Vec::new();
    let mut p = 0;
    while p < b.len() {
        if p + 2 > b.len() {
            return None;
        }
        let (t, n) = (b[p], b[p + 1] as usize);
        p += 2;
        if p + 4 * n > b.len() {
            return None;
        }
        let mut v = Vec::with_capacity(n);
        for i in 0..n {
            v.push(u32::from_be_bytes([b[p + 4 * i], b[p + 4 * i + 1], b[p + 4 * i + 2], b[p + 4 * i + 3]]));
        }
        p += 4 * n;
        out.push((t, v));
    }
    Some(out)
}

fn decode_attrs(attrs: &[Attribute]) -> AState {
    let mut st = AState {
        origin: None,
        path: None,
        med: None,
        lp: None,
        comm: None,
        ext: None,
        large: None,
        others: Vec::new(),
        raw_others: Vec::new(),
        opaque: false,
        med_unknown: false,
        path_unknown: false,
    };
    let mut seen = BTreeSet::new();
    for a in attrs {
        let code = a.code();
        let relevant = matches!(
            code,
            Attribute::ORIGIN
                | Attribute::AS_PATH
                | Attribute::MULTI_EXIT_DESC
                | Attribute::LOCAL_PREF
                | Attribute::COMMUNITY
                | Attribute::EXTENDED_COMMUNITY
                | Attribute::LARGE_COMMUNITY
        );
        if relevant && !seen.insert(code) {
            st.opaque = true;
        }
        match code {
            Attribute::ORIGIN => match a.value() {
                Some(v) => st.origin = Some(v),
                None => st.opaque = true,
            },
            Attribute::MULTI_EXIT_DESC => match a.value() {
                Some(v) => st.med = Some(v),
                None => st.opaque = true,
            },
            Attribute::LOCAL_PREF => match a.value() {
                Some(v) => st.lp = Some(v),
                None => st.opaque = true,
            },
            Attribute::AS_PATH => match a.binary().and_then(|b| parse_path(b)) {
                Some(p) => {
                    if p.iter().any(|(t, _)| !(1..=4).contains(t)) {
                        st.opaque = true; // undefined segment type: no-panic only
                    }
                    st.path = Some(p)
                }
                None => st.opaque = true,
            },
            Attribute::COMMUNITY => match a.binary() {
                Some(b) if b.len() % 4 == 0 => {
                    st.comm = Some(b.chunks(4).map(|c| u32::from_be_bytes([c[0], c[1], c[2], c[3]])).collect())
                }
                _ => st.opaque = true,
            },
            Attribute::EXTENDED_COMMUNITY => match a.binary() {
                Some(b) if b.len() % 8 == 0 => st.ext = Some(b.chunks(8).map(|c| c.try_into().unwrap()).collect()),
                _ => st.opaque = true,
            },
            Attribute::LARGE_COMMUNITY => match a.binary() {
                Some(b) if b.len() % 12 == 0 => {
                    st.large = Some(
                        b.chunks(12)
                            .map(|c| {
                                (
                                    u32::from_be_bytes([c[0], c[1], c[2], c[3]]),
                                    u32::from_be_bytes([c[4], c[5], c[6], c[7]]),
                                    u32::from_be_bytes([c[8], c[9], c[10], c[11]]),
                                )
                            })
                            .collect(),
                    )
                }
                _ => st.opaque = true,
            },
            _ => {
                st.others.push((code, a.flags(), a.value(), a.binary().cloned().unwrap_or_default()));
                st.raw_others.push(a.clone());
            }
        }
    }
    st.others.sort();
    st
}

/// representation-independent form of an AS_PATH: empty segments dropped,
/// adjacent AS_SEQUENCE / AS_CONFED_SEQUENCE segments joined
fn norm_path(p: &Option<Path>) -> Path {
    let mut out: Path = Vec::new();
    if let Some(p) = p {
        for (t, v) in p {
            if v.is_empty() {
                continue;
            }
            if let Some(last) = out.last_mut() {
                if last.0 == *t && (*t == 2 || *t == 3) {
                    last.1.extend(v.iter().cloned());
                    continue;
                }
            }
            out.push((*t, v.clone()));
        }
    }
    out
}

fn as_set<T: Ord + Clone>(v: &Option<Vec<T>>) -> BTreeSet<T> {
    v.as_ref().map(|v| v.iter().cloned().collect()).unwrap_or_default()
}

/// which attribute differs between the expected and the observed state
fn diff_states(exp: &AState, got: &AState) -> Option<&'static str> {
    if exp.origin != got.origin {
        return Some("origin");
    }
    if !exp.path_unknown && norm_path(&exp.path) != norm_path(&got.path) {
        return Some("as-path");
    }
    if !exp.med_unknown && exp.med != got.med {
        return Some("med");
    }
    if exp.lp != got.lp {
        return Some("local-pref");
    }
    if as_set(&exp.comm) != as_set(&got.comm) {
        return Some("community");
    }
    if as_set(&exp.ext) != as_set(&got.ext) {
        return Some("ext-community");
    }
    if as_set(&exp.large) != as_set(&got.large) {
        return Some("large-community");
    }
    if exp.others != got.others {
        return Some("other-attributes");
    }
    None
}

/// an attribute vector that decodes to `st` (used to replay a condition on the
/// route as it looks in the middle of a chain)
fn encode_state(st: &AState) -> Arc<Vec<Attribute>> {
    let mut v = Vec::new();
    if let Some(o) = st.origin {
        v.extend(Attribute::new_with_value(Attribute::ORIGIN, o));
    }
    if let Some(p) = &st.path {
        let mut b = Vec::new();
        for (t, asns) in p {
            // re-split segments longer than 255
            let mut chunks: Vec<&[u32]> = asns.chunks(255).collect();
            if chunks.is_empty() {
                chunks.push(&[]);
            }
            for c in chunks {
                b.push(*t);
                b.push(c.len() as u8);
                for a in c {
                    b.extend_from_slice(&a.to_be_bytes());
                }
            }
        }
        v.extend(Attribute::new_with_bin(Attribute::AS_PATH, b));
    }
    if let Some(m) = st.med {
        v.extend(Attribute::new_with_value(Attribute::MULTI_EXIT_DESC, m));
    }
    if let Some(m) = st.lp {
        v.extend(Attribute::new_with_value(Attribute::LOCAL_PREF, m));
    }
    if let Some(c) = &st.comm {
        v.extend(Attribute::new_with_bin(Attribute::COMMUNITY, c.iter().flat_map(|x| x.to_be_bytes()).collect()));
    }
    if let Some(c) = &st.ext {
        v.extend(Attribute::new_with_bin(Attribute::EXTENDED_COMMUNITY, c.iter().flat_map(|x| x.to_vec()).collect()));
    }
    if let Some(c) = &st.large {
        let mut b = Vec::new();
        for (x, y, z) in c {
            b.extend_from_slice(&x.to_be_bytes());
            b.extend_from_slice(&y.to_be_bytes());
            b.extend_from_slice(&z.to_be_bytes());
        }
        v.extend(Attribute::new_with_bin(Attribute::LARGE_COMMUNITY, b));
    }
    v.extend(st.raw_others.iter().cloned());
    Arc::new(v)
}

// ===================================================================== oracle

#[derive(Clone, Debug)]
struct Outcome {
    /// Some(Accept|Reject) when a statement decided, None when the default applies
    decided: Option<Disp>,
    default: Disp,
    st: AState,
    /// permitted next hops (more than one only after `unchanged` with a differing original)
    nh: Vec<Option<Nexthop>>,
    applied: usize,
    decided_by: Option<usize>,
}

impl Outcome {
    fn rejected(&self) -> bool {
        self.decided.unwrap_or(self.default) == Disp::Reject
    }
    fn disposition(&self) -> Disp {
        self.decided.unwrap_or(self.default)
    }
}

struct Unjudged(&'static str);

fn rpki_state(w: &World, pfx: (bool, u128, u8), origin: Option<u32>) -> RpkiSt {
    let mut cover = false;
    for (v6, a, l, ml, asn) in &w.vrps {
        if *v6 == pfx.0 && *l <= pfx.2 && top_bits(pfx.1, *l, *v6) == top_bits(*a, *l, *v6) {
            cover = true;
            if let Some(o) = origin {
                if *asn != 0 && *asn == o && pfx.2 <= *ml {
                    return RpkiSt::Valid;
                }
            }
        }
    }
    if cover { RpkiSt::Invalid } else { RpkiSt::NotFound }
}

/// AS_PATH length per RFC 4271 9.1.2.2 / RFC 5065: sequence members count one
/// each, a set counts one, confederation segments count nothing.  An *empty*
/// AS_SET may count 0 or 1 (lo, hi).
fn path_len(p: &Path) -> (u64, u64) {
    let (mut lo, mut hi) = (0u64, 0u64);
    for (t, v) in p {
        match t {
            2 => {
                lo += v.len() as u64;
                hi += v.len() as u64;
            }
            1 => {
                hi += 1;
                if !v.is_empty() {
                    lo += 1;
                }
            }
            _ => {}
        }
    }
    (lo, hi)
}

fn match_values<T, P>(opt: Opt, pats: &[P], vals: &[T], m: impl Fn(&P, &T) -> bool) -> Result<bool, Unjudged> {
    if pats.is_empty() {
        return Err(Unjudged("empty-set"));
    }
    let any = pats.iter().any(|p| vals.iter().any(|v| m(p, v)));
    match opt {
        Opt::Any => Ok(any),
        Opt::Invert => Ok(!any),
        Opt::All => {
            // every member of the set is matched by the route (OpenConfig / GoBGP);
            // judged only where the other conceivable reading (every value of
            // the route is matched by the set) gives the same answer
            let a = pats.iter().all(|p| vals.iter().any(|v| m(p, v)));
            let b = vals.iter().all(|v| pats.iter().any(|p| m(p, v)));
            if a == b { Ok(a) } else { Err(Unjudged("all-option-readings-differ")) }
        }
    }
}

fn eval_cond(w: &World, c: &RCond, r: &RouteCtx, st: &AState, nh: &[Option<Nexthop>], export: bool) -> Result<bool, Unjudged> {
    match c {
        RCond::Set(kind, _name, opt, body) => {
            let Some(set) = body else { return Err(Unjudged("unresolved-set")) };
            match (&set.body, kind) {
                (SetBody::Prefix(es), _) => {
                    let Some((v6, addr, len)) = r.pfx else { return Err(Unjudged("prefix-set-on-non-ip-nlri")) };
                    if es.is_empty() {
                        return Err(Unjudged("empty-set"));
                    }
                    if es.iter().any(|e| !e.clean()) {
                        return Err(Unjudged("prefix-entry-with-host-bits"));
                    }
                    let m = es.iter().any(|e| e.matches(v6, addr, len));
                    match opt {
                        Opt::Any => Ok(m),
                        Opt::Invert => Ok(!m),
                        Opt::All => Err(Unjudged("prefix-all")),
                    }
                }
                (SetBody::Neighbor(ns), _) => {
                    if ns.is_empty() {
                        return Err(Unjudged("empty-set"));
                    }
                    let peer = if export { r.peer_addr } else { w.sources[r.src].0.remote_addr };
                    let (v6, a) = ip_to_u128(&peer);
                    let m = ns.iter().any(|(n6, na, nl)| *n6 == v6 && top_bits(a, *nl, v6) == top_bits(*na, *nl, v6));
                    match opt {
                        Opt::Any => Ok(m),
                        Opt::Invert => Ok(!m),
                        Opt::All => Err(Unjudged("neighbor-all")),
                    }
                }
                (SetBody::AsPath(ps), _) => {
                    if ps.is_empty() {
                        return Err(Unjudged("empty-set"));
                    }
                    if st.path_unknown {
                        return Err(Unjudged("as-path-ambiguous"));
                    }
                    // judged domain: no AS_PATH, empty AS_PATH, or non-empty AS_SEQUENCE segments only
                    let mut flat = Vec::new();
                    if let Some(p) = &st.path {
                        for (t, v) in p {
                            if *t != 2 || v.is_empty() {
                                return Err(Unjudged("as-path-pattern-on-exotic-path"));
                            }
                            flat.extend(v.iter().cloned());
                        }
                    }
                    let mut res = Vec::new();
                    for p in ps {
                        match p.matches(&flat) {
                            Some(b) => res.push(b),
                            None => return Err(Unjudged("as-path-regex")),
                        }
                    }
                    Ok(match opt {
                        Opt::Any => res.iter().any(|b| *b),
                        Opt::All => res.iter().all(|b| *b),
                        Opt::Invert => !res.iter().any(|b| *b),
                    })
                }
                (SetBody::Comm(ps), _) => {
                    let vals = st.comm.clone().unwrap_or_default();
                    match_values(*opt, ps, &vals, |p, v| p.matches(*v))
                }
                (SetBody::Ext(ps), _) => {
                    let vals: Vec<String> = st.ext.clone().unwrap_or_default().iter().filter_map(ext_text).collect();
                    // values without a textual form can never equal a literal; they
                    // still are "values of the route" for the second reading of ALL
                    let n_all = st.ext.as_ref().map(|v| v.len()).unwrap_or(0);
                    if *opt == Opt::All && n_all != vals.len() {
                        let a = ps.iter().all(|p| vals.iter().any(|v| *v == p.0));
                        return if !a { Ok(false) } else { Err(Unjudged("all-option-readings-differ")) };
                    }
                    match_values(*opt, ps, &vals, |p, v| p.0 == *v)
                }
                (SetBody::Large(ps), _) => {
                    let vals = st.large.clone().unwrap_or_default();
                    match_values(*opt, ps, &vals, |p, v| p.matches(v))
                }
            }
        }
        RCond::Plain(c) => match c {
            Cond::Set(..) => Err(Unjudged("unresolved-set")),
            Cond::AsPathLen(cmp, v) => {
                if st.path_unknown {
                    return Err(Unjudged("as-path-ambiguous"));
                }
                match &st.path {
                    None => {
                        // no AS_PATH attribute: "length 0" or "cannot match" are both defensible
                        if cmp.test(0, *v as u64) { Err(Unjudged("as-path-length-without-as-path")) } else { Ok(false) }
                    }
                    Some(p) => {
                        let (lo, hi) = path_len(p);
                        let (a, b) = (cmp.test(lo, *v as u64), cmp.test(hi, *v as u64));
                        if a == b { Ok(a) } else { Err(Unjudged("as-path-length-empty-set")) }
                    }
                }
            }
            Cond::Nexthop(list) => {
                for n in nh.iter().flatten() {
                    if let Nexthop::V6LinkLocal(g, ll) = n {
                        if list.contains(&IpAddr::V6(*ll)) && !list.contains(&IpAddr::V6(*g)) {
                            return Err(Unjudged("nexthop-condition-lists-the-link-local-half"));
                        }
                    }
                }
                let rs: Vec<bool> = nh.iter().map(|n| n.is_some_and(|n| list.contains(&nh_forwarding_addr(&n)))).collect();
                if rs.iter().all(|b| *b == rs[0]) { Ok(rs[0]) } else { Err(Unjudged("nexthop-ambiguous")) }
            }
            Cond::Rpki(want) => {
                let Some(pfx) = r.pfx else { return Err(Unjudged("rpki-on-non-ip-nlri")) };
                if st.path_unknown {
                    return Err(Unjudged("as-path-ambiguous"));
                }
                // origin AS: last AS of a path that ends in a non-empty AS_SEQUENCE;
                // anything else is settled by C12's assumptions, not here
                let origin = match st.path.as_ref().and_then(|p| p.last()) {
                    Some((2, v)) if !v.is_empty() => Some(*v.last().unwrap()),
                    _ => None,
                };
                let with = rpki_state(w, pfx, origin);
                if origin.is_none() && with != RpkiSt::NotFound {
                    return Err(Unjudged("rpki-origin-derivation"));
                }
                Ok(with == *want)
            }
            Cond::LocalPref(v) => match st.lp {
                Some(x) => Ok(x == *v),
                None => {
                    if *v == 100 { Err(Unjudged("local-pref-default")) } else { Ok(false) }
                }
            },
            Cond::Med(v) => {
                if st.med_unknown {
                    return Err(Unjudged("med-ambiguous"));
                }
                match st.med {
                    Some(x) => Ok(x == *v),
                    None => {
                        if *v == 0 { Err(Unjudged("med-default")) } else { Ok(false) }
                    }
                }
            }
            Cond::Origin(v) => Ok(st.origin == Some(*v as u32)),
            Cond::RouteType(t) => {
                let s = &w.sources[r.src].0;
                let is = if s.is_local() {
                    RType::Local
                } else if s.remote_asn == s.local_asn {
                    RType::Internal
                } else {
                    RType::External
                };
                Ok(is == *t)
            }
            Cond::CommCount(cmp, v) => Ok(cmp.test(st.comm.as_ref().map(|c| c.len()).unwrap_or(0) as u64, *v as u64)),
            Cond::AfiSafi(list) => Ok(list.contains(&r.fam)),
        },
    }
}

fn nh_of(a: &IpAddr) -> Nexthop {
    match a {
        IpAddr::V4(x) => Nexthop::V4(*x),
        IpAddr::V6(x) => Nexthop::V6(*x),
    }
}

fn apply_actions(a: &Actions, st: &mut AState, nh: &mut Vec<Option<Nexthop>>, r: &RouteCtx, export: bool) {
    if let Some(x) = &a.nexthop {
        match x {
            NexthopAction::Address(ip) => *nh = vec![Some(nh_of(ip))],
            NexthopAction::PeerSelf => *nh = vec![Some(nh_of(&r.local_addr))],
            NexthopAction::PeerAddress => *nh = vec![Some(nh_of(&r.peer_addr))],
            NexthopAction::Unchanged => {
                // "unchanged": the next hop as received; leaving the current value
                // alone is accepted as well (the statement does not choose)
                if let Some(o) = r.orig_nh {
                    if !nh.contains(&Some(o)) {
                        nh.push(Some(o));
                    }
                }
            }
        }
    }
    fn upd<T: Clone + PartialEq>(cur: &mut Option<Vec<T>>, t: &CommunityActionType, vals: &[T]) {
        let old = cur.clone().unwrap_or_default();
        *cur = Some(match t {
            CommunityActionType::Add => old.into_iter().chain(vals.iter().cloned()).collect(),
            CommunityActionType::Remove => old.into_iter().filter(|c| !vals.contains(c)).collect(),
            CommunityActionType::Replace => vals.to_vec(),
        });
    }
    if let Some(x) = &a.community {
        upd(&mut st.comm, &x.action_type, &x.communities);
    }
    if let Some(x) = &a.local_pref {
        st.lp = Some(x.value);
    }
    if let Some(x) = &a.med {
        match x.action_type {
            MedActionType::Replace => {
                if x.value < 0 || x.value > u32::MAX as i64 {
                    st.med_unknown = true;
                } else {
                    st.med = Some(x.value as u32);
                }
            }
            MedActionType::Mod => {
                let n = st.med.unwrap_or(0) as i64 + x.value;
                if n < 0 || n > u32::MAX as i64 {
                    // clamp or leave unchanged: not fixed by the statement
                    st.med_unknown = true;
                } else {
                    st.med = Some(n as u32);
                }
            }
        }
    }
    if let Some(x) = &a.as_prepend {
        if x.repeat > 0 {
            // import is never "towards a confederation member": AS_SEQUENCE
            let seg_t = if export && r.is_confed { 3u8 } else { 2u8 };
            let asn = if x.use_left_most {
                match st.path.as_ref().and_then(|p| p.first()) {
                    Some((t, v)) if (*t == 2 || *t == 3) && !v.is_empty() => Some(v[0]),
                    _ => None,
                }
            } else {
                Some(x.asn)
            };
            match asn {
                None => st.path_unknown = true, // "last-as" without a leftmost AS
                Some(asn) => {
                    let mut p = vec![(seg_t, vec![asn; x.repeat as usize])];
                    p.extend(st.path.clone().unwrap_or_default());
                    st.path = Some(p);
                }
            }
        }
    }
    if let Some(x) = &a.ext_community {
        upd(&mut st.ext, &x.action_type, &x.communities);
    }
    if let Some(x) = &a.large_community {
        upd(&mut st.large, &x.action_type, &x.communities);
    }
    if let Some(x) = &a.origin {
        st.origin = Some(x.origin as u32);
    }
}

/// The reference semantics.  `see_modified`: whether conditions of later
/// statements look at the attributes as modified by earlier passed statements
/// (true) or at the route as it entered the chain (false).
fn interpret(w: &World, p: &Program, r: &RouteCtx, see_modified: bool) -> Result<Outcome, Unjudged> {
    interpret_traced(w, p, r, see_modified, &mut None)
}

type Trace = Vec<(usize, AState, Option<Nexthop>)>;

fn interpret_traced(w: &World, p: &Program, r: &RouteCtx, see_modified: bool, trace: &mut Option<Trace>) -> Result<Outcome, Unjudged> {
    let st0 = decode_attrs(&r.attrs);
    if st0.opaque {
        return Err(Unjudged("route-attrs-not-interpreted"));
    }
    if p.dangling.is_some() {
        return Err(Unjudged("dangling"));
    }
    let nh0 = vec![r.nh];
    let mut st = st0.clone();
    let mut nh = nh0.clone();
    let mut applied = 0;
    for (i, s) in p.stmts.iter().enumerate() {
        let (cst, cnh) = if see_modified { (&st, &nh) } else { (&st0, &nh0) };
        if let Some(t) = trace {
            t.push((i, cst.clone(), cnh[0]));
        }
        let mut all = true;
        let mut unj = None;
        for c in &s.conds {
            match eval_cond(w, c, r, cst, cnh, p.dir_export) {
                Ok(true) => {}
                Ok(false) => {
                    all = false;
                    break;
                }
                Err(u) => unj = Some(u),
            }
        }
        if !all {
            continue;
        }
        if let Some(u) = unj {
            return Err(u);
        }
        applied += 1;
        apply_actions(&s.actions, &mut st, &mut nh, r, p.dir_export);
        match s.disp {
            Some(Disp::Accept) | Some(Disp::Reject) => {
                return Ok(Outcome { decided: s.disp, default: p.default, st, nh, applied, decided_by: Some(i) });
            }
            _ => {}
        }
    }
    Ok(Outcome { decided: None, default: p.default, st, nh, applied, decided_by: None })
}

// ===================================================================== real execution

struct RealOut {
    disp: Disp,
    rejected: bool,
    attrs: Arc<Vec<Attribute>>,
    nh: Option<Nexthop>,
}

/// Calls the real evaluation the way the daemon does: the RPKI table is handed over only
/// when the assignment's `needs_rpki` flag is set (`TableManager::apply_import`,
/// daemon/src/table_manager.rs:708: `policy.needs_rpki.then(|| self.rpki.read())`; export,
/// daemon/src/event/mod.rs:3355: `.filter(|p| p.needs_rpki).map(|_| rpki.read())`).
/// The reference interpreter always knows the VRPs.
fn run_real(w: &World, asg: &PolicyAssignment, export: bool, r: &RouteCtx) -> Result<RealOut, PanicInfo> {
    let src = &w.sources[r.src].0;
    let rpki: Option<&RpkiTable> = asg.needs_rpki.then_some(&w.rpki);
    guard(|| {
        let mut nh = r.nh;
        if export {
            let mut attr = Arc::clone(&r.attrs);
            let d = table::apply_export(asg, rpki, src, &r.nlri, &mut attr, &mut nh, r.orig_nh, r.is_confed, r.local_addr, r.peer_addr);
            RealOut { disp: Disp::of(d), rejected: d == Disposition::Reject, attrs: attr, nh }
        } else {
            let (filtered, attr) = table::apply_import(asg, rpki, src, &r.nlri, &r.attrs, &mut nh);
            RealOut { disp: if filtered { Disp::Reject } else { Disp::Accept }, rejected: filtered, attrs: attr, nh }
        }
    })
}

/// first difference between what the statement permits and what was observed
fn compare(exp: &Outcome, got: &RealOut, export: bool) -> Option<String> {
    if exp.rejected() != got.rejected {
        return Some("disposition".into());
    }
    if export && exp.disposition() != got.disp {
        return Some("disposition".into());
    }
    if got.rejected {
        return None;
    }
    let gst = decode_attrs(&got.attrs);
    if let Some(d) = diff_states(&exp.st, &gst) {
        return Some(format!("attrs:{}", d));
    }
    if !exp.nh.contains(&got.nh) {
        return Some("nexthop".into());
    }
    None
}

fn load_set(pt: &mut PolicyTable, name: &str, body: &SetBody) -> Result<(), table::TableError> {
    pt.add_defined_set(body.config(name))
}

/// load a whole model table into a fresh real `PolicyTable` (sets, statements, policies)
fn load_table(m: &MTable) -> Result<PolicyTable, String> {
    let mut pt = PolicyTable::new();
    for ((_, name), set) in &m.sets {
        load_set(&mut pt, name, &set.body).map_err(|e| format!("add_defined_set {}: {:?}", name, e))?;
    }
    for (name, s) in &m.stmts {
        pt.add_statement(name, s.conds.iter().map(|c| c.config()).collect(), s.disp.map(|d| d.real()), s.actions.clone())
            .map_err(|e| format!("add_statement {}: {:?}", name, e))?;
    }
    for (name, stmts) in &m.pols {
        pt.add_policy(name, stmts.clone()).map_err(|e| format!("add_policy {}: {:?}", name, e))?;
    }
    Ok(pt)
}

/// "reject if <cond>" with default accept, built on a fresh table: the unit
/// probe used to attribute a failing program to one condition
fn unit_assignment(c: &RCond, export: bool) -> Option<(Arc<PolicyAssignment>, Program)> {
    let mut m = MTable::default();
    let cond = match c {
        RCond::Set(k, n, o, Some(set)) => {
            m.sets.insert((*k, n.clone()), set.clone());
            Cond::Set(*k, n.clone(), *o)
        }
        RCond::Set(..) => return None,
        RCond::Plain(c) => c.clone(),
    };
    m.stmts.insert("u".into(), MStmt { conds: vec![cond], disp: Some(Disp::Reject), actions: Actions::default() });
    m.pols.insert("up".into(), vec!["u".into()]);
    let pt = load_table(&m).ok()?;
    let dir = if export { PolicyDirection::Export } else { PolicyDirection::Import };
    let a = pt.build_assignment(None, "unit", dir, Disposition::Accept, vec!["up".into()]).ok()?;
    Some((a, m.resolve(export, Disp::Accept, &["up".to_string()])))
}

fn prefix_shape(set: &MSet, r: &RouteCtx) -> &'static str {
    let SetBody::Prefix(es) = &set.body else { return "other" };
    let Some((v6, addr, len)) = r.pfx else { return "other" };
    let matching: Vec<&PfxEntry> = es.iter().filter(|e| e.matches(v6, addr, len)).collect();
    // an entry with the same prefix but another range exists (now or earlier)
    let multi = set.multi_range
        || matching.iter().any(|m| es.iter().any(|e| e.v6 == m.v6 && e.addr == m.addr && e.len == m.len && (e.min, e.max) != (m.min, m.max)));
    // entries whose prefix contains the route's *address* (what a longest-prefix lookup sees)
    let longest = es
        .iter()
        .filter(|e| e.v6 == v6 && top_bits(addr, e.len, v6) == top_bits(e.addr, e.len, v6))
        .max_by_key(|e| e.len);
    // A matching entry that shares its prefix with an entry of another range is the
    // one the lookup table may have lost (one value per key): attribute that first, so
    // that this known root cause is not reported under the nested-shadow signature
    // when more specific entries happen to be present as well.
    if multi && !matching.is_empty() {
        return "same-prefix-multi-range";
    }
    if let Some(l) = longest {
        let l_ok = l.min <= len && len <= l.max && l.len <= len;
        if !matching.is_empty() && !l_ok && !matching.iter().any(|m| m.len == l.len) {
            return "nested-shadow";
        }
        if matching.is_empty() && l.min <= len && len <= l.max && l.len > len {
            return "entry-longer-than-route";
        }
    }
    if multi {
        return "same-prefix-multi-range";
    }
    "plain"
}

/// clause signature for a condition whose unit probe disagrees with the oracle
fn cond_signature(w: &World, c: &RCond, r: &RouteCtx, export: bool) -> String {
    match c {
        RCond::Set(SetKind::Prefix, _, _, Some(set)) => format!("C14/prefix-set/{}", prefix_shape(set, r)),
        RCond::Set(kind, name, opt, Some(set)) => {
            // does a single element, taken alone with ANY, already disagree?
            let singles: Vec<(SetBody, String)> = match &set.body {
                SetBody::AsPath(v) => v.iter().map(|p| (SetBody::AsPath(vec![p.clone()]), format!("as-path-pattern/{}", p.kind()))).collect(),
                SetBody::Comm(v) => v.iter().map(|p| (SetBody::Comm(vec![p.clone()]), format!("community-pattern/{}", p.kind()))).collect(),
                SetBody::Ext(v) => v.iter().map(|p| (SetBody::Ext(vec![p.clone()]), "ext-community-pattern/literal".to_string())).collect(),
                SetBody::Large(v) => v.iter().map(|p| (SetBody::Large(vec![p.clone()]), "large-community-pattern/literal".to_string())).collect(),
                _ => Vec::new(),
            };
            for (body, label) in singles {
                let single = RCond::Set(*kind, name.clone(), Opt::Any, Some(MSet { body, multi_range: false }));
                if let Some(false) = unit_agrees(w, &single, r, export) {
                    return format!("C14/{}", label);
                }
            }
            format!("C14/match-option/{}/{}", kind.name().trim_end_matches("-set"), opt.name())
        }
        RCond::Set(..) => "C14/condition/unresolved".into(),
        RCond::Plain(Cond::AsPathLen(..)) => {
            let st = decode_attrs(&r.attrs);
            let over = st.path.as_ref().map(|p| path_len(p).0 > 255).unwrap_or(false);
            format!("C14/as-path-length/{}", if over { "over-255" } else { "compare" })
        }
        RCond::Plain(c) => format!("C14/condition/{}", c.kind_name()),
    }
}

/// Some(true) = real code and oracle agree on "reject if cond" for this route,
/// Some(false) = they disagree, None = not judged (or the probe panicked)
fn unit_agrees(w: &World, c: &RCond, r: &RouteCtx, export: bool) -> Option<bool> {
    let (asg, prog) = unit_assignment(c, export)?;
    let exp = interpret(w, &prog, r, true).ok()?;
    match run_real(w, &asg, export, r) {
        // a panic of the probe is not what made a non-panicking run differ
        Err(_) => None,
        Ok(got) => Some(exp.rejected() == got.rejected),
    }
}

struct Ctx {
    rep: Report,
    w: World,
    /// signature used when a CRUD content probe disagrees and no single condition is to blame
    fallback_sig: Option<String>,
}

fn panic_sig(p: &PanicInfo) -> String {
    if p.location.contains("treebitmap") && p.message.contains("host bits") {
        // assertion inside the prefix-trie dependency: location is a registry path, name the cause instead
        return "C14/panic/loader/prefix-host-bits".into();
    }
    format!("C14/panic/{}:{}", p.location, panic_class(&p.message))
}

fn witness(ctx: &Ctx, prog: &Program, r: &RouteCtx, observed: String, expected: String, extra: Vec<(&str, Json)>) -> Json {
    let mut kv = vec![
        ("program", Json::strs(prog.text())),
        ("route", r.json(&ctx.w)),
        ("observed", Json::s(observed)),
        ("expected", Json::s(expected)),
    ];
    kv.extend(extra);
    Json::obj(kv)
}

fn outcome_text(o: &Outcome) -> String {
    format!(
        "disposition={:?} (decided by statement #{:?}, default {:?}) attrs={:?} nexthop one of {:?}",
        o.disposition(),
        o.decided_by,
        o.default,
        o.st,
        o.nh
    )
}

fn real_text(g: &RealOut) -> String {
    format!("disposition={:?} attrs={:?} nexthop={:?}", g.disp, decode_attrs(&g.attrs), g.nh)
}

/// which relations between prefix-set entries and the route a judged case exercised
fn prefix_shape_counters(rep: &mut Report, prog: &Program, r: &RouteCtx) {
    let Some((v6, addr, len)) = r.pfx else { return };
    for s in &prog.stmts {
        for c in &s.conds {
            let RCond::Set(SetKind::Prefix, _, _, Some(set)) = c else { continue };
            let SetBody::Prefix(es) = &set.body else { continue };
            let fam: Vec<&PfxEntry> = es.iter().filter(|e| e.v6 == v6 && e.clean()).collect();
            if fam.is_empty() {
                continue;
            }
            let inside = |e: &PfxEntry| top_bits(addr, e.len.min(len), v6) == top_bits(e.addr, e.len.min(len), v6);
            // an entry longer than the route that contains the route's address and whose
            // range admits the route's length: must NOT match (it does not cover the route)
            if fam.iter().any(|e| e.len > len && top_bits(addr, e.len, v6) == top_bits(e.addr, e.len, v6) && e.min <= len && len <= e.max) {
                rep.count("prefix:longer-entry-admits-route-length");
                if !fam.iter().any(|e| e.matches(v6, addr, len)) {
                    rep.count("prefix:longer-entry-admits-route-length:and-nothing-covers");
                }
            }
            if fam.iter().any(|e| e.min < e.len) {
                rep.count("prefix:entry-range-starts-below-own-length");
            }
            if fam.iter().any(|e| e.max < e.len) {
                rep.count("prefix:entry-range-entirely-below-own-length");
            }
            if fam.iter().any(|e| e.min > e.max) {
                rep.count("prefix:entry-empty-range");
            }
            if fam.iter().any(|e| e.len == 0) {
                rep.count(if v6 { "prefix:zero-entry-v6" } else { "prefix:zero-entry-v4" });
            }
            if fam.iter().all(|e| e.len > len) {
                rep.count("prefix:route-shorter-than-every-entry");
                if fam.iter().any(|e| inside(e)) {
                    rep.count("prefix:route-shorter-than-every-entry:on-chain");
                }
            }
            if fam.iter().any(|e| e.len == len && e.covers(v6, addr, len)) {
                rep.count("prefix:route-equals-entry");
            }
            if fam.iter().any(|e| e.len + 1 == len && e.covers(v6, addr, len)) {
                rep.count("prefix:route-one-bit-longer-than-entry");
            }
            rep.count(if v6 { "prefix:cond-on-v6-route" } else { "prefix:cond-on-v4-route" });
        }
    }
}

#[derive(PartialEq)]
enum Verdict {
    Agree,
    Unjudged,
    Violation,
}

/// Evaluate one (program, route) pair on the real code and judge it.
fn judge(ctx: &mut Ctx, asg: &PolicyAssignment, prog: &Program, r: &RouteCtx, tag: &str, extra: Vec<(&str, Json)>) -> Verdict {
    ctx.rep.eval();
    let export = prog.dir_export;
    let real = run_real(&ctx.w, asg, export, r);
    let got = match real {
        Err(p) => {
            ctx.rep.count("real:panic");
            let sig = panic_sig(&p);
            let wit = witness(ctx, prog, r, format!("panic at {}: {}", p.location, p.message), "no panic".into(), extra);
            ctx.rep.violation(&sig, &format!("policy evaluation panicked at {}: {}", p.location, p.message), wit);
            return Verdict::Violation;
        }
        Ok(g) => g,
    };
    let a = interpret(&ctx.w, prog, r, true);
    let b = interpret(&ctx.w, prog, r, false);
    let (a, b) = match (a, b) {
        (Ok(a), Ok(b)) => (a, b),
        (Err(u), _) | (_, Err(u)) => {
            ctx.rep.count(&format!("unjudged:{}", u.0));
            return Verdict::Unjudged;
        }
    };
    ctx.rep.count(&format!("{}:judged", tag));
    prefix_shape_counters(&mut ctx.rep, prog, r);
    if let Some(Nexthop::V6LinkLocal(g, _)) = r.nh {
        ctx.rep.count("nexthop:route-with-global+link-local");
        for s in &prog.stmts {
            for c in &s.conds {
                if let RCond::Plain(Cond::Nexthop(list)) = c {
                    ctx.rep.count("nexthop:condition-on-global+link-local-route");
                    if list.contains(&IpAddr::V6(g)) {
                        ctx.rep.count("nexthop:condition-lists-the-global-of-a-global+link-local-route");
                    }
                }
            }
            if s.actions.nexthop.is_some() {
                ctx.rep.count("nexthop:action-in-program-on-global+link-local-route");
            }
        }
    }
    if matches!(r.orig_nh, Some(Nexthop::V6LinkLocal(..))) && prog.stmts.iter().any(|s| s.actions.nexthop == Some(NexthopAction::Unchanged)) {
        ctx.rep.count("nexthop:unchanged-action-with-global+link-local-original");
    }
    if let Some(pfx) = r.pfx {
        let wants: Vec<RpkiSt> = prog.stmts.iter().flat_map(|s| s.conds.iter()).filter_map(|c| if let RCond::Plain(Cond::Rpki(x)) = c { Some(*x) } else { None }).collect();
        if !wants.is_empty() {
            let st0 = decode_attrs(&r.attrs);
            if let Some((2, v)) = st0.path.as_ref().and_then(|p| p.last()) {
                if let Some(o) = v.last() {
                    let state = rpki_state(&ctx.w, pfx, Some(*o));
                    ctx.rep.count(&format!("rpki:program-with-rpki-condition:route-state:{:?}", state));
                    if wants.contains(&state) {
                        ctx.rep.count("rpki:condition-state-equals-route-state");
                    }
                }
            }
        }
    }
    ctx.rep.count(match a.decided {
        Some(Disp::Accept) => "clause:accept-by-statement",
        Some(Disp::Reject) => "clause:reject-by-statement",
        _ => "clause:default-disposition",
    });
    if a.applied > 0 {
        ctx.rep.count("clause:some-statement-applied");
        let mut key = prog.text().join("\n").into_bytes();
        key.extend(r.hash_bytes());
        ctx.rep.nontrivial(fnv64(&key));
    }
    if a.applied > 1 {
        ctx.rep.count("clause:actions-accumulated");
    }
    let da = compare(&a, &got, export);
    let db = compare(&b, &got, export);
    if da.is_none() || db.is_none() {
        if da.is_some() || db.is_some() {
            ctx.rep.count("accepted:either-visibility-of-earlier-actions");
        }
        if ctx.rep.want_sample() && a.applied > 1 && !got.rejected {
            let s = witness(ctx, prog, r, real_text(&got), outcome_text(&a), Vec::new());
            ctx.rep.sample(s);
        }
        return Verdict::Agree;
    }
    // disagreement: attribute it to a condition if one disagrees on its own
    let what = da.unwrap();
    let mut sig = None;
    let mut extra = extra;
    let mut trace = Some(Vec::new());
    let _ = interpret_traced(&ctx.w, prog, r, true, &mut trace);
    'outer: for (i, st, nh) in trace.unwrap() {
        // the route as it looks when statement i is tried
        let mut ri = r.clone();
        ri.attrs = encode_state(&st);
        ri.nh = nh;
        for c in &prog.stmts[i].conds {
            // values the oracle left open cannot be replayed for the conditions that read them
            let reads_med = matches!(c, RCond::Plain(Cond::Med(_)));
            let reads_path = matches!(c, RCond::Plain(Cond::AsPathLen(..)) | RCond::Plain(Cond::Rpki(_)) | RCond::Set(SetKind::AsPath, ..));
            if (st.med_unknown && reads_med) || (st.path_unknown && reads_path) {
                continue;
            }
            if let Some(false) = unit_agrees(&ctx.w, c, &ri, export) {
                sig = Some(cond_signature(&ctx.w, c, &ri, export));
                if let Some((_, up)) = unit_assignment(c, export) {
                    extra.push(("culprit_condition_alone", Json::strs(up.text())));
                    extra.push(("route_when_that_statement_is_tried", ri.json(&ctx.w)));
                }
                break 'outer;
            }
        }
    }
    // no single condition is to blame: the chaining itself (order, all-conditions,
    // first decision wins, accumulation of actions, default) gave another result
    let fallback = ctx.fallback_sig.clone();
    let sig = sig
        .or(fallback)
        .unwrap_or_else(|| format!("C14/chain/{}", if what.starts_with("attrs:") { "attributes" } else { what.as_str() }));
    let wit = witness(ctx, prog, r, real_text(&got), outcome_text(&a), extra);
    ctx.rep.violation(&sig, &format!("policy result differs from the reference semantics ({})", what), wit);
    Verdict::Violation
}

// ===================================================================== generators

const ASNS: [u32; 7] = [65001, 65002, 65003, 65004, 65005, 4_200_000_001, 23456];
const COMMS: [u32; 7] = [0xFDE9_0064, 0xFDE9_00C8, 0xFDEA_0064, 0xffff_ff01, 0xffff_ff02, 0x0000_0005, 0xffff_029a];
// 65001:100 65001:200 65002:100 NO_EXPORT NO_ADVERTISE 0:5 BLACKHOLE
const LARGES: [(u32, u32, u32); 4] = [(65001, 1, 2), (65001, 1, 3), (65002, 0, 0), (4_200_000_001, 7, 7)];
const PEERS: [&str; 4] = ["192.0.2.1", "192.0.2.2", "198.51.100.7", "2001:db8:ffff::1"];
const NEIGHBOR_NETS: [&str; 6] = ["192.0.2.1/32", "192.0.2.0/24", "192.0.2.0/31", "198.51.100.0/24", "2001:db8:ffff::/48", "2001:db8:ffff::1/128"];
const NEXTHOPS: [&str; 7] = ["192.0.2.1", "192.0.2.254", "203.0.113.9", "2001:db8:ffff::1", "2001:db8::9", "2001:db8:ffff::fe", "fe80::1"];
/// global halves of IPv6 next hops of routes (most of them also occur in next-hop conditions)
const V6_NH_GLOBALS: [&str; 4] = ["2001:db8:ffff::1", "2001:db8::9", "2001:db8:ffff::fe", "2001:db8::7"];
const V6_NH_LINK_LOCALS: [&str; 3] = ["fe80::1", "fe80::abcd:1", "fe80::ffff:ffff:ffff:ffff"];

/// an IPv6 next hop: global only, or global + link-local (RFC 2545, 32 octets on the wire)
fn gen_v6_nexthop(rng: &mut Rng) -> Nexthop {
    let g: Ipv6Addr = rng.pick(&V6_NH_GLOBALS).parse().unwrap();
    if rng.chance(1, 2) {
        Nexthop::V6LinkLocal(g, rng.pick(&V6_NH_LINK_LOCALS).parse().unwrap())
    } else {
        Nexthop::V6(g)
    }
}

/// the address a next hop forwards to: the global address (GoBGP's `Path.GetNexthop`)
fn nh_forwarding_addr(n: &Nexthop) -> IpAddr {
    match n {
        Nexthop::V4(a) => IpAddr::V4(*a),
        Nexthop::V6(a) => IpAddr::V6(*a),
        Nexthop::V6LinkLocal(g, _) => IpAddr::V6(*g),
    }
}

fn ext_values() -> Vec<[u8; 8]> {
    let mut v = Vec::new();
    let two = |sub: u8, asn: u16, n: u32| {
        let mut b = [0u8; 8];
        b[1] = sub;
        b[2..4].copy_from_slice(&asn.to_be_bytes());
        b[4..8].copy_from_slice(&n.to_be_bytes());
        b
    };
    let four = |sub: u8, asn: u32, n: u16| {
        let mut b = [0u8; 8];
        b[0] = 2;
        b[1] = sub;
        b[2..6].copy_from_slice(&asn.to_be_bytes());
        b[6..8].copy_from_slice(&n.to_be_bytes());
        b
    };
    v.push(two(2, 65001, 100)); // rt:65001:100
    v.push(two(2, 65001, 200));
    v.push(two(3, 65001, 100)); // soo:65001:100
    v.push(four(2, 4_200_000_001, 7)); // rt:4200000001:7
    v.push([1, 2, 192, 0, 2, 1, 0, 9]); // rt:192.0.2.1:9
    v.push([0x03, 0x0c, 0, 0, 0, 0, 0, 8]); // encapsulation
    v.push([0x40, 0x04, 0xfd, 0xe9, 0x49, 0x74, 0x24, 0x00]); // link bandwidth
    v.push([0x43, 0x00, 0, 0, 0, 0, 0, 1]); // origin validation state
    v.push([0x80, 0x09, 1, 2, 3, 4, 5, 6]); // unassigned type
    v
}

const EXT_LITERALS: [&str; 6] = ["rt:65001:100", "rt:65001:200", "soo:65001:100", "rt:4200000001:7", "rt:192.0.2.1:9", "rt:65009:1"];

/// (v6, addr, len) stems the prefix universe is built around
const V4_STEMS: [(u32, u8); 13] = [
    (0x0A00_0000, 12),
    (0x0A00_0000, 16),
    (0x0A00_0000, 24),
    (0xC0A8_0000, 24),
    (0x0A00_0000, 8),
    (0x0A01_0000, 16),
    (0x0A01_0200, 24),
    (0x0A01_0280, 25),
    (0x0A02_0000, 16),
    (0x0A00_0000, 9),
    (0x0A01_0000, 17),
    (0xC0A8_0000, 16),
    (0x0000_0000, 0),
];
const V6_STEMS: [(u128, u8); 8] = [
    (0x2001_0db8_0000_0000_0000_0000_0000_0000, 33),
    (0x2001_0db8_0000_0000_0000_0000_0000_0000, 48),
    (0x2001_0db8_0000_0000_0000_0000_0000_0000, 64),
    (0x2001_0db8_0000_0000_0000_0000_0000_0000, 32),
    (0x2001_0db8_0001_0000_0000_0000_0000_0000, 48),
    (0x2001_0db8_0001_0002_0000_0000_0000_0000, 64),
    (0x2001_0db8_0000_0000_0000_0000_0000_0000, 47),
    (0, 0),
];

fn rng_small(rng: &mut Rng) -> u64 {
    rng.range(0, 12)
}

fn gen_pfx_entry(rng: &mut Rng) -> PfxEntry {
    let v6 = rng.chance(1, 4);
    let (addr, len) = if v6 {
        let s = *rng.pick(&V6_STEMS);
        (s.0, s.1)
    } else {
        let s = *rng.pick(&V4_STEMS);
        (s.0 as u128, s.1)
    };
    let w = width(v6) as u64;
    // The loader accepts any (min, max): ranges that start below the entry's own
    // length, lie entirely below it, or are empty (min > max) are all legal input.
    // By the statement such an entry still has to *cover* the route (entry length
    // <= route length), so the part of a range below the entry's length never matches.
    let mode = if len == 0 { 0 } else { rng.below(20) };
    let (min, max) = match mode {
        0..=10 => {
            let d1 = rng.range(0, 9);
            let min = rng.range(len as u64, (len as u64 + d1).min(w)) as u8;
            let d2 = rng.range(0, 16);
            let max = if rng.chance(1, 4) { min } else { rng.range(min as u64, (min as u64 + d2).min(w)) as u8 };
            (min, max)
        }
        11..=14 => {
            // straddles the entry's length
            let min = rng.range(0, len as u64 - 1) as u8;
            let d = rng_small(rng);
            let max = rng.range(len as u64, (len as u64 + d).min(w)) as u8;
            (min, max)
        }
        15..=17 => {
            // entirely below the entry's length
            let min = rng.range(0, len as u64 - 1) as u8;
            let max = rng.range(min as u64, len as u64 - 1) as u8;
            (min, max)
        }
        18 => (len, len),
        _ => {
            // empty range
            let max = rng.range(0, w - 1) as u8;
            (rng.range(max as u64 + 1, w) as u8, max)
        }
    };
    let (min, max) = if len == 0 && rng.bool() {
        // default-route entries with the usual ranges
        *rng.pick(&[(0u8, 0u8), (0, 32), (8, 24), (24, 24), (0, 8), (16, 32), (1, 1)])
    } else {
        (min, max)
    };
    PfxEntry { v6, addr, len, min, max }
}

fn gen_set_body(rng: &mut Rng, kind: SetKind) -> SetBody {
    let n = rng.range(1, 4) as usize;
    match kind {
        SetKind::Prefix => {
            let mut v: Vec<PfxEntry> = Vec::new();
            match rng.below(12) {
                // the shapes named in the property: nested entries with disjoint / overlapping ranges
                0 => {
                    v.push(PfxEntry { v6: false, addr: 0x0A00_0000, len: 8, min: 8, max: 24 });
                    v.push(PfxEntry { v6: false, addr: 0x0A01_0000, len: 16, min: 16, max: 16 });
                    v.push(PfxEntry { v6: false, addr: 0x0A01_0000, len: 16, min: 24, max: 32 });
                }
                1 => {
                    v.push(PfxEntry { v6: false, addr: 0x0A00_0000, len: 8, min: 8, max: 32 });
                    v.push(PfxEntry { v6: false, addr: 0x0A01_0200, len: 24, min: 24, max: 24 });
                }
                3 => {
                    // a range that starts below the entry's own prefix length
                    v.push(PfxEntry { v6: false, addr: 0x0A00_0000, len: 16, min: 8, max: 24 });
                }
                4 => {
                    v.push(PfxEntry { v6: false, addr: 0x0A00_0000, len: 24, min: 8, max: 12 });
                    v.push(PfxEntry { v6: false, addr: 0x0A00_0000, len: 8, min: 16, max: 16 });
                    v.push(PfxEntry { v6: false, addr: 0, len: 0, min: 0, max: 0 });
                }
                5 => {
                    v.push(PfxEntry { v6: true, addr: 0x2001_0db8_0000_0000_0000_0000_0000_0000, len: 48, min: 16, max: 64 });
                    v.push(PfxEntry { v6: true, addr: 0, len: 0, min: 32, max: 32 });
                }
                2 => {
                    v.push(PfxEntry { v6: true, addr: 0x2001_0db8_0000_0000_0000_0000_0000_0000, len: 32, min: 32, max: 64 });
                    v.push(PfxEntry { v6: true, addr: 0x2001_0db8_0001_0000_0000_0000_0000_0000, len: 48, min: 48, max: 48 });
                }
                _ => {}
            }
            while v.len() < n {
                v.push(gen_pfx_entry(rng));
            }
            if rng.chance(1, 50) {
                // host bits set in an entry: evaluated for no-panic only
                let len = if rng.bool() { 16 } else { 15 };
                v.push(PfxEntry { v6: false, addr: 0x0A01_0203, len, min: 16, max: 32 });
            }
            rng.shuffle(&mut v);
            SetBody::Prefix(v)
        }
        SetKind::Neighbor => SetBody::Neighbor(
            (0..n)
                .map(|_| {
                    let s = *rng.pick(&NEIGHBOR_NETS);
                    let (a, l) = s.split_once('/').unwrap();
                    let (v6, addr) = ip_to_u128(&a.parse().unwrap());
                    (v6, addr, l.parse().unwrap())
                })
                .collect(),
        ),
        SetKind::AsPath => SetBody::AsPath(
            (0..n)
                .map(|_| {
                    let a = *rng.pick(&ASNS);
                    let b = a.saturating_add(rng.range(0, 3) as u32);
                    let top = if rng.chance(1, 25) { 9 } else { 8 };
                    match rng.below(top) {
                        0 => AsPat::Include(a),
                        1 => AsPat::LeftMost(a),
                        2 => AsPat::Origin(a),
                        3 => AsPat::Only(a),
                        4 => AsPat::RInclude(a, b),
                        5 => AsPat::RLeftMost(a, b),
                        6 => AsPat::ROrigin(a, b),
                        7 => AsPat::ROnly(a, b),
                        _ => AsPat::Regex(format!("^{}_.*_{}$", a, b)),
                    }
                })
                .collect(),
        ),
        SetKind::Comm => SetBody::Comm(
            (0..n)
                .map(|_| {
                    let c = *rng.pick(&COMMS);
                    match rng.below(8) {
                        0 | 1 | 2 => CommPat::Pair((c >> 16) as u16, c as u16),
                        3 | 4 => CommPat::Numeric(c),
                        5 => CommPat::WellKnown(rng.usize(WELL_KNOWN.len())),
                        _ => CommPat::HighWild((c >> 16) as u16),
                    }
                })
                .collect(),
        ),
        SetKind::Ext => SetBody::Ext((0..n).map(|_| ExtPat(rng.pick(&EXT_LITERALS).to_string())).collect()),
        SetKind::Large => SetBody::Large(
            (0..n)
                .map(|_| {
                    let l = *rng.pick(&LARGES);
                    if rng.chance(1, 4) { LargePat::GaWild(l.0) } else { LargePat::Exact(l.0, l.1, l.2) }
                })
                .collect(),
        ),
    }
}

fn gen_opt(rng: &mut Rng, kind: SetKind) -> Opt {
    match kind {
        // the loader rejects ALL for prefix and neighbor sets
        SetKind::Prefix | SetKind::Neighbor => *rng.pick(&[Opt::Any, Opt::Any, Opt::Invert]),
        _ => *rng.pick(&[Opt::Any, Opt::Any, Opt::All, Opt::Invert]),
    }
}

fn gen_plain_cond(rng: &mut Rng) -> Cond {
    let cmp = *rng.pick(&[Cmp::Eq, Cmp::Ge, Cmp::Le]);
    match rng.below(9) {
        0 => Cond::AsPathLen(cmp, *rng.pick(&[0u32, 1, 2, 3, 4, 44, 255, 256, 300])),
        1 => Cond::Nexthop((0..rng.range(1, 3)).map(|_| rng.pick(&NEXTHOPS).parse().unwrap()).collect()),
        2 => Cond::Rpki(*rng.pick(&[RpkiSt::NotFound, RpkiSt::Valid, RpkiSt::Invalid])),
        3 => Cond::LocalPref(*rng.pick(&[100u32, 200, 0])),
        4 => Cond::Med(*rng.pick(&[0u32, 10, 50, u32::MAX])),
        5 => Cond::Origin(rng.below(3) as u8),
        6 => Cond::RouteType(*rng.pick(&[RType::Internal, RType::External, RType::Local])),
        7 => Cond::CommCount(cmp, rng.below(4) as u32),
        _ => {
            let mut v = vec![*rng.pick(&[Fam::V4, Fam::V6, Fam::Vpn4, Fam::Mpls4])];
            if rng.bool() {
                v.push(*rng.pick(&[Fam::V4, Fam::V6]));
            }
            Cond::AfiSafi(v)
        }
    }
}

fn gen_actions(rng: &mut Rng, allow_nexthop: bool) -> Actions {
    let mut a = Actions::default();
    let n = *rng.pick(&[0usize, 0, 1, 1, 2, 3]);
    let cat = |rng: &mut Rng| rng.pick(&[CommunityActionType::Add, CommunityActionType::Remove, CommunityActionType::Replace]).clone();
    for _ in 0..n {
        match rng.below(8) {
            0 if allow_nexthop => {
                a.nexthop = Some(match rng.below(4) {
                    0 => NexthopAction::Address(rng.pick(&NEXTHOPS).parse().unwrap()),
                    1 => NexthopAction::PeerSelf,
                    2 => NexthopAction::PeerAddress,
                    _ => NexthopAction::Unchanged,
                })
            }
            1 => {
                a.community = Some(CommunityAction {
                    action_type: cat(rng),
                    communities: (0..rng.range(0, 3)).map(|_| *rng.pick(&COMMS)).collect(),
                })
            }
            2 => a.local_pref = Some(LocalPrefAction { value: *rng.pick(&[0u32, 100, 200, u32::MAX]) }),
            3 => {
                a.med = Some(if rng.bool() {
                    MedAction { action_type: MedActionType::Replace, value: *rng.pick(&[0i64, 10, 50, u32::MAX as i64]) }
                } else {
                    MedAction { action_type: MedActionType::Mod, value: *rng.pick(&[10i64, 40, -10, -60, u32::MAX as i64]) }
                })
            }
            4 => {
                a.as_prepend = Some(AsPrependAction {
                    asn: *rng.pick(&ASNS),
                    repeat: *rng.pick(&[0u32, 1, 1, 2, 3, 10, 260]),
                    use_left_most: rng.chance(1, 3),
                })
            }
            5 => {
                let ev = ext_values();
                a.ext_community = Some(ExtCommunityAction {
                    action_type: cat(rng),
                    communities: (0..rng.range(0, 2)).map(|_| *rng.pick(&ev[..])).collect(),
                })
            }
            6 => {
                a.large_community = Some(LargeCommunityAction {
                    action_type: cat(rng),
                    communities: (0..rng.range(0, 2)).map(|_| *rng.pick(&LARGES)).collect(),
                })
            }
            7 => a.origin = Some(OriginAction { origin: rng.below(3) as u8 }),
            _ => {}
        }
    }
    a
}

fn set_names(kind: SetKind) -> Vec<String> {
    (0..3).map(|i| format!("{}{}", kind.short(), i)).collect()
}

fn gen_cond(rng: &mut Rng, m: &MTable) -> Cond {
    if rng.chance(3, 5) {
        // a set condition over an existing set of a random kind
        let kind = *rng.pick(&ALL_KINDS);
        let names: Vec<&String> = m.sets.keys().filter(|(k, _)| *k == kind).map(|(_, n)| n).collect();
        if !names.is_empty() {
            return Cond::Set(kind, (*rng.pick(&names)).clone(), gen_opt(rng, kind));
        }
    }
    if rng.chance(1, 8) {
        return Cond::Rpki(*rng.pick(&[RpkiSt::NotFound, RpkiSt::Valid, RpkiSt::Invalid, RpkiSt::Invalid]));
    }
    gen_plain_cond(rng)
}

/// a route aimed at the VRPs: prefix at / below a VRP (up to two bits past its max
/// length), AS_PATH ending in the VRP's AS (Valid within max length) or another one
fn gen_rpki_route(rng: &mut Rng, w: &World, rep: &mut Report) -> RouteCtx {
    let mut r = gen_route(rng, w, rep);
    let (v6, a, l, ml, asn) = *rng.pick(&w.vrps);
    let wd = width(v6) as u64;
    let len = if rng.chance(1, 6) { rng.range(0, l as u64) } else { rng.range(l as u64, (ml as u64 + 2).min(wd)) } as u8;
    let noise = ((rng.next_u64() as u128) << 64 | rng.next_u64() as u128) & if v6 { u128::MAX } else { 0xffff_ffff };
    let tail = noise & ((1u128 << (wd as u32 - l as u32)) - 1);
    let addr = mask_to(a | tail, len, v6);
    r.nlri = if v6 { Nlri::V6(Ipv6Net { addr: Ipv6Addr::from(addr), mask: len }) } else { Nlri::V4(Ipv4Net { addr: Ipv4Addr::from(addr as u32), mask: len }) };
    r.fam = if v6 { Fam::V6 } else { Fam::V4 };
    r.pfx = Some((v6, addr, len));
    r.via_wire = None;
    let origin = if rng.chance(3, 5) { asn } else { *rng.pick(&ASNS) };
    let mut attrs: Vec<Attribute> = r.attrs.iter().filter(|x| x.code() != Attribute::AS_PATH).cloned().collect();
    attrs.extend(Attribute::new_with_bin(Attribute::AS_PATH, path_bytes(&vec![(2u8, vec![*rng.pick(&ASNS), origin])])));
    r.attrs = Arc::new(attrs);
    r
}

fn gen_stmt(rng: &mut Rng, m: &MTable, allow_nexthop: bool) -> MStmt {
    let n = *rng.pick(&[0usize, 1, 1, 1, 2, 2, 3]);
    let conds = (0..n).map(|_| gen_cond(rng, m)).collect();
    let disp = *rng.pick(&[None, None, Some(Disp::Accept), Some(Disp::Reject), Some(Disp::Reject), Some(Disp::Pass)]);
    MStmt { conds, disp, actions: gen_actions(rng, allow_nexthop) }
}

// ---------------------------------------------------------------- routes

fn gen_path(rng: &mut Rng) -> Option<Path> {
    let seq = |rng: &mut Rng, n: usize| -> Vec<u32> { (0..n).map(|_| *rng.pick(&ASNS)).collect() };
    match rng.below(20) {
        0 => None,                                   // no AS_PATH attribute
        1 => Some(vec![]),                           // zero-length attribute
        2 => Some(vec![(2, vec![])]),                // one empty AS_SEQUENCE
        3 => Some(vec![(2, seq(rng, 2)), (2, vec![])]), // trailing empty segment
        4 => Some(vec![(1, vec![]), (2, seq(rng, 2))]), // leading empty AS_SET
        5 => Some(vec![(2, seq(rng, 1)), (1, seq(rng, 2))]), // AS_SET tail
        6 => Some(vec![(3, seq(rng, 2)), (2, seq(rng, 2))]), // confed seq first
        7 => Some(vec![(4, seq(rng, 2)), (3, vec![]), (2, seq(rng, 1))]),
        8 => {
            // more than 255 hops
            let n = *rng.pick(&[256usize, 300, 510]);
            let mut v = Vec::new();
            let mut left = n;
            while left > 0 {
                let k = left.min(255);
                v.push((2u8, seq(rng, k)));
                left -= k;
            }
            Some(v)
        }
        9 => Some(vec![(2, seq(rng, 255))]),
        10 => {
            // random mixture of every segment type incl. empty ones
            let k = rng.range(1, 4) as usize;
            Some((0..k).map(|_| { let t = rng.range(1, 4) as u8; let n = rng.below(4) as usize; (t, seq(rng, n)) }).collect())
        }
        11 | 12 => Some(vec![(2, seq(rng, 1))]),
        13 => Some(vec![(2, seq(rng, 2)), (2, seq(rng, 2))]),
        _ => { let n = rng.range(1, 5) as usize; Some(vec![(2, seq(rng, n))]) }
    }
}

fn path_bytes(p: &Path) -> Vec<u8> {
    let mut b = Vec::new();
    for (t, v) in p {
        b.push(*t);
        b.push(v.len() as u8);
        for a in v {
            b.extend_from_slice(&a.to_be_bytes());
        }
    }
    b
}

/// the attribute list of a route as (flags, code, value bytes) — wire form
/// `strict`: only shapes a conforming UPDATE carries (no zero-count segments,
/// no zero-length community lists) so that the wire decoder accepts them;
/// otherwise everything the attribute API can express.
fn gen_wire_attrs(rng: &mut Rng, v6_mp: bool, strict: bool) -> Vec<(u8, u8, Vec<u8>)> {
    let mut v: Vec<(u8, u8, Vec<u8>)> = Vec::new();
    if !rng.chance(1, 40) {
        v.push((0x40, 1, vec![rng.below(3) as u8]));
    }
    if let Some(mut p) = gen_path(rng) {
        if strict {
            p.retain(|(_, v)| !v.is_empty());
        } else if rng.chance(1, 40) {
            // the API does not validate the segment type octet
            p.push((*rng.pick(&[0u8, 5, 255]), vec![65001]));
        }
        v.push((0x40, 2, path_bytes(&p)));
    }
    if !v6_mp {
        v.push((0x40, 3, vec![192, 0, 2, rng.range(1, 3) as u8]));
    }
    if rng.chance(1, 2) {
        v.push((0x80, 4, rng.pick(&[0u32, 10, 50, u32::MAX]).to_be_bytes().to_vec()));
    }
    if rng.chance(1, 2) {
        v.push((0x40, 5, rng.pick(&[100u32, 200, 0]).to_be_bytes().to_vec()));
    }
    if rng.chance(1, 6) {
        v.push((0x40, 6, vec![]));
    }
    if rng.chance(1, 6) {
        let mut b = 65001u32.to_be_bytes().to_vec();
        b.extend_from_slice(&[192, 0, 2, 9]);
        v.push((0xC0, 7, b));
    }
    if rng.chance(3, 5) {
        let n = (*rng.pick(&[0usize, 1, 1, 2, 3, 4])).max(strict as usize);
        let mut b = Vec::new();
        for _ in 0..n {
            b.extend_from_slice(&rng.pick(&COMMS).to_be_bytes());
        }
        v.push((0xC0, 8, b));
    }
    if rng.chance(1, 6) {
        v.push((0x80, 9, vec![10, 0, 0, 1]));
    }
    if rng.chance(1, 6) {
        v.push((0x80, 10, vec![1, 1, 1, 1, 2, 2, 2, 2]));
    }
    if rng.chance(1, 2) {
        let ev = ext_values();
        let n = (*rng.pick(&[0usize, 1, 1, 2, 3])).max(strict as usize);
        let mut b = Vec::new();
        for _ in 0..n {
            b.extend_from_slice(&rng.pick(&ev[..])[..]);
        }
        v.push((0xC0, 16, b));
    }
    if rng.chance(1, 2) {
        let n = (*rng.pick(&[0usize, 1, 1, 2, 3])).max(strict as usize);
        let mut b = Vec::new();
        for _ in 0..n {
            let l = rng.pick(&LARGES);
            b.extend_from_slice(&l.0.to_be_bytes());
            b.extend_from_slice(&l.1.to_be_bytes());
            b.extend_from_slice(&l.2.to_be_bytes());
        }
        v.push((0xC0, 32, b));
    }
    if rng.chance(1, 8) {
        // AIGP TLV
        v.push((0x80, 26, vec![1, 0, 11, 0, 0, 0, 0, 0, 0, 0, 9]));
    }
    if rng.chance(1, 8) {
        // unknown optional transitive attribute, kept opaque
        v.push((0xC0, 250, rng.bytes(5)));
    }
    v
}

fn encode_attr(out: &mut Vec<u8>, flags: u8, code: u8, val: &[u8]) {
    if val.len() > 255 {
        out.push(flags | 0x10);
        out.push(code);
        out.extend_from_slice(&(val.len() as u16).to_be_bytes());
    } else {
        out.push(flags & !0x10);
        out.push(code);
        out.push(val.len() as u8);
    }
    out.extend_from_slice(val);
}

fn nlri_bytes(addr: u128, len: u8, v6: bool) -> Vec<u8> {
    let mut b = vec![len];
    let n = (len as usize).div_ceil(8);
    if v6 {
        b.extend_from_slice(&addr.to_be_bytes()[..n]);
    } else {
        b.extend_from_slice(&(addr as u32).to_be_bytes()[..n]);
    }
    b
}

/// build an UPDATE and run it through the real decoder; None if the decoder
/// does not turn it into a route announcement
fn decode_update(fam: Fam, pfx: (bool, u128, u8), wire_attrs: &[(u8, u8, Vec<u8>)], is_ebgp: bool, v6_nh: Option<Nexthop>) -> Option<(Nlri, Arc<Vec<Attribute>>, Option<Nexthop>, String)> {
    let mut attrs = Vec::new();
    for (f, c, v) in wire_attrs {
        encode_attr(&mut attrs, *f, *c, v);
    }
    let mut tail = Vec::new();
    match fam {
        Fam::V4 => tail = nlri_bytes(pfx.1, pfx.2, false),
        _ => {
            // MP_REACH_NLRI
            let mut mp = Vec::new();
            match fam {
                Fam::V6 => {
                    let nhb = v6_nh.map(|n| n.to_bytes()).unwrap_or_else(|| 0x2001_0db8_ffff_0000_0000_0000_0000_0001u128.to_be_bytes().to_vec());
                    mp.extend_from_slice(&[0, 2, 1, nhb.len() as u8]);
                    mp.extend_from_slice(&nhb);
                    mp.push(0);
                    mp.extend(nlri_bytes(pfx.1, pfx.2, true));
                }
                Fam::Mpls4 => {
                    mp.extend_from_slice(&[0, 1, 4, 4, 192, 0, 2, 1, 0]);
                    let p = nlri_bytes(pfx.1, pfx.2, false);
                    mp.push(24 + p[0]);
                    mp.extend_from_slice(&[0, 1, 0x01]); // label 16, bottom of stack
                    mp.extend_from_slice(&p[1..]);
                }
                Fam::Vpn4 => {
                    mp.extend_from_slice(&[0, 1, 128, 12, 0, 0, 0, 0, 0, 0, 0, 0, 192, 0, 2, 1, 0]);
                    let p = nlri_bytes(pfx.1, pfx.2, false);
                    mp.push(24 + 64 + p[0]);
                    mp.extend_from_slice(&[0, 1, 0x01]);
                    mp.extend_from_slice(&[0, 0, 0xfd, 0xe9, 0, 0, 0, 1]); // RD 65001:1
                    mp.extend_from_slice(&p[1..]);
                }
                Fam::V4 => unreachable!(),
            }
            encode_attr(&mut attrs, 0x80, 14, &mp);
        }
    }
    let mut msg = vec![0xffu8; 16];
    let total = 19 + 2 + 2 + attrs.len() + tail.len();
    if total > 4096 {
        return None;
    }
    msg.extend_from_slice(&(total as u16).to_be_bytes());
    msg.push(2);
    msg.extend_from_slice(&[0, 0]);
    msg.extend_from_slice(&(attrs.len() as u16).to_be_bytes());
    msg.extend_from_slice(&attrs);
    msg.extend_from_slice(&tail);
    let caps = |asn: u32| {
        vec![
            rustybgp_packet::Capability::MultiProtocol(Family::IPV4),
            rustybgp_packet::Capability::MultiProtocol(Family::IPV6),
            rustybgp_packet::Capability::MultiProtocol(Family::IPV4_VPN),
            rustybgp_packet::Capability::MultiProtocol(Family::IPV4_MPLS),
            rustybgp_packet::Capability::FourOctetAsNumber(asn),
        ]
    };
    let mut codec = PeerCodec::negotiate(&caps(LOCAL_AS), &caps(65001));
    let parsed = guard(|| codec.parse_message(&msg)).ok()?.ok()?;
    let msgs = bgp::validate_message(parsed, is_ebgp).ok()?;
    for m in msgs {
        if let bgp::Message::Update(bgp::Update::Reach { entries, nexthop, attr, .. }) = m {
            let e = entries.into_iter().next()?;
            return Some((e.nlri, attr, nexthop, hex(&msg)));
        }
    }
    None
}

fn api_attrs(wire_attrs: &[(u8, u8, Vec<u8>)]) -> (Arc<Vec<Attribute>>, Option<Nexthop>) {
    let mut v = Vec::new();
    let mut nh = None;
    for (f, c, b) in wire_attrs {
        let a = match *c {
            1 => Attribute::new_with_value(1, b[0] as u32),
            4 | 5 | 9 => Attribute::new_with_value(*c, u32::from_be_bytes([b[0], b[1], b[2], b[3]])),
            3 => {
                nh = Nexthop::from_bytes(b);
                None
            }
            250 => Some(Attribute::new_opaque(*c, *f, b.clone())),
            _ => Attribute::new_with_bin(*c, b.clone()),
        };
        if let Some(a) = a {
            v.push(a);
        }
    }
    (Arc::new(v), nh)
}

fn gen_route(rng: &mut Rng, w: &World, rep: &mut Report) -> RouteCtx {
    let fam = *rng.pick(&[Fam::V4, Fam::V4, Fam::V4, Fam::V4, Fam::V4, Fam::V6, Fam::V6, Fam::Vpn4, Fam::Mpls4]);
    let v6 = fam == Fam::V6;
    // A prefix along a "spine" of the universe: spine truncated to a length drawn from
    // 0 ..= a bit past the longest entry, so that routes shorter than every entry,
    // equal to an entry and one bit longer all occur.  Spines with long zero runs
    // (10.0.0.0, 192.168.0.0, 2001:db8::) make a short route's address fall inside
    // longer entries of the same chain.
    const V4_SPINES: [u32; 7] = [0x0A00_0000, 0x0A00_0000, 0x0A01_0280, 0x0A01_0280, 0xC0A8_0000, 0x0A02_0000, 0];
    const V6_SPINES: [u128; 4] =
        [0x2001_0db8_0000_0000_0000_0000_0000_0000, 0x2001_0db8_0000_0000_0000_0000_0000_0000, 0x2001_0db8_0001_0002_0000_0000_0000_0000, 0];
    let spine = if v6 { *rng.pick(&V6_SPINES) } else { *rng.pick(&V4_SPINES) as u128 };
    let wd = width(v6) as u64;
    let lmax = if v6 { 66 } else { 32 };
    let stem_lens: Vec<u8> = if v6 { V6_STEMS.iter().map(|s| s.1).collect() } else { V4_STEMS.iter().map(|s| s.1).collect() };
    let len = match rng.below(20) {
        0..=10 => rng.range(0, lmax) as u8,
        11..=15 => {
            // just below / at / just above an entry length
            let l = *rng.pick(&stem_lens) as i64 + rng.range(0, 2) as i64 - 1;
            l.clamp(0, wd as i64) as u8
        }
        16..=18 => *rng.pick(&[8u8, 16, 24, 25, 32]),
        _ => rng.range(0, wd) as u8,
    };
    let noise = ((rng.next_u64() as u128) << 64 | rng.next_u64() as u128) & if v6 { u128::MAX } else { 0xffff_ffff };
    let addr = match rng.below(20) {
        0..=13 => mask_to(spine, len, v6),
        14..=16 if len > 0 => mask_to(spine, len, v6) ^ (1u128 << (wd as u32 - len as u32)), // sibling
        17 | 18 => {
            // below the spine's prefix of a random shorter length, random tail
            let keep = rng.range(0, len as u64) as u8;
            let tail = if keep == 0 { noise } else if keep as u64 >= wd { 0 } else { noise & ((1u128 << (wd as u32 - keep as u32)) - 1) };
            mask_to(mask_to(spine, keep, v6) | tail, len, v6)
        }
        _ => mask_to(noise, len, v6),
    };
    let src = rng.usize(w.sources.len());
    let is_ebgp = matches!(w.sources[src].0.role, PeerRole::Ebgp);
    let try_wire = rng.chance(3, 5);
    let wire_attrs = gen_wire_attrs(rng, fam != Fam::V4, try_wire);
    let mut done = None;
    if try_wire {
        let v6_nh = gen_v6_nexthop(rng);
        if let Some((nlri, attrs, nh, hx)) = decode_update(fam, (v6, addr, len), &wire_attrs, is_ebgp, Some(v6_nh)) {
            rep.count("route-source:wire-decoder");
            done = Some((nlri, attrs, nh, Some(hx)));
        } else {
            rep.count("route-source:wire-decoder-refused");
        }
    }
    let (nlri, attrs, nh, via_wire) = match done {
        Some(d) => d,
        None => {
            rep.count("route-source:attribute-api");
            // the attribute API can only express unicast NLRI here
            let (attrs, nh) = api_attrs(&wire_attrs);
            let nlri = if v6 {
                Nlri::V6(Ipv6Net { addr: Ipv6Addr::from(addr), mask: len })
            } else {
                Nlri::V4(Ipv4Net { addr: Ipv4Addr::from(addr as u32), mask: len })
            };
            let nh = nh.or(if v6 { Some(gen_v6_nexthop(rng)) } else { None });
            (nlri, attrs, if rng.chance(1, 10) { None } else { nh }, None)
        }
    };
    let (fam, pfx) = match &nlri {
        Nlri::V4(n) => (Fam::V4, Some((false, u32::from(n.addr) as u128, n.mask))),
        Nlri::V6(n) => (Fam::V6, Some((true, u128::from(n.addr), n.mask))),
        Nlri::VpnV4(_) => (Fam::Vpn4, None),
        Nlri::LabeledV4(_) => (Fam::Mpls4, None),
        _ => (fam, None),
    };
    // export context: the peer the route is being sent to
    let peer_addr: IpAddr = rng.pick(&PEERS).parse().unwrap();
    let local_addr: IpAddr = if peer_addr.is_ipv4() { "192.0.2.254".parse().unwrap() } else { "2001:db8:ffff::fe".parse().unwrap() };
    // pre-policy defaulting may have replaced the next hop (eBGP self)
    let cur_nh = if rng.chance(1, 4) { Some(nh_of(&local_addr)) } else { nh };
    RouteCtx { nlri, fam, pfx, attrs, nh: cur_nh, orig_nh: nh, src, is_confed: rng.chance(1, 5), local_addr, peer_addr, via_wire }
}

fn shape_counters(rep: &mut Report, r: &RouteCtx) {
    let st = decode_attrs(&r.attrs);
    match &st.path {
        None => rep.count("path:no-attribute"),
        Some(p) if p.is_empty() => rep.count("path:zero-length"),
        Some(p) => {
            if p.iter().any(|(_, v)| v.is_empty()) {
                rep.count("path:has-empty-segment");
            }
            for t in 1..=4u8 {
                if p.iter().any(|(x, _)| *x == t) {
                    rep.count(&format!("path:segment-type-{}", t));
                }
            }
            if p.iter().any(|(x, _)| !(1..=4).contains(x)) {
                rep.count("path:undefined-segment-type(api)");
            }
            if path_len(p).0 > 255 {
                rep.count("path:over-255-hops");
            }
        }
    }
    for (c, ..) in &st.others {
        rep.count(&format!("attr-code:{}", c));
    }
}

// ===================================================================== workload 1: unit programs

fn dir_of(export: bool) -> PolicyDirection {
    if export { PolicyDirection::Export } else { PolicyDirection::Import }
}

fn run_unit(ctx: &mut Ctx, rng: &mut Rng, n: u64) {
    for i in 0..n {
        if !ctx.rep.in_budget() {
            break;
        }
        let export = rng.bool();
        let mut m = MTable::default();
        // one statement: either a single condition that rejects, or no condition and a few actions
        let stmt = if i % 4 != 3 {
            let cond = if rng.chance(2, 3) {
                let kind = *rng.pick(&ALL_KINDS);
                let name = format!("{}0", kind.short());
                let body = gen_set_body(rng, kind);
                let multi = body.has_multi_range();
                m.sets.insert((kind, name.clone()), MSet { body, multi_range: multi });
                Cond::Set(kind, name, gen_opt(rng, kind))
            } else {
                gen_plain_cond(rng)
            };
            ctx.rep.count(&format!("unit:cond:{}", cond.kind_name()));
            if let Cond::Set(k, _, o) = &cond {
                ctx.rep.count(&format!("unit:option:{}:{}", k.name(), o.name()));
            }
            MStmt { conds: vec![cond], disp: Some(Disp::Reject), actions: Actions::default() }
        } else {
            let mut a = gen_actions(rng, export);
            if action_count(&a) == 0 {
                a.origin = Some(OriginAction { origin: 2 });
            }
            ctx.rep.count("unit:actions");
            MStmt { conds: vec![], disp: Some(Disp::Accept), actions: a }
        };
        m.stmts.insert("s".into(), stmt);
        m.pols.insert("p".into(), vec!["s".into()]);
        let pt = match guard(|| load_table(&m)) {
            Ok(Ok(pt)) => pt,
            Ok(Err(e)) => {
                ctx.rep.count("unit:loader-refused");
                if ctx.rep.counters.get("unit:loader-refused") == Some(&1) {
                    eprintln!("[C14] loader refused a generated unit program: {}", e);
                }
                continue;
            }
            Err(p) => {
                let prog = m.resolve(export, Disp::Accept, &["p".to_string()]);
                ctx.rep.violation(
                    &panic_sig(&p),
                    &format!("loading a policy panicked at {}: {}", p.location, p.message),
                    Json::obj(vec![("program", Json::strs(prog.text()))]),
                );
                continue;
            }
        };
        let default = if rng.chance(1, 8) { Disp::Reject } else { Disp::Accept };
        let asg = match pt.build_assignment(None, "a", dir_of(export), default.real(), vec!["p".into()]) {
            Ok(a) => a,
            Err(_) => {
                ctx.rep.count("unit:assignment-refused");
                continue;
            }
        };
        let prog = m.resolve(export, default, &["p".to_string()]);
        for _ in 0..6 {
            let r = gen_route(rng, &ctx.w, &mut ctx.rep);
            shape_counters(&mut ctx.rep, &r);
            judge(ctx, &asg, &prog, &r, "unit", Vec::new());
        }
    }
}

// ===================================================================== workload 2: random programs

fn gen_model_table(rng: &mut Rng) -> MTable {
    let mut m = MTable::default();
    for kind in ALL_KINDS {
        for name in set_names(kind).into_iter().take(rng.range(1, 3) as usize) {
            let body = gen_set_body(rng, kind);
            let multi = body.has_multi_range();
            m.sets.insert((kind, name), MSet { body, multi_range: multi });
        }
    }
    for i in 0..6 {
        let s = gen_stmt(rng, &m, false);
        m.stmts.insert(format!("s{}", i), s);
    }
    for i in 0..3 {
        let s = gen_stmt(rng, &m, true);
        m.stmts.insert(format!("x{}", i), s);
    }
    let plain: Vec<String> = (0..6).map(|i| format!("s{}", i)).collect();
    let all: Vec<String> = m.stmts.keys().cloned().collect();
    for i in 0..4 {
        let pool = if i < 2 { &plain } else { &all };
        let n = rng.range(1, 4);
        m.pols.insert(format!("p{}", i), (0..n).map(|_| rng.pick(pool).clone()).collect());
    }
    m
}

fn run_eval(ctx: &mut Ctx, rng: &mut Rng, worlds: u64, routes_per: usize) {
    for _ in 0..worlds {
        if !ctx.rep.in_budget() {
            break;
        }
        let m = gen_model_table(rng);
        let pt = match guard(|| load_table(&m)) {
            Ok(Ok(pt)) => pt,
            Ok(Err(e)) => {
                ctx.rep.count("eval:loader-refused");
                if ctx.rep.counters.get("eval:loader-refused") == Some(&1) {
                    eprintln!("[C14] loader refused a generated table: {}", e);
                }
                continue;
            }
            Err(p) => {
                ctx.rep.violation(&panic_sig(&p), "loading a policy table panicked", Json::s(p.message.clone()));
                continue;
            }
        };
        ctx.rep.count("eval:tables");
        // the loader must refuse next-hop actions in an import assignment
        let with_nh: Vec<&String> = m.pols.iter().filter(|(_, ss)| ss.iter().any(|s| m.stmts[s].actions.nexthop.is_some())).map(|(n, _)| n).collect();
        if let Some(p) = with_nh.first() {
            match pt.build_assignment(None, "a", PolicyDirection::Import, Disposition::Accept, vec![(*p).clone()]) {
                Err(_) => ctx.rep.count("loader-rejects:nexthop-action-in-import"),
                Ok(_) => ctx.rep.count("unjudged:loader-accepted-nexthop-action-in-import"),
            }
        }
        for export in [false, true] {
            let pool: Vec<String> = if export { m.pols.keys().cloned().collect() } else { vec!["p0".into(), "p1".into()] };
            let mut names = pool.clone();
            rng.shuffle(&mut names);
            names.truncate(rng.range(1, names.len() as u64) as usize);
            let default = *rng.pick(&[Disp::Accept, Disp::Accept, Disp::Reject, Disp::Pass]);
            let asg = match pt.build_assignment(None, "a", dir_of(export), default.real(), names.clone()) {
                Ok(a) => a,
                Err(_) => {
                    ctx.rep.count("eval:assignment-refused");
                    continue;
                }
            };
            let prog = m.resolve(export, default, &names);
            ctx.rep.max("statements-in-program", prog.stmts.len() as u64);
            for i in 0..routes_per {
                let r = if i % 8 == 7 { gen_rpki_route(rng, &ctx.w, &mut ctx.rep) } else { gen_route(rng, &ctx.w, &mut ctx.rep) };
                shape_counters(&mut ctx.rep, &r);
                judge(ctx, &asg, &prog, &r, "eval", Vec::new());
            }
        }
        run_accumulated(ctx, rng, &m, routes_per / 2);
    }
}

/// Assignments built the way operators build them: by several calls on the same
/// direction (add after add, add after set, add after delete, delete-policies after
/// add), with a policy holding an rpki-validation statement first, in the middle or
/// last.  The result must evaluate as the policies it lists say, in the listed order.
fn run_accumulated(ctx: &mut Ctx, rng: &mut Rng, m0: &MTable, routes: usize) {
    let mut m = m0.clone();
    let want = *rng.pick(&[RpkiSt::Invalid, RpkiSt::Invalid, RpkiSt::Valid, RpkiSt::NotFound]);
    m.stmts.insert("r0".into(), MStmt { conds: vec![Cond::Rpki(want)], disp: Some(Disp::Reject), actions: Actions::default() });
    m.pols.insert("pr".into(), vec!["r0".into()]);
    for export in [false, true] {
        let Ok(mut pt) = load_table(&m) else {
            ctx.rep.count("eval:loader-refused");
            return;
        };
        let mut pool: Vec<String> = if export { vec!["p0".into(), "p1".into(), "p2".into(), "p3".into()] } else { vec!["p0".into(), "p1".into()] };
        rng.shuffle(&mut pool);
        pool.truncate(rng.range(1, pool.len() as u64) as usize);
        pool.insert(rng.usize(pool.len() + 1), "pr".into());
        let dir = dir_of(export);
        let default = *rng.pick(&[Disp::Accept, Disp::Accept, Disp::Pass]);
        let mut steps: Vec<String> = Vec::new();
        let mut last: Option<Arc<PolicyAssignment>> = None;
        let shape = rng.below(4);
        let mut calls: Vec<(&str, Vec<String>)> = Vec::new();
        match shape {
            // add, add, add ...: one policy per call
            0 => calls.extend(pool.iter().map(|p| ("add", vec![p.clone()]))),
            // set (first policy), then adds
            1 => {
                calls.push(("set", vec![pool[0].clone()]));
                calls.extend(pool[1..].iter().map(|p| ("add", vec![p.clone()])));
            }
            // add something, delete the assignment, then build it up again
            2 => {
                calls.push(("add", vec![pool[0].clone()]));
                calls.push(("delete-all", vec![]));
                calls.extend(pool.iter().map(|p| ("add", vec![p.clone()])));
            }
            // adds, then one of the policies is taken out again
            _ => {
                calls.extend(pool.iter().map(|p| ("add", vec![p.clone()])));
                if pool.len() > 1 {
                    let victim: Vec<&String> = pool.iter().filter(|p| *p != "pr" || rng.chance(1, 4)).collect();
                    if let Some(v) = victim.first() {
                        calls.push(("delete-policies", vec![(*v).clone()]));
                    }
                }
            }
        }
        let mut ok = true;
        for (op, names) in &calls {
            let res: Result<Option<Arc<PolicyAssignment>>, table::TableError> = match *op {
                "add" => pt.add_assignment("global", dir, default.real(), names.clone()).map(|(_, a)| Some(a)),
                "set" => pt.set_policy_assignment("global", dir, default.real(), names.clone()).map(Some),
                "delete-all" => pt.delete_policy_assignment(dir, names, true),
                _ => pt.delete_policy_assignment(dir, names, false),
            };
            steps.push(format!("{} {:?} -> {}", op, names, if res.is_ok() { "Ok" } else { "Err" }));
            match res {
                Ok(a) => last = a,
                Err(_) => {
                    ok = false;
                    break;
                }
            }
        }
        let Some(asg) = last else { continue };
        if !ok {
            ctx.rep.count("eval:accumulated:refused");
            continue;
        }
        ctx.rep.count("eval:accumulated-assignments");
        let listed: Vec<String> = asg.policies.iter().map(|p| p.name.to_string()).collect();
        match listed.iter().position(|p| p == "pr") {
            None => ctx.rep.count("eval:accumulated:rpki-policy-removed"),
            Some(0) => ctx.rep.count("eval:accumulated:rpki-policy-listed-first"),
            Some(i) if i + 1 == listed.len() => ctx.rep.count("eval:accumulated:rpki-policy-listed-last"),
            Some(_) => ctx.rep.count("eval:accumulated:rpki-policy-listed-in-the-middle"),
        }
        // order of the policies is the code's (not fixed by the statement); content by name
        let prog = m.resolve(export, Disp::of(asg.disposition), &listed);
        ctx.fallback_sig = Some("C14/eval/accumulated-assignment".into());
        for i in 0..routes {
            let r = if i % 2 == 0 { gen_rpki_route(rng, &ctx.w, &mut ctx.rep) } else { gen_route(rng, &ctx.w, &mut ctx.rep) };
            let extra = vec![("assignment_built_by", Json::strs(steps.clone()))];
            judge(ctx, &asg, &prog, &r, "eval-accumulated", extra);
        }
        ctx.fallback_sig = None;
    }
}

// ===================================================================== workload 3: CRUD histories

struct Live {
    export: bool,
    asg: Arc<PolicyAssignment>,
    prog: Program,
    baseline: Vec<String>,
}

fn fingerprint(w: &World, asg: &PolicyAssignment, export: bool, r: &RouteCtx) -> String {
    match run_real(w, asg, export, r) {
        Err(p) => format!("panic@{}", p.location),
        Ok(g) => {
            if g.rejected {
                "reject".into()
            } else {
                format!("{:?} {:?} {:?}", g.disp, decode_attrs(&g.attrs), g.nh)
            }
        }
    }
}

fn real_names(pt: &PolicyTable) -> (BTreeSet<(SetKind, String)>, BTreeSet<String>, BTreeSet<String>) {
    use table::DefinedSetRef as D;
    let sets = pt
        .iter_defined_sets()
        .map(|d| match d {
            D::Prefix(n, _) => (SetKind::Prefix, n.to_string()),
            D::Neighbor(n, _) => (SetKind::Neighbor, n.to_string()),
            D::AsPath(n, _) => (SetKind::AsPath, n.to_string()),
            D::Community(n, _) => (SetKind::Comm, n.to_string()),
            D::ExtCommunity(n, _) => (SetKind::Ext, n.to_string()),
            D::LargeCommunity(n, _) => (SetKind::Large, n.to_string()),
        })
        .collect();
    let stmts = pt.iter_statements(String::new()).map(|s| s.name.to_string()).collect();
    let pols = pt.iter_policies(String::new()).map(|p| p.name.to_string()).collect();
    (sets, stmts, pols)
}

const SLOTS: [&str; 4] = ["global-import", "global-export", "peer0-export", "peer1-export"];

fn policy_users(live: &BTreeMap<&'static str, Live>, name: &str, global_only: bool) -> Option<String> {
    live.iter()
        .find(|(slot, l)| (!global_only || slot.starts_with("global")) && l.prog.policies.iter().any(|p| p == name))
        .map(|(slot, _)| format!("assignment {}", slot))
}

fn subset<T: Clone>(rng: &mut Rng, v: &[T]) -> Vec<T> {
    // a strict, possibly empty subset
    let mut out: Vec<T> = v.iter().filter(|_| rng.bool()).cloned().collect();
    if out.len() == v.len() && !out.is_empty() {
        out.pop();
    }
    out
}

fn body_subset(rng: &mut Rng, b: &SetBody, extra: &SetBody) -> SetBody {
    let mut s = match b {
        SetBody::Prefix(v) => SetBody::Prefix(subset(rng, v)),
        SetBody::Neighbor(v) => SetBody::Neighbor(subset(rng, v)),
        SetBody::AsPath(v) => SetBody::AsPath(subset(rng, v)),
        SetBody::Comm(v) => SetBody::Comm(subset(rng, v)),
        SetBody::Ext(v) => SetBody::Ext(subset(rng, v)),
        SetBody::Large(v) => SetBody::Large(subset(rng, v)),
    };
    if rng.chance(1, 3) {
        s.merge(extra);
    }
    s
}

/// what a CRUD operation created or changed, to be evaluated right away
enum Target {
    /// kind, name, bodies named by the operation (added / removed elements)
    Set(SetKind, String, Vec<SetBody>),
    Stmt(String),
    Policy(String),
}

/// routes aimed at prefix-set entries: at the ends of each entry's range, at and just
/// past its own length, below the entry's prefix or (for /0 entries) anywhere
fn routes_for_entries(rng: &mut Rng, w: &World, rep: &mut Report, entries: &[PfxEntry]) -> Vec<RouteCtx> {
    let mut out = Vec::new();
    let mut es: Vec<&PfxEntry> = entries.iter().filter(|e| e.clean()).collect();
    rng.shuffle(&mut es);
    for e in es.into_iter().take(5) {
        let wd = width(e.v6) as u8;
        let cands = [e.min.min(wd), e.max.min(wd), e.len, (e.len + 1).min(wd), ((e.min as u16 + e.max as u16) / 2).min(wd as u16) as u8];
        for _ in 0..2 {
            let len = *rng.pick(&cands);
            let noise = ((rng.next_u64() as u128) << 64 | rng.next_u64() as u128) & if e.v6 { u128::MAX } else { 0xffff_ffff };
            let tail = if e.len == 0 { noise } else if e.len >= wd { 0 } else { noise & ((1u128 << (wd as u32 - e.len as u32)) - 1) };
            let addr = mask_to(e.addr | tail, len, e.v6);
            let mut r = gen_route(rng, w, rep);
            r.nlri = if e.v6 {
                Nlri::V6(Ipv6Net { addr: Ipv6Addr::from(addr), mask: len })
            } else {
                Nlri::V4(Ipv4Net { addr: Ipv4Addr::from(addr as u32), mask: len })
            };
            r.fam = if e.v6 { Fam::V6 } else { Fam::V4 };
            r.pfx = Some((e.v6, addr, len));
            r.via_wire = None;
            out.push(r);
        }
    }
    out
}

/// Evaluate the entity an accepted operation touched, wrapped into a throw-away
/// statement / policy (names zz-*) and an assignment built with `build_assignment`,
/// against the model's content.  The throw-away entities are removed again with
/// `delete_policy(preserve_statements=true)` + `delete_statement`.
fn probe_entity(ctx: &mut Ctx, rng: &mut Rng, pt: &mut PolicyTable, m: &MTable, t: &Target, probes: &[RouteCtx], ops: &[String], label: &str) -> bool {
    let mut mm = m.clone();
    let mut made_stmt = false;
    let mut made_pol = false;
    let mut targeted: Vec<RouteCtx> = Vec::new();
    let polname: String = match t {
        Target::Set(k, n, bodies) => {
            let Some(set) = m.sets.get(&(*k, n.clone())) else { return false };
            if set.body.texts().is_empty() {
                return false;
            }
            if let SetBody::Prefix(es) = &set.body {
                let mut all: Vec<PfxEntry> = es.clone();
                for b in bodies {
                    if let SetBody::Prefix(x) = b {
                        all.extend(x.iter().cloned());
                    }
                }
                targeted = routes_for_entries(rng, &ctx.w, &mut ctx.rep, &all);
            }
            let st = MStmt { conds: vec![Cond::Set(*k, n.clone(), Opt::Any)], disp: Some(Disp::Reject), actions: Actions::default() };
            if pt.add_statement("zz-s", st.conds.iter().map(|c| c.config()).collect(), Some(Disposition::Reject), Actions::default()).is_err() {
                ctx.rep.count("crud:probe-refused");
                return false;
            }
            made_stmt = true;
            mm.stmts.insert("zz-s".into(), st);
            if pt.add_policy("zz-p", vec!["zz-s".into()]).is_err() {
                ctx.rep.count("crud:probe-refused");
                let _ = pt.delete_statement("zz-s", true, vec![], None, Actions::default());
                return false;
            }
            made_pol = true;
            mm.pols.insert("zz-p".into(), vec!["zz-s".into()]);
            "zz-p".into()
        }
        Target::Stmt(n) => {
            if !m.stmts.contains_key(n) {
                return false;
            }
            if pt.add_policy("zz-p", vec![n.clone()]).is_err() {
                ctx.rep.count("crud:probe-refused");
                return false;
            }
            made_pol = true;
            mm.pols.insert("zz-p".into(), vec![n.clone()]);
            "zz-p".into()
        }
        Target::Policy(n) => {
            if !m.pols.contains_key(n) {
                return false;
            }
            n.clone()
        }
    };
    let mut violated = false;
    match pt.build_assignment(None, "probe", PolicyDirection::Export, Disposition::Accept, vec![polname.clone()]) {
        Err(_) => ctx.rep.count("crud:probe-refused"),
        Ok(asg) => {
            ctx.rep.count("crud:content-probes");
            let prog = mm.resolve(true, Disp::Accept, &[polname.clone()]);
            let mut routes: Vec<RouteCtx> = targeted;
            routes.extend(probes.iter().take(3).cloned());
            for _ in 0..2 {
                routes.push(gen_route(rng, &ctx.w, &mut ctx.rep));
            }
            ctx.fallback_sig = Some(format!("C14/crud/{}", label));
            for r in &routes {
                let extra = vec![("ops", Json::strs(ops.to_vec()))];
                if judge(ctx, &asg, &prog, r, "crud-probe", extra) == Verdict::Violation {
                    violated = true;
                    break;
                }
            }
            ctx.fallback_sig = None;
        }
    }
    if made_pol {
        let _ = guard(|| pt.delete_policy("zz-p", true, true, vec![]));
    }
    if made_stmt {
        let _ = guard(|| pt.delete_statement("zz-s", true, vec![], None, Actions::default()));
    }
    violated
}

fn run_crud(ctx: &mut Ctx, rng: &mut Rng, histories: u64) {
    for _ in 0..histories {
        if !ctx.rep.in_budget() {
            break;
        }
        ctx.rep.count("crud:histories");
        let mut pt = PolicyTable::new();
        let mut m = MTable::default();
        let mut live: BTreeMap<&'static str, Live> = BTreeMap::new();
        let mut ops: Vec<String> = Vec::new();
        let probes: Vec<RouteCtx> = (0..8).map(|i| if i >= 6 { gen_rpki_route(rng, &ctx.w, &mut ctx.rep) } else { gen_route(rng, &ctx.w, &mut ctx.rep) }).collect();
        let steps = rng.range(25, 70);
        let stmt_names: Vec<String> = (0..5).map(|i| format!("s{}", i)).collect();
        let pol_names: Vec<String> = (0..4).map(|i| format!("p{}", i)).collect();
        let mut step = 0;
        'hist: while step < steps {
            step += 1;
            // -------- choose and execute one operation
            // (entity, op, whether it hit an existing entity, who references it, result, model update)
            let phase_bias = step < 12; // populate first
            let roll = if phase_bias { rng.below(60) } else { rng.below(100) };
            let mut targeted_slot: Option<&'static str> = None;
            let mut referenced_by: Option<String> = None;
            let mut hit_existing = false;
            let entity: &'static str;
            let opname: &'static str;
            let result: Result<(), String>;
            let mut new_global: Option<(Option<Arc<PolicyAssignment>>, Option<Arc<PolicyAssignment>>)> = None;
            let mut model_update: Option<Box<dyn FnOnce(&mut MTable)>> = None;
            let mut target: Option<Target> = None;
            let mut dp_preserve: Option<bool> = None;
            let desc: String;
            if roll < 18 || (roll >= 60 && roll < 72) {
                // ---- defined sets
                entity = "defined-set";
                let kind = if rng.chance(1, 3) { SetKind::Prefix } else { *rng.pick(&ALL_KINDS) };
                let name = format!("{}{}", kind.short(), rng.below(2));
                let key = (kind, name.clone());
                let existing = m.sets.get(&key).cloned();
                hit_existing = existing.is_some();
                if hit_existing {
                    referenced_by = m.set_users(kind, &name);
                }
                let mut body = gen_set_body(rng, kind);
                if let SetBody::Prefix(v) = &mut body {
                    if rng.chance(1, 3) {
                        // default-route entries (kept apart from the trie by the code under test)
                        let (min, max) = *rng.pick(&[(0u8, 0u8), (0, 32), (8, 24), (24, 24), (0, 8), (16, 32), (1, 1)]);
                        v.push(PfxEntry { v6: rng.chance(1, 4), addr: 0, len: 0, min, max });
                    }
                }
                let which = if roll < 18 { rng.below(2) } else { 2 + rng.below(2) };
                match which {
                    0 => {
                        opname = "add";
                        desc = format!("add_defined_set {} {} [{}]", kind.name(), name, body.texts().join(", "));
                        target = Some(Target::Set(kind, name.clone(), vec![body.clone()]));
                        result = guard_res(|| pt.add_defined_set(body.config(&name)));
                        let b2 = body.clone();
                        model_update = Some(Box::new(move |m: &mut MTable| {
                            let e = m.sets.entry(key).or_insert(MSet { body: b2.clone(), multi_range: false });
                            if hit_existing {
                                e.body.merge(&b2);
                            }
                            e.multi_range |= e.body.has_multi_range();
                        }));
                    }
                    1 => {
                        opname = "replace";
                        desc = format!("replace_defined_set {} {} [{}]", kind.name(), name, body.texts().join(", "));
                        let mut named = vec![body.clone()];
                        named.extend(existing.iter().map(|e| e.body.clone())); // what was replaced must be gone
                        target = Some(Target::Set(kind, name.clone(), named));
                        result = guard_res(|| pt.replace_defined_set(body.config(&name)));
                        let b2 = body.clone();
                        model_update = Some(Box::new(move |m: &mut MTable| {
                            let multi = b2.has_multi_range();
                            m.sets.insert(key, MSet { body: b2, multi_range: multi });
                        }));
                    }
                    2 => {
                        opname = "delete";
                        desc = format!("delete_defined_set {} {} all=true", kind.name(), name);
                        result = guard_res(|| pt.delete_defined_set(body.config(&name), true));
                        model_update = Some(Box::new(move |m: &mut MTable| {
                            m.sets.remove(&key);
                        }));
                    }
                    _ => {
                        opname = "delete-elements";
                        let mut rm = match &existing {
                            Some(e) => body_subset(rng, &e.body, &body),
                            None => body.clone(),
                        };
                        if let (SetBody::Prefix(rv), Some(SetBody::Prefix(ev))) = (&mut rm, existing.as_ref().map(|e| &e.body)) {
                            // make sure default-route entries are among the removed ones often enough
                            if let Some(z) = ev.iter().find(|e| e.len == 0) {
                                if ev.len() > 1 && !rv.contains(z) && rng.bool() {
                                    rv.push(z.clone());
                                }
                            }
                        }
                        desc = format!("delete_defined_set {} {} all=false [{}]", kind.name(), name, rm.texts().join(", "));
                        target = Some(Target::Set(kind, name.clone(), vec![rm.clone()]));
                        if let (SetBody::Prefix(rv), Some(SetBody::Prefix(ev))) = (&rm, existing.as_ref().map(|e| &e.body)) {
                            if rv.iter().any(|e| e.len == 0 && ev.contains(e)) {
                                ctx.rep.count("crud:prefix:default-route-entry-removed");
                            }
                            if rv.iter().any(|e| ev.contains(e)) {
                                ctx.rep.count("crud:prefix:entry-removed");
                            }
                        }
                        result = guard_res(|| pt.delete_defined_set(rm.config(&name), false));
                        model_update = Some(Box::new(move |m: &mut MTable| {
                            if let Some(e) = m.sets.get_mut(&key) {
                                e.body.remove(&rm);
                            }
                        }));
                    }
                }
            } else if roll < 34 || (roll >= 72 && roll < 82) {
                // ---- statements
                entity = "statement";
                let name = rng.pick(&stmt_names).clone();
                let existing = m.stmts.get(&name).cloned();
                hit_existing = existing.is_some();
                if hit_existing {
                    referenced_by = m.stmt_users(&name);
                }
                if roll < 34 {
                    opname = "add";
                    let allow_nh = rng.chance(1, 4);
                    let mut s = gen_stmt(rng, &m, allow_nh);
                    if hit_existing {
                        // a merge: few kinds so that it has a chance to be conflict-free
                        s.conds.truncate(1);
                        if rng.bool() {
                            s.disp = None;
                        }
                    }
                    if rng.chance(1, 12) {
                        // reference to a set that may not exist / option the loader refuses
                        s.conds.push(Cond::Set(SetKind::Prefix, "ps1".into(), Opt::All));
                    }
                    target = Some(Target::Stmt(name.clone()));
                    desc = format!(
                        "add_statement {} if [{}] then {} disposition={:?}",
                        name,
                        s.conds.iter().map(|c| c.text()).collect::<Vec<_>>().join(" && "),
                        actions_text(&s.actions),
                        s.disp
                    );
                    let (cfgs, d, a) = (s.conds.iter().map(|c| c.config()).collect::<Vec<_>>(), s.disp.map(|d| d.real()), s.actions.clone());
                    result = guard_res(|| pt.add_statement(&name, cfgs, d, a));
                    let n2 = name.clone();
                    model_update = Some(Box::new(move |m: &mut MTable| match m.stmts.get_mut(&n2) {
                        None => {
                            m.stmts.insert(n2, s);
                        }
                        Some(e) => {
                            e.conds.extend(s.conds);
                            if s.disp.is_some() {
                                e.disp = s.disp;
                            }
                            macro_rules! mg {
                                ($f:ident) => {
                                    if s.actions.$f.is_some() {
                                        e.actions.$f = s.actions.$f;
                                    }
                                };
                            }
                            mg!(nexthop);
                            mg!(community);
                            mg!(local_pref);
                            mg!(med);
                            mg!(as_prepend);
                            mg!(ext_community);
                            mg!(large_community);
                            mg!(origin);
                        }
                    }));
                } else if rng.bool() {
                    opname = "delete";
                    desc = format!("delete_statement {} all=true", name);
                    result = guard_res(|| pt.delete_statement(&name, true, vec![], None, Actions::default()));
                    let n2 = name.clone();
                    model_update = Some(Box::new(move |m: &mut MTable| {
                        m.stmts.remove(&n2);
                    }));
                } else {
                    opname = "delete-parts";
                    // remove some condition kinds / the disposition / an action that are set
                    let (conds, disp, acts) = match &existing {
                        Some(e) => {
                            let cs = subset(rng, &e.conds);
                            let mut seen = BTreeSet::new();
                            let cs: Vec<Cond> = cs.into_iter().filter(|c| seen.insert(c.kind_id())).collect();
                            let mut a = Actions::default();
                            if rng.bool() {
                                a.med = e.actions.med.clone();
                            }
                            if rng.bool() {
                                a.community = e.actions.community.clone();
                            }
                            (cs, if rng.bool() { e.disp } else { None }, a)
                        }
                        None => (vec![], None, Actions::default()),
                    };
                    target = Some(Target::Stmt(name.clone()));
                    desc = format!(
                        "delete_statement {} all=false kinds=[{}] disposition={:?} actions=[{}]",
                        name,
                        conds.iter().map(|c| c.kind_name()).collect::<Vec<_>>().join(", "),
                        disp,
                        actions_text(&acts)
                    );
                    let cfgs: Vec<ConditionConfig> = conds.iter().map(|c| c.config()).collect();
                    let (d, a) = (disp.map(|d| d.real()), acts.clone());
                    result = guard_res(|| pt.delete_statement(&name, false, cfgs, d, a));
                    let n2 = name.clone();
                    model_update = Some(Box::new(move |m: &mut MTable| {
                        if let Some(e) = m.stmts.get_mut(&n2) {
                            for c in &conds {
                                if let Some(i) = e.conds.iter().position(|x| x.kind_id() == c.kind_id()) {
                                    e.conds.remove(i);
                                }
                            }
                            if disp.is_some() {
                                e.disp = None;
                            }
                            if acts.med.is_some() {
                                e.actions.med = None;
                            }
                            if acts.community.is_some() {
                                e.actions.community = None;
                            }
                        }
                    }));
                }
            } else if roll < 46 || (roll >= 82 && roll < 90) {
                // ---- policies (the daemon refuses first when a per-peer assignment uses the policy)
                entity = "policy";
                let name = rng.pick(&pol_names).clone();
                hit_existing = m.pols.contains_key(&name);
                if hit_existing {
                    if let Some(u) = policy_users(&live, &name, false) {
                        if !u.contains("global") {
                            ctx.rep.count("crud:refused-by-daemon-protocol(per-peer user)");
                            ops.push(format!("(policy op on {} not issued: used by {})", name, u));
                            continue 'hist;
                        }
                        referenced_by = Some(u);
                    }
                }
                let have: Vec<String> = m.stmts.keys().cloned().collect();
                let sn: Vec<String> = (0..rng.range(1, 3)).map(|_| if !have.is_empty() && rng.chance(4, 5) { rng.pick(&have).clone() } else { rng.pick(&stmt_names).clone() }).collect();
                if roll < 46 {
                    opname = "add";
                    desc = format!("add_policy {} {:?}", name, sn);
                    target = Some(Target::Policy(name.clone()));
                    result = guard_res(|| pt.add_policy(&name, sn.clone()));
                    let n2 = name.clone();
                    model_update = Some(Box::new(move |m: &mut MTable| {
                        m.pols.entry(n2).or_default().extend(sn);
                    }));
                } else {
                    let all = rng.bool();
                    let preserve = rng.bool();
                    opname = if all { "delete" } else { "delete-statements" };
                    desc = format!("delete_policy {} preserve_statements={} all={} {:?}", name, preserve, all, sn);
                    dp_preserve = Some(preserve);
                    if !all {
                        target = Some(Target::Policy(name.clone()));
                    }
                    let r = guard(|| pt.delete_policy(&name, preserve, all, sn.clone()));
                    result = match r {
                        Err(p) => Err(format!("PANIC {} {} at {}", panic_sig(&p), p.message, p.location)),
                        Ok(Err(e)) => Err(format!("{:?}", e)),
                        Ok(Ok(pair)) => {
                            new_global = Some(pair);
                            Ok(())
                        }
                    };
                    let n2 = name.clone();
                    model_update = Some(Box::new(move |m: &mut MTable| {
                        let removed: Vec<String> = if all {
                            m.pols.remove(&n2).unwrap_or_default()
                        } else {
                            let e = m.pols.get_mut(&n2).unwrap();
                            let rem: Vec<String> = e.iter().filter(|s| sn.contains(s)).cloned().collect();
                            e.retain(|s| !sn.contains(s));
                            rem
                        };
                        if !preserve {
                            for s in removed {
                                if m.stmt_users(&s).is_none() {
                                    m.stmts.remove(&s);
                                }
                            }
                        }
                    }));
                }
            } else {
                // ---- assignments (global through the table, per-peer the way the daemon does it)
                entity = "assignment";
                let slot = *rng.pick(&SLOTS);
                targeted_slot = Some(slot);
                let export = slot != "global-import";
                let global = slot.starts_with("global");
                let mut names: Vec<String> = if !m.pols.is_empty() && rng.chance(4, 5) { m.pols.keys().cloned().collect() } else { pol_names.clone() };
                rng.shuffle(&mut names);
                names.truncate(rng.range(1, 2) as usize);
                let default = *rng.pick(&[Disp::Accept, Disp::Reject, Disp::Accept, Disp::Pass]);
                let which = if roll < 60 { rng.below(2) } else { rng.below(4) };
                let built: Result<Option<Arc<PolicyAssignment>>, String>;
                match which {
                    0 => {
                        opname = "add";
                        desc = format!("add assignment {} default={:?} {:?}", slot, default, names);
                        built = guard_res2(|| {
                            if global {
                                pt.add_assignment("global", dir_of(export), default.real(), names.clone()).map(|(_, a)| Some(a))
                            } else {
                                let ex = live.get(slot).map(|l| l.asg.clone());
                                pt.build_assignment(ex.as_deref(), slot, PolicyDirection::Export, default.real(), names.clone()).map(Some)
                            }
                        });
                    }
                    1 => {
                        opname = "set";
                        desc = format!("set assignment {} default={:?} {:?}", slot, default, names);
                        built = guard_res2(|| {
                            if global {
                                pt.set_policy_assignment("global", dir_of(export), default.real(), names.clone()).map(Some)
                            } else {
                                pt.build_assignment(None, slot, PolicyDirection::Export, default.real(), names.clone()).map(Some)
                            }
                        });
                    }
                    2 => {
                        opname = "delete-policies";
                        desc = format!("delete assignment {} policies {:?}", slot, names);
                        built = guard_res2(|| {
                            if global {
                                pt.delete_policy_assignment(dir_of(export), &names, false)
                            } else {
                                match live.get(slot) {
                                    None => Err(table::TableError::NotFound),
                                    Some(l) => Ok(Some(l.asg.without_policies(&names))),
                                }
                            }
                        });
                    }
                    _ => {
                        opname = "delete";
                        desc = format!("delete assignment {} all", slot);
                        built = guard_res2(|| if global { pt.delete_policy_assignment(dir_of(export), &names, true) } else { Ok(None) });
                    }
                }
                result = match built {
                    Err(e) => Err(e),
                    Ok(None) => {
                        live.remove(slot);
                        Ok(())
                    }
                    Ok(Some(asg)) => {
                        // contents of the new assignment as the code reports them, resolved in the model
                        let pnames: Vec<String> = asg.policies.iter().map(|p| p.name.to_string()).collect();
                        let prog = m.resolve(export, Disp::of(asg.disposition), &pnames);
                        if which < 2 {
                            let old: BTreeSet<String> =
                                if which == 0 { live.get(slot).map(|l| l.prog.policies.iter().cloned().collect()).unwrap_or_default() } else { BTreeSet::new() };
                            let want: BTreeSet<String> = old.union(&names.iter().cloned().collect()).cloned().collect();
                            let have: BTreeSet<String> = pnames.iter().cloned().collect();
                            if want != have || asg.disposition != default.real() {
                                ctx.rep.violation(
                                    &format!("C14/chain/assignment-{}", opname),
                                    "an assignment does not hold the policies / default action it was given",
                                    Json::obj(vec![("ops", Json::strs(ops.clone())), ("op", Json::s(desc.clone())), ("have", Json::s(format!("{:?} {:?}", have, Disp::of(asg.disposition))))]),
                                );
                            }
                        }
                        live.insert(slot, Live { export, asg, prog, baseline: Vec::new() });
                        Ok(())
                    }
                };
            }
            // -------- bookkeeping and judgement
            ctx.rep.eval();
            let ok = result.is_ok();
            ops.push(format!("{} -> {}", desc, match &result {
                Ok(()) => "Ok".to_string(),
                Err(e) => format!("Err({})", e),
            }));
            ctx.rep.count(&format!("crud:{}:{}:{}", entity, opname, if ok { "ok" } else { "err" }));
            if let Err(e) = &result {
                if e.starts_with("PANIC") {
                    let sig = e.split(' ').nth(1).unwrap_or("C14/panic/?").to_string();
                    ctx.rep.violation(
                        &sig,
                        &format!("a policy CRUD call panicked: {}", e),
                        Json::obj(vec![("ops", Json::strs(ops.clone()))]),
                    );
                    break 'hist;
                }
            }
            if hit_existing && entity != "assignment" {
                ctx.rep.count(if referenced_by.is_some() { "crud:op-on-referenced-entity" } else { "crud:op-on-unreferenced-entity" });
                if referenced_by.is_some() {
                    ctx.rep.count(if ok { "crud:referenced:accepted" } else { "crud:referenced:refused" });
                    ctx.rep.nontrivial(fnv64(ops.join("\n").as_bytes()));
                }
            }
            // (I3) a referenced set / statement / policy must not be deleted or changed
            if ok && entity != "assignment" {
                if let Some(user) = &referenced_by {
                    ctx.rep.violation(
                        &format!("C14/integrity/{}/{}", entity, opname),
                        &format!("{} of a {} was accepted although it is still referenced by {}", opname, entity, user),
                        Json::obj(vec![("ops", Json::strs(ops.clone())), ("referenced_by", Json::s(user.clone()))]),
                    );
                    // what follows in this history would only restate the same fault
                    break 'hist;
                }
            }
            let m_before = if dp_preserve.is_some() { Some(m.clone()) } else { None };
            if ok {
                if let Some(f) = model_update.take() {
                    f(&mut m);
                }
            }
            // content check: what the accepted operation created or changed is evaluated at once
            let mut probe_cleanup_ran = false;
            if ok {
                if let Some(t) = &target {
                    probe_cleanup_ran = !matches!(t, Target::Policy(_));
                    let label = format!("{}/{}", entity, opname);
                    if probe_entity(ctx, rng, &mut pt, &m, t, &probes, &ops, &label) {
                        break 'hist;
                    }
                }
            }
            if let Some((imp, exp)) = new_global {
                // the daemon stores what delete_policy returns as the global assignments
                for (slot, a) in [("global-import", imp), ("global-export", exp)] {
                    match (live.get_mut(slot), a) {
                        (Some(l), Some(a)) => l.asg = a,
                        (None, None) => {}
                        _ => {
                            ctx.rep.violation(
                                "C14/integrity/policy/delete-changed-global-assignment",
                                "delete_policy returned a global assignment that differs in presence from the installed one",
                                Json::obj(vec![("ops", Json::strs(ops.clone()))]),
                            );
                        }
                    }
                }
            }
            // model and table must list the same names, otherwise the history is not judged further
            let (rs, rst, rp) = real_names(&pt);
            let ms: BTreeSet<(SetKind, String)> = m.sets.keys().cloned().collect();
            let mst: BTreeSet<String> = m.stmts.keys().cloned().collect();
            let mp: BTreeSet<String> = m.pols.keys().cloned().collect();
            let mut names_ok = rs == ms && rst == mst && rp == mp;
            if !names_ok && rs == ms && rp == mp && ok {
                // only statements differ: the business of delete_policy's preserve_statements
                let missing: Vec<String> = mst.difference(&rst).cloned().collect();
                let extra: Vec<String> = rst.difference(&mst).cloned().collect();
                let preserve_true_ran = dp_preserve == Some(true) || probe_cleanup_ran;
                if let Some(sname) = missing.first() {
                    if let Some(user) = m.stmt_users(sname) {
                        ctx.rep.violation(
                            "C14/integrity/statement/deleted-with-policy",
                            &format!("deleting a policy removed statement {} although {} still references it", sname, user),
                            Json::obj(vec![("ops", Json::strs(ops.clone())), ("statement", Json::s(sname.clone()))]),
                        );
                        break 'hist;
                    } else if preserve_true_ran {
                        ctx.rep.violation(
                            "C14/crud/policy/delete/preserve-statements-ignored",
                            &format!("delete_policy with preserve_statements=true deleted statement {}", sname),
                            Json::obj(vec![("ops", Json::strs(ops.clone())), ("statement", Json::s(sname.clone()))]),
                        );
                        break 'hist;
                    }
                } else if dp_preserve == Some(false) && !extra.is_empty() {
                    // statements of the deleted policy that nothing references were kept although
                    // preserve_statements=false: harmless for every user, not judged; follow the code
                    ctx.rep.count("unjudged:delete-policy-kept-unreferenced-statements");
                    if let Some(mb) = &m_before {
                        for sname in &extra {
                            if let Some(st) = mb.stmts.get(sname) {
                                m.stmts.insert(sname.clone(), st.clone());
                            }
                        }
                    }
                    names_ok = rst == m.stmts.keys().cloned().collect::<BTreeSet<String>>();
                }
            }
            if !names_ok {
                ctx.rep.count(&format!("unjudged:model-drift:{}:{}", entity, opname));
                if ctx.rep.counters.get(&format!("unjudged:model-drift:{}:{}", entity, opname)) == Some(&1) {
                    eprintln!("[C14] model drift after: {:?}\n real sets={:?} stmts={:?} pols={:?}\n model sets={:?} stmts={:?} pols={:?}", ops, rs, rst, rp, ms, mst, mp);
                }
                break 'hist;
            }
            // (V1) every live assignment the op did not target evaluates the probe set as before
            let slots: Vec<&'static str> = live.keys().cloned().collect();
            for slot in slots {
                let (export, asg) = {
                    let l = &live[slot];
                    (l.export, l.asg.clone())
                };
                let fps: Vec<String> = probes.iter().map(|r| fingerprint(&ctx.w, &asg, export, r)).collect();
                let l = live.get_mut(slot).unwrap();
                if Some(slot) == targeted_slot || l.baseline.is_empty() {
                    l.baseline = fps;
                    if ok && Some(slot) == targeted_slot {
                        // (V2) a freshly built assignment evaluates as the named entities say
                        let prog = l.prog.clone();
                        let accumulated = opname == "add" && prog.policies.len() > 1;
                        if accumulated {
                            ctx.rep.count("crud:assignment:accumulated");
                        }
                        ctx.fallback_sig = Some(format!("C14/crud/assignment/{}{}", opname, if accumulated { "/accumulated-assignment" } else { "" }));
                        for r in &probes {
                            let extra = vec![("ops", Json::strs(ops.clone()))];
                            if judge(ctx, &asg, &prog, r, "crud", extra) == Verdict::Violation {
                                break;
                            }
                        }
                        ctx.fallback_sig = None;
                    }
                    continue;
                }
                ctx.rep.count("crud:live-assignment-rechecks");
                if let Some(i) = (0..fps.len()).find(|i| fps[*i] != l.baseline[*i]) {
                    let w = Json::obj(vec![
                        ("ops", Json::strs(ops.clone())),
                        ("assignment", Json::s(slot)),
                        ("route", probes[i].json(&ctx.w)),
                        ("before", Json::s(l.baseline[i].clone())),
                        ("after", Json::s(fps[i].clone())),
                    ]);
                    ctx.rep.violation(
                        &format!("C14/integrity/{}/{}/behaviour-changed", entity, opname),
                        "an operation that did not target a live assignment changed what that assignment does",
                        w,
                    );
                    l.baseline = fps;
                }
            }
            ctx.rep.max("crud:live-assignments", live.len() as u64);
        }
    }
}

fn guard_res<F: FnOnce() -> Result<(), table::TableError>>(f: F) -> Result<(), String> {
    match guard(f) {
        Err(p) => Err(format!("PANIC {} {} at {}", panic_sig(&p), p.message, p.location)),
        Ok(Err(e)) => Err(format!("{:?}", e)),
        Ok(Ok(())) => Ok(()),
    }
}

fn guard_res2<T, F: FnOnce() -> Result<T, table::TableError>>(f: F) -> Result<T, String> {
    match guard(f) {
        Err(p) => Err(format!("PANIC {} {} at {}", panic_sig(&p), p.message, p.location)),
        Ok(Err(e)) => Err(format!("{:?}", e)),
        Ok(Ok(v)) => Ok(v),
    }
}

fn main() {
    let params = Params::from_args_env();
    let rule = "case = (policy program, route) judged against the reference interpreter, or one step of a CRUD history; non-trivial = at least one statement of the program applied to the route (CRUD: the operation targeted a set / statement / policy that is still referenced); distinct by hash of (program text, route) / of the op list";
    let mut rep = Report::new("C14", &params);
    rep.extra("rule", Json::s(rule));
    rep.max_samples = 3;
    let mut ctx = Ctx { rep, w: make_world(), fallback_sig: None };
    let mut rng = Rng::new(params.seed ^ 0xC14);
    let part = params.get("part").unwrap_or("all").to_string();
    if part == "all" || part == "unit" {
        let mut r = rng.fork();
        run_unit(&mut ctx, &mut r, params.n(2_500, 150_000));
    }
    if part == "all" || part == "eval" {
        let mut r = rng.fork();
        run_eval(&mut ctx, &mut r, params.n(500, 60_000), 20);
    }
    if part == "all" || part == "crud" {
        let mut r = rng.fork();
        run_crud(&mut ctx, &mut r, params.n(600, 40_000));
    }
    if ctx.rep.evaluations < 500 && params.scale >= 1.0 {
        ctx.rep.inconclusive("fewer than 500 evaluations");
    }
    std::process::exit(ctx.rep.finish());
}
